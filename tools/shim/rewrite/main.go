// rewrite: copy of the repo's non-test Go files with os.* I/O calls redirected to the vfs shim.
// usage: rewrite <repo> <outdir>  -> writes rewritten files + overlay.json
package main

import (
	"bytes"
	"encoding/json"
	"fmt"
	"go/ast"
	"go/format"
	"go/parser"
	"go/token"
	"os"
	"path/filepath"
	"strings"
)

var redirect = map[string]bool{"Create": true, "OpenFile": true, "Open": true, "Mkdir": true, "MkdirAll": true,
	"Rename": true, "Remove": true, "ReadFile": true, "ReadDir": true}

func main() {
	repo, out := os.Args[1], os.Args[2]
	overlay := map[string]string{}
	n := 0
	filepath.Walk(repo, func(p string, info os.FileInfo, err error) error {
		if err != nil || info.IsDir() || !strings.HasSuffix(p, ".go") || strings.HasSuffix(p, "_test.go") || strings.Contains(p, "/.git/") {
			return nil
		}
		fset := token.NewFileSet()
		f, err := parser.ParseFile(fset, p, nil, parser.ParseComments)
		if err != nil {
			panic(err)
		}
		changed := false
		ast.Inspect(f, func(nd ast.Node) bool {
			if se, ok := nd.(*ast.SelectorExpr); ok {
				if id, ok := se.X.(*ast.Ident); ok && id.Name == "os" && redirect[se.Sel.Name] {
					id.Name = "zvfs"
					changed = true
					n++
				}
			}
			return true
		})
		if !changed {
			return nil
		}
		// add import
		imp := &ast.ImportSpec{Path: &ast.BasicLit{Kind: token.STRING, Value: `"github.com/JunNishimura/Goit/internal/zvfs"`}}
		for _, d := range f.Decls {
			if gd, ok := d.(*ast.GenDecl); ok && gd.Tok == token.IMPORT {
				gd.Specs = append(gd.Specs, imp)
				break
			}
		}
		var buf bytes.Buffer
		if err := format.Node(&buf, fset, f); err != nil {
			panic(err)
		}
		// os import may now be unused: keep it alive
		src := buf.String() + "\nvar _ = os.Getpid\n"
		rel, _ := filepath.Rel(repo, p)
		dst := filepath.Join(out, rel)
		os.MkdirAll(filepath.Dir(dst), 0o755)
		os.WriteFile(dst, []byte(src), 0o644)
		overlay[p] = dst
		return nil
	})
	vfsSrc, _ := filepath.Abs(filepath.Join(filepath.Dir(os.Args[0]), "..", "vfs", "vfs.go"))
	if len(os.Args) > 3 {
		vfsSrc = os.Args[3]
	}
	overlay[filepath.Join(repo, "internal/zvfs/vfs.go")] = vfsSrc
	b, _ := json.MarshalIndent(map[string]interface{}{"Replace": overlay}, "", " ")
	os.WriteFile(filepath.Join(out, "overlay.json"), b, 0o644)
	fmt.Println("rewritten call sites:", n, "files:", len(overlay)-1)
}
