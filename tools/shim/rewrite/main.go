// rewrite: copy of the repo's non-test Go files with os.* I/O calls redirected to the vfs shim.
// usage: rewrite <repo> <outdir>  -> writes rewritten files + overlay.json
package main

import (
	"bytes"
	"encoding/json"
	"fmt"
	"go/ast"
	"go/format"
	"go/parser"
	"go/token"
	"os"
	"os/exec"
	"path/filepath"
	"strings"
)

var redirect = map[string]bool{"Create": true, "OpenFile": true, "Open": true, "Mkdir": true, "MkdirAll": true,
	"Rename": true, "Remove": true, "ReadFile": true, "ReadDir": true}

// listSources: the non-test Go files of every package of this module that the main package depends on
func listSources(repo string) ([]string, error) {
	cmd := exec.Command("go", "list", "-deps", "-f", "{{if not .Standard}}{{.Dir}}|{{range .GoFiles}}{{.}},{{end}}{{end}}", ".")
	cmd.Dir = repo
	cmd.Env = append(os.Environ(), "GOFLAGS=-mod=mod", "GOPROXY=off", "GOSUMDB=off", "GOTOOLCHAIN=local")
	out, err := cmd.Output()
	if err != nil {
		return nil, fmt.Errorf("go list: %v", err)
	}
	root, _ := filepath.Abs(repo)
	var files []string
	for _, line := range strings.Split(string(out), "\n") {
		parts := strings.SplitN(line, "|", 2)
		if len(parts) != 2 || (parts[0] != root && !strings.HasPrefix(parts[0], root+"/")) {
			continue
		}
		for _, f := range strings.Split(parts[1], ",") {
			if f != "" {
				files = append(files, filepath.Join(parts[0], f))
			}
		}
	}
	return files, nil
}

func main() {
	repo, out := os.Args[1], os.Args[2]
	overlay := map[string]string{}
	n := 0
	files, err := listSources(repo)
	if err != nil {
		panic(err)
	}
	for _, p := range files {
		fset := token.NewFileSet()
		f, err := parser.ParseFile(fset, p, nil, parser.ParseComments)
		if err != nil {
			panic(err)
		}
		changed := false
		ast.Inspect(f, func(nd ast.Node) bool {
			if se, ok := nd.(*ast.SelectorExpr); ok {
				if id, ok := se.X.(*ast.Ident); ok && id.Name == "os" && redirect[se.Sel.Name] {
					id.Name = "zvfs"
					changed = true
					n++
				}
			}
			return true
		})
		if !changed {
			continue
		}
		// add import
		imp := &ast.ImportSpec{Path: &ast.BasicLit{Kind: token.STRING, Value: `"github.com/JunNishimura/Goit/internal/zvfs"`}}
		for _, d := range f.Decls {
			if gd, ok := d.(*ast.GenDecl); ok && gd.Tok == token.IMPORT {
				gd.Specs = append(gd.Specs, imp)
				break
			}
		}
		var buf bytes.Buffer
		if err := format.Node(&buf, fset, f); err != nil {
			panic(err)
		}
		// os import may now be unused: keep it alive
		src := buf.String() + "\nvar _ = os.Getpid\n"
		rel, _ := filepath.Rel(repo, p)
		dst := filepath.Join(out, rel)
		os.MkdirAll(filepath.Dir(dst), 0o755)
		os.WriteFile(dst, []byte(src), 0o644)
		overlay[p] = dst
	}
	vfsSrc, _ := filepath.Abs(filepath.Join(filepath.Dir(os.Args[0]), "..", "vfs", "vfs.go"))
	if len(os.Args) > 3 {
		vfsSrc = os.Args[3]
	}
	overlay[filepath.Join(repo, "internal/zvfs/vfs.go")] = vfsSrc
	b, _ := json.MarshalIndent(map[string]interface{}{"Replace": overlay}, "", " ")
	os.WriteFile(filepath.Join(out, "overlay.json"), b, 0o644)
	fmt.Println("rewritten call sites:", n, "files:", len(overlay)-1)
}
