module verif/shim

go 1.19
