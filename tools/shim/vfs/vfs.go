//go:build verif

// Package zvfs is the verification shim: logs every file-system operation and can
// fail (VERIF_FAULT=k) or kill the process (VERIF_CRASH=k) at the k-th one.
package zvfs

import (
	"crypto/sha1"
	"errors"
	"fmt"
	"io/fs"
	"os"
	"strconv"
)

var (
	opCount, modCount int
	faultAt, _        = strconv.Atoi(os.Getenv("VERIF_FAULT"))
	crashAt, _        = strconv.Atoi(os.Getenv("VERIF_CRASH"))
	logf              *os.File
	ErrInjected       = errors.New("verif: injected I/O error")
)

func init() {
	if p := os.Getenv("VERIF_TRACE"); p != "" {
		logf, _ = os.OpenFile(p, os.O_WRONLY|os.O_CREATE|os.O_APPEND, 0o644)
	}
}

func logLine(tag, what string, args []interface{}) {
	if logf == nil {
		return
	}
	line := fmt.Sprintf("%s\t%d\t%d\t%s", tag, opCount, modCount, what)
	for _, a := range args {
		line += fmt.Sprintf("\t%q", fmt.Sprint(a))
	}
	fmt.Fprintln(logf, line)
}

// step is called before every file-system operation: mod = the operation modifies the disk.
func step(mod bool, what string, args ...interface{}) error {
	opCount++
	if mod {
		modCount++
		if crashAt > 0 && modCount == crashAt {
			logLine("CRASH", what, args)
			os.Exit(137)
		}
	}
	if faultAt > 0 && opCount == faultAt {
		logLine("FAULT", what, args)
		return ErrInjected
	}
	if mod {
		logLine("MOD", what, args)
	} else {
		logLine("READ", what, args)
	}
	return nil
}

type File struct {
	f    *os.File
	path string
}

func (f *File) Write(b []byte) (int, error) {
	if err := step(true, "write", f.path, len(b), fmt.Sprintf("%x", sha1.Sum(b))[:12]); err != nil {
		return 0, err
	}
	return f.f.Write(b)
}
func (f *File) WriteString(s string) (int, error) { return f.Write([]byte(s)) }
func (f *File) Read(b []byte) (int, error) {
	if err := step(false, "read", f.path); err != nil {
		return 0, err
	}
	return f.f.Read(b)
}
func (f *File) Close() error { return f.f.Close() }

func Create(p string) (*File, error) {
	if err := step(true, "create", p); err != nil {
		return nil, err
	}
	f, err := os.Create(p)
	return &File{f, p}, err
}
func OpenFile(p string, flag int, perm os.FileMode) (*File, error) {
	if err := step(flag&(os.O_CREATE|os.O_TRUNC) != 0, "openfile", p, flag); err != nil {
		return nil, err
	}
	f, err := os.OpenFile(p, flag, perm)
	return &File{f, p}, err
}
func Open(p string) (*File, error) {
	if err := step(false, "open", p); err != nil {
		return nil, err
	}
	f, err := os.Open(p)
	if err != nil {
		return nil, err
	}
	return &File{f, p}, nil
}
func Mkdir(p string, perm os.FileMode) error {
	if err := step(true, "mkdir", p); err != nil {
		return err
	}
	return os.Mkdir(p, perm)
}
func MkdirAll(p string, perm os.FileMode) error {
	if err := step(true, "mkdirall", p); err != nil {
		return err
	}
	return os.MkdirAll(p, perm)
}
func Rename(a, b string) error {
	if err := step(true, "rename", a, b); err != nil {
		return err
	}
	return os.Rename(a, b)
}
func Remove(p string) error {
	if err := step(true, "remove", p); err != nil {
		return err
	}
	return os.Remove(p)
}
func ReadFile(p string) ([]byte, error) {
	if err := step(false, "readfile", p); err != nil {
		return nil, err
	}
	return os.ReadFile(p)
}
func ReadDir(p string) ([]fs.DirEntry, error) {
	if err := step(false, "readdir", p); err != nil {
		return nil, err
	}
	return os.ReadDir(p)
}
