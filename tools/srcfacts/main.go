// srcfacts: translator from the current Goit sources to Coq.
//
//	srcfacts <repo> <out.v>
//
// It finds every package-level `name = regexp.MustCompile(<expr>)`, evaluates
// <expr> (string literals, `+`, references to package-level string variables
// and constants of the same package), parses the pattern with Go's own
// regexp/syntax parser and prints it as a Goit.Regex.pattern definition.
// It also records a few string/number constants the model depends on as
// `Definition src_<name>`.  Anything it cannot translate is a hard error: the
// caller reports a broken correspondence.
package main

import (
	"fmt"
	"go/ast"
	"go/parser"
	"go/token"
	"os"
	"os/exec"
	"path/filepath"
	"regexp/syntax"
	"sort"
	"strconv"
	"strings"
)

type pkgInfo struct {
	strs map[string]ast.Expr // package-level var/const initialisers
}

func fail(format string, a ...interface{}) {
	fmt.Fprintf(os.Stderr, "srcfacts: "+format+"\n", a...)
	os.Exit(2)
}

func evalString(p *pkgInfo, e ast.Expr, depth int) (string, bool) {
	if depth > 20 {
		return "", false
	}
	switch x := e.(type) {
	case *ast.BasicLit:
		if x.Kind == token.STRING {
			s, err := strconv.Unquote(x.Value)
			if err != nil {
				return "", false
			}
			return s, true
		}
	case *ast.BinaryExpr:
		if x.Op == token.ADD {
			a, ok1 := evalString(p, x.X, depth+1)
			b, ok2 := evalString(p, x.Y, depth+1)
			return a + b, ok1 && ok2
		}
	case *ast.ParenExpr:
		return evalString(p, x.X, depth+1)
	case *ast.Ident:
		if init, ok := p.strs[x.Name]; ok {
			return evalString(p, init, depth+1)
		}
	}
	return "", false
}

// listSources asks the go tool for the non-test Go files of every package of this module that the
// main package (the module root) depends on.
func listSources(repo string) ([]string, error) {
	cmd := exec.Command("go", "list", "-deps", "-f", "{{if not .Standard}}{{.Dir}}|{{range .GoFiles}}{{.}},{{end}}{{end}}", ".")
	cmd.Dir = repo
	cmd.Env = append(os.Environ(), "GOFLAGS=-mod=mod", "GOPROXY=off", "GOSUMDB=off", "GOTOOLCHAIN=local")
	out, err := cmd.Output()
	if err != nil {
		return nil, fmt.Errorf("go list: %v", err)
	}
	root, _ := filepath.Abs(repo)
	root, _ = filepath.EvalSymlinks(root)
	var files []string
	for _, line := range strings.Split(string(out), "\n") {
		parts := strings.SplitN(line, "|", 2)
		if len(parts) != 2 {
			continue
		}
		dir, _ := filepath.EvalSymlinks(parts[0])
		if dir != root && !strings.HasPrefix(dir, root+string(filepath.Separator)) {
			continue // a dependency outside this module
		}
		for _, f := range strings.Split(parts[1], ",") {
			if f != "" {
				files = append(files, filepath.Join(parts[0], f))
			}
		}
	}
	sort.Strings(files)
	if len(files) == 0 {
		return nil, fmt.Errorf("no source files found")
	}
	return files, nil
}

func byteName(b int) string { return fmt.Sprintf("x%02x", b) }

// class as byte ranges; runes above 0xff must be covered completely or not at all
func classRanges(r []rune) ([][2]int, error) {
	var out [][2]int
	for i := 0; i+1 < len(r); i += 2 {
		lo, hi := int(r[i]), int(r[i+1])
		if lo > 0x7f {
			if lo <= 0x80 && hi >= 0x10ffff {
				out = append(out, [2]int{0x80, 0xff})
				continue
			}
			return nil, fmt.Errorf("class with a partial non-ASCII range %x-%x", lo, hi)
		}
		if hi > 0x7f {
			if hi < 0x10ffff {
				return nil, fmt.Errorf("class with a partial non-ASCII range %x-%x", lo, hi)
			}
			hi = 0xff
		}
		out = append(out, [2]int{lo, hi})
	}
	return out, nil
}

func coqRegex(re *syntax.Regexp) (string, error) {
	switch re.Op {
	case syntax.OpEmptyMatch:
		return "REps", nil
	case syntax.OpNoMatch:
		return "REmpty", nil
	case syntax.OpLiteral:
		if re.Flags&syntax.FoldCase != 0 {
			return "", fmt.Errorf("case folding not supported")
		}
		var bs []string
		for _, r := range re.Rune {
			for _, b := range []byte(string(r)) {
				bs = append(bs, byteName(int(b)))
			}
		}
		return "(RLit [" + strings.Join(bs, "; ") + "])", nil
	case syntax.OpCharClass:
		rs, err := classRanges(re.Rune)
		if err != nil {
			return "", err
		}
		var ps []string
		for _, r := range rs {
			ps = append(ps, fmt.Sprintf("(%d, %d)", r[0], r[1]))
		}
		return "(RCls (mkCls false [" + strings.Join(ps, "; ") + "]%N))", nil
	case syntax.OpAnyCharNotNL:
		return "RAnyNoNL", nil
	case syntax.OpAnyChar:
		return "RAny", nil
	case syntax.OpCapture:
		return coqRegex(re.Sub[0])
	case syntax.OpStar, syntax.OpPlus, syntax.OpQuest:
		if re.Flags&syntax.NonGreedy != 0 {
			// greediness does not change the set of matched strings
		}
		s, err := coqRegex(re.Sub[0])
		if err != nil {
			return "", err
		}
		switch re.Op {
		case syntax.OpStar:
			return "(RStar " + s + ")", nil
		case syntax.OpPlus:
			return "(RPlus " + s + ")", nil
		default:
			return "(ROpt " + s + ")", nil
		}
	case syntax.OpRepeat:
		s, err := coqRegex(re.Sub[0])
		if err != nil {
			return "", err
		}
		if re.Max == -1 {
			return fmt.Sprintf("(RRepMin %d %s)", re.Min, s), nil
		}
		if re.Max == re.Min {
			return fmt.Sprintf("(RRep %d %s)", re.Min, s), nil
		}
		// {n,m}: n copies then (m-n) optional copies
		out := fmt.Sprintf("(RRep %d %s)", re.Min, s)
		for i := re.Min; i < re.Max; i++ {
			out = fmt.Sprintf("(RCat %s (ROpt %s))", out, s)
		}
		return out, nil
	case syntax.OpConcat:
		// normal form: capture groups dropped, nested concatenations inlined, adjacent literals merged,
		// right-nested RCat — grouping does not change the language, so it must not change the model
		flat := flattenConcat(re)
		if len(flat) == 1 {
			return coqRegex(flat[0])
		}
		parts := make([]string, 0, len(flat))
		for _, sub := range flat {
			s, err := coqRegex(sub)
			if err != nil {
				return "", err
			}
			parts = append(parts, s)
		}
		out := parts[len(parts)-1]
		for i := len(parts) - 2; i >= 0; i-- {
			out = "(RCat " + parts[i] + " " + out + ")"
		}
		return out, nil
	case syntax.OpAlternate:
		parts := make([]string, 0, len(re.Sub))
		for _, sub := range re.Sub {
			s, err := coqRegex(sub)
			if err != nil {
				return "", err
			}
			parts = append(parts, s)
		}
		out := parts[len(parts)-1]
		for i := len(parts) - 2; i >= 0; i-- {
			out = "(RAlt " + parts[i] + " " + out + ")"
		}
		return out, nil
	}
	return "", fmt.Errorf("unsupported regexp operator %v", re.Op)
}

func stripCapture(re *syntax.Regexp) *syntax.Regexp {
	for re.Op == syntax.OpCapture {
		re = re.Sub[0]
	}
	return re
}

func flattenConcat(re *syntax.Regexp) []*syntax.Regexp {
	var out []*syntax.Regexp
	var walk func(r *syntax.Regexp)
	walk = func(r *syntax.Regexp) {
		r = stripCapture(r)
		if r.Op == syntax.OpConcat {
			for _, s := range r.Sub {
				walk(s)
			}
			return
		}
		if r.Op == syntax.OpEmptyMatch {
			return
		}
		if n := len(out); n > 0 && r.Op == syntax.OpLiteral && out[n-1].Op == syntax.OpLiteral && out[n-1].Flags == r.Flags {
			merged := *out[n-1]
			merged.Rune = append(append([]rune{}, out[n-1].Rune...), r.Rune...)
			out[n-1] = &merged
			return
		}
		out = append(out, r)
	}
	walk(re)
	if len(out) == 0 {
		return []*syntax.Regexp{{Op: syntax.OpEmptyMatch}}
	}
	return out
}

func coqPattern(pat string) (string, error) {
	re, err := syntax.Parse(pat, syntax.Perl)
	if err != nil {
		return "", err
	}
	bol, eol := false, false
	subs := []*syntax.Regexp{re}
	if re.Op == syntax.OpConcat {
		subs = re.Sub
	}
	if len(subs) > 0 && subs[0].Op == syntax.OpBeginText {
		bol = true
		subs = subs[1:]
	}
	if len(subs) > 0 && subs[len(subs)-1].Op == syntax.OpEndText {
		eol = true
		subs = subs[:len(subs)-1]
	}
	var body string
	switch len(subs) {
	case 0:
		body = "REps"
	case 1:
		body, err = coqRegex(subs[0])
	default:
		body, err = coqRegex(&syntax.Regexp{Op: syntax.OpConcat, Sub: subs})
	}
	if err != nil {
		return "", err
	}
	return fmt.Sprintf("mkPat %v %s %v", bol, body, eol), nil
}

func coqBytes(s string) string {
	var bs []string
	for _, b := range []byte(s) {
		bs = append(bs, byteName(int(b)))
	}
	return "[" + strings.Join(bs, "; ") + "]"
}

func main() {
	if len(os.Args) != 3 {
		fail("usage: srcfacts <repo> <out.v>")
	}
	repo, out := os.Args[1], os.Args[2]
	type found struct{ name, pat, where string }
	var regs []found
	var strsOut []found
	// string constants the model mirrors: <package dir>/<var name>
	wantStr := map[string]bool{}
	fset := token.NewFileSet()
	dirs := map[string][]*ast.File{}
	// the source files of the program: the packages the main package depends on (as the go tool sees
	// them, build constraints included); stray *.go files elsewhere in the tree are not part of it
	files, lerr := listSources(repo)
	if lerr != nil {
		fail("cannot list the program's source files: %v", lerr)
	}
	for _, p := range files {
		f, err := parser.ParseFile(fset, p, nil, 0)
		if err != nil {
			fail("%v", err)
		}
		dirs[filepath.Dir(p)] = append(dirs[filepath.Dir(p)], f)
	}
	var dirNames []string
	for d := range dirs {
		dirNames = append(dirNames, d)
	}
	sort.Strings(dirNames)
	for _, d := range dirNames {
		pi := &pkgInfo{strs: map[string]ast.Expr{}}
		type cand struct {
			name string
			call *ast.CallExpr
		}
		var cands []cand
		for _, f := range dirs[d] {
			for _, decl := range f.Decls {
				gd, ok := decl.(*ast.GenDecl)
				if !ok || (gd.Tok != token.VAR && gd.Tok != token.CONST) {
					continue
				}
				for _, sp := range gd.Specs {
					vs := sp.(*ast.ValueSpec)
					for i, n := range vs.Names {
						if i >= len(vs.Values) {
							continue
						}
						v := vs.Values[i]
						pi.strs[n.Name] = v
						if call, ok := v.(*ast.CallExpr); ok {
							if se, ok := call.Fun.(*ast.SelectorExpr); ok {
								if id, ok := se.X.(*ast.Ident); ok && id.Name == "regexp" && se.Sel.Name == "MustCompile" && len(call.Args) == 1 {
									cands = append(cands, cand{n.Name, call})
								}
							}
						}
					}
				}
			}
		}
		rel, _ := filepath.Rel(repo, d)
		for _, c := range cands {
			pat, ok := evalString(pi, c.call.Args[0], 0)
			if !ok {
				fail("cannot evaluate the pattern of %s in %s", c.name, rel)
			}
			regs = append(regs, found{c.name, pat, rel})
		}
		for name := range wantStr {
			if init, ok := pi.strs[name]; ok {
				if s, ok := evalString(pi, init, 0); ok {
					strsOut = append(strsOut, found{name, s, rel})
				}
			}
		}
	}
	sort.Slice(regs, func(i, j int) bool { return regs[i].name < regs[j].name })
	var b strings.Builder
	b.WriteString("(* GENERATED by tools/srcfacts from the current Goit sources - do not edit.\n   One definition go_<name> per package-level regexp.MustCompile literal; Bridge.v proves each\n   equivalent to the pattern re_<name> of GoRegex.v the model and its theorems are written against. *)\n")
	b.WriteString("From Coq Require Import Strings.Byte.\nFrom Coq Require Import List NArith.\nFrom Goit Require Import Bytes Regex.\nImport ListNotations.\n\n")
	seen := map[string]bool{}
	for _, r := range regs {
		if seen[r.name] {
			fail("two regexps named %s", r.name)
		}
		seen[r.name] = true
		c, err := coqPattern(r.pat)
		if err != nil {
			fail("regexp %s (%q) in %s: %v", r.name, r.pat, r.where, err)
		}
		fmt.Fprintf(&b, "(* %s: %s = %q *)\nDefinition go_%s : pattern :=\n  %s.\n\n", r.where, r.name, r.pat, r.name, c)
	}
	for _, s := range strsOut {
		fmt.Fprintf(&b, "Definition src_%s : bytes := %s.\n", s.name, coqBytes(s.pat))
	}
	if err := os.WriteFile(out, []byte(b.String()), 0o644); err != nil {
		fail("%v", err)
	}
}
