#!/usr/bin/env python3
"""mkdirected.py: (re)write the hand-written directed histories of the corpus, corpus/<prop>/directed-*.json.

Generated histories find most things, but whether a rare trigger is met depends on the seed.  Each history
here pins one trigger class that a seeded change or a repaired defect needed (named in "why"); every check
replays its property's corpus first, with the oracle and the model correspondence, on every run."""
import os
import sys

sys.path.insert(0, os.path.dirname(os.path.abspath(__file__)))
import runner                                                     # noqa: E402
from hist import (c_branch_flags, Edit, c_add, c_branch, c_branch_list, c_branch_delete, c_branch_rename, c_cat_file, c_commit, c_config, c_init, c_log,   # noqa: E402
                  c_ls_files, c_reflog, c_reset, c_restore, c_rm, c_status, c_switch, c_switch_create,
                  c_write_tree, c_hash_object, c_rev_parse)

VERIF = os.path.dirname(os.path.dirname(os.path.abspath(__file__)))
ID = [c_init(), c_config(b"user.name", b"Al Bo"), c_config(b"user.email", b"a@b.cc")]


def W(p, d):
    return Edit("write", p, d)


def many_objects():
    st = list(ID)
    for i in range(44):
        st.append(W(b"f%02d" % i, b"content %d\n" % i))
    st += [c_add([b"."]), c_commit(b"many"), c_ls_files(True), c_write_tree(), c_hash_object([b"f00", b"f43"]), c_status()]
    for i in range(6):
        st.append(W(b"g/h%d" % i, b"second %d\n" % i))
    st += [c_add([b"g"]), c_commit(b"more"), c_log(3), c_ls_files(True)]
    return st


def dir_file_dir():
    return ID + [W(b"docs/guide.md", b"g"), W(b"main.go", b"m"), W(b"src/app.go", b"a"), W(b"src/lib/x.go", b"x"),
                 W(b"zz", b"z"), W(b"tools/t.sh", b"t"), c_add([b"."]), c_commit(b"one"), c_ls_files(True), c_write_tree(),
                 W(b"main.go", b"m2"), W(b"lib/a", b"l"), W(b"lib.go", b"lg"), W(b"lib-old/b", b"lo"), c_add([b"."]),
                 c_commit(b"two"), c_reset("mixed", b"HEAD@{1}"), c_ls_files(True), c_reset("mixed", b"HEAD@{1}"), c_status()]


def rm_file_became_dir():
    return ID + [W(b"keep.txt", b"k"), W(b"notes", b"n"), W(b"sub/a.txt", b"a"), c_add([b"."]), c_commit(b"c"),
                 Edit("delete", b"notes"), W(b"notes/draft.txt", b"untracked draft"), W(b"notes/deep/more.txt", b"more"),
                 c_rm([b"notes"]), c_status(), c_ls_files(False), c_rm([b"sub"]), c_rm([b"keep.txt", b"nope"]), c_status()]


def non_ascii_names():
    n1, n2, n3 = "dépôt/naïve ü.txt".encode(), "zß".encode(), "日本.md".encode()
    return ID + [W(n1, b"1"), W(n2, b"2"), W(n3, b"3"), W(b"plain/a b.txt", b"4"), c_add([b"."]), c_commit(b"names"),
                 c_rm([n2]), W(n3, b"changed"), c_add([n3]), c_reset("mixed", b"HEAD@{0}"), c_ls_files(True),
                 c_write_tree(), c_status(), c_reset("hard", b"HEAD@{0}"), c_ls_files(True), c_status()]


def replace_first_entry():
    return ID + [W(b"a.txt", b"1"), W(b"b.txt", b"2"), W(b"d/x", b"3"), c_add([b"."]), W(b"b.txt", b"2b"), c_add([b"b.txt"]),
                 W(b"a.txt", b"1b"), c_add([b"a.txt"]), c_ls_files(True), c_rm([b"a.txt"]), c_ls_files(True),
                 W(b"only", b"o"), c_commit(b"c"), W(b"0first", b"z"), c_add([b"0first"]), W(b"0first", b"zz"), c_add([b"0first"]),
                 c_ls_files(True), c_restore([b"0first"], staged=True), c_ls_files(True)]


def commit_after_rm_all():
    return ID + [W(b"a.txt", b"1"), W(b"d/b.txt", b"2"), c_add([b"."]), c_commit(b"first"), c_commit(b"again"), c_status(),
                 c_rm([b"a.txt", b"d/b.txt"]), c_status(), c_commit(b"everything removed"), c_status(), c_log(5),
                 W(b"n", b"n"), c_add([b"n"]), c_status(), c_commit(b"back"), c_commit(b"nothing")]


def long_reflog():
    st = list(ID)
    for i in range(12):
        st += [W(b"f.txt", b"version %02d\n" % (i + 1)), c_add([b"f.txt"]), c_commit(b"c%02d" % (i + 1))]
    st += [c_reflog(), c_reset("soft", b"HEAD@{10}"), c_reflog(), c_reset("hard", b"HEAD@{11}"), c_reflog(),
           c_reset("mixed", b"HEAD@{25}"), c_reset("soft", b"HEAD@{14}"), c_reset("soft", b"HEAD@{15}"),
           c_reset("mixed", b"HEAD@{13}"), c_reflog(), c_log(20), c_ls_files(True)]
    return st


def restore_dir_with_dot_sibling():
    return ID + [W(b"docs/a.txt", b"a"), W(b"docs/sub/b.txt", b"b"), W(b"docs.md", b"m"), W(b"docs-old/c", b"c"),
                 W(b"other.txt", b"o"), c_add([b"."]), c_commit(b"c"), W(b"docs/a.txt", b"changed"), Edit("delete", b"docs/sub/b.txt"),
                 W(b"docs/new.txt", b"n"), c_add([b"docs/new.txt"]), W(b"docs.md", b"changed too"), c_restore([b"docs"], staged=True),
                 c_ls_files(True), c_restore([b"docs"]), c_status(), c_rm([b"docs"]), c_ls_files(False)]


def multiline_messages():
    return ID + [W(b"f", b"1"), c_add([b"f"]), c_commit(b"first line\nsecond line of four words\nthird line here too"),
                 c_reflog(), W(b"f", b"2"), c_add([b"f"]), c_commit(b"subject\n\nbody with three words\n"), c_reflog(),
                 W(b"f", b"3"), c_add([b"f"]), c_commit(b"x: y\nz w v u: t"), c_reflog(), c_reset("soft", b"HEAD@{1}"),
                 c_reflog(), c_log(5)]


def percent_messages():
    return ID + [W(b"f", b"1"), c_add([b"f"]), c_commit(b"100% on"), W(b"f", b"2"), c_add([b"f"]), c_commit(b"%s %d %v %%"),
                 W(b"f", b"3"), c_add([b"f"]), c_commit(b"plain"), W(b"f", b"4"), c_add([b"f"]), c_commit(b"tail %"),
                 c_log(10), c_log(2), c_reflog()]


def ignored_depth_two():
    return ID + [W(b"src/gen/a.txt", b"a"), W(b"src/main.go", b"m"), W(b"gen2/x", b"x"), c_add([b"."]), c_commit(b"c"),
                 W(b".goitignore", b"gen\n"), W(b"src/gen/a.txt", b"edited"), W(b"src/gen/new.txt", b"n"), W(b"top/gen/y", b"y"),
                 c_status(), c_add([b"."]), c_ls_files(False), c_status()]


def add_excluded_directly():
    return ID + [W(b".goitignore", b"build/\n*.log\n"), W(b"build/out.o", b"o"), W(b"debug.log", b"d"), W(b"src/trace.log", b"t"),
                 W(b"src/ok.c", b"c"), c_add([b"."]), c_ls_files(False), c_add([b"build"]), c_add([b"src"]), c_ls_files(False),
                 c_add([b"debug.log"]), c_add([b"src/trace.log"]), c_add([b"build/out.o"]), c_add([b".goit/HEAD"]),
                 c_add([b".goit/index"]), c_add([b".goit"]), c_ls_files(False), c_status(), c_commit(b"c"), c_add([b".goit/HEAD", b"src/ok.c"]),
                 c_ls_files(False)]


def config_mixed():
    return [c_init(), c_config(b"user.name", b"Global Name", glob=True), c_config(b"user.email", b"global@example.com", glob=True),
            c_config(b"user.name", b"Local Name"), W(b"f", b"1"), c_add([b"f"]), c_commit(b"local name, global e-mail"), c_log(1),
            c_config(b"user.email", b"local@example.com"), W(b"f", b"2"), c_add([b"f"]), c_commit(b"all local"), c_log(2)]


def config_mixed2():
    return [c_init(), c_config(b"user.name", b"Global Name", glob=True), c_config(b"user.email", b"local@example.com"),
            W(b"f", b"1"), c_add([b"f"]), c_commit(b"global name, local e-mail"), c_log(1),
            c_config(b"core.editor", b"vi"), W(b"f", b"2"), c_add([b"f"]), c_commit(b"another section present"), c_log(2)]


def fresh_and_renamed():
    return [c_init(), c_status(), c_log(), c_reflog(), c_branch_list(), c_ls_files(), c_branch(b"x"), c_switch(b"x"),
            c_switch_create(b"y"), c_reset("soft", b"HEAD@{0}"), c_commit(b"nothing"), c_rev_parse([b"main"]),
            c_config(b"user.name", b"A"), c_config(b"user.email", b"a@b.cc"), W(b"f", b"1"), c_add([b"f"]), c_commit(b"c"),
            c_reset("soft", b"HEAD@{1}"), c_reset("soft", b"HEAD@{2}"), c_reset("soft", b"HEAD@{0}"), c_reflog()]


def newline_names():
    return ID + [W(b".goitignore", b"*.log\nout/\n"), W(b".goit/a\nb", b"Z"), W(b"x\ny.log", b"l"), W(b"out/p\nq", b"o"),
                 W(b"ok\nname", b"fine"), W(b"f", b"1"), c_add([b"."]), c_ls_files(False), c_status(),
                 c_add([b".goit/a\nb"]), c_add([b"x\ny.log"]), c_ls_files(False)]


def ignored_same_basename():
    return ID + [W(b"README", b"r"), W(b"src/main.go", b"m"), c_add([b"."]), c_commit(b"c"), W(b".goitignore", b"build/\n*.log\n"),
                 W(b"src/build/README", b"generated"), W(b"src/build/main.go", b"gen"), W(b"src/new.go", b"n"),
                 W(b"deep/er/build/README", b"g2"), W(b"x/README.log", b"l"), c_status(), c_add([b"."]), c_ls_files(False), c_status()]


def percent_paths():
    return ID + [W(b"50%off.txt", b"1"), W(b"keep%s.txt", b"2"), W(b"gone%d.txt", b"3"), W(b"d%v/x%%y", b"4"), c_add([b"."]),
                 c_status(), c_commit(b"c"), W(b"50%off.txt", b"1b"), c_add([b"50%off.txt"]), c_rm([b"gone%d.txt"]),
                 W(b"new%q", b"n"), c_add([b"new%q"]), W(b"keep%s.txt", b"unstaged"), W(b"un%stracked", b"u"), c_status(),
                 c_commit(b"d"), c_status(), c_commit(b"nothing"), c_ls_files(True)]


def dot_branches():
    return ID + [W(b"f", b"1"), c_add([b"f"]), c_commit(b"c1"), c_branch(b".wip"), c_branch(b"-x"), c_branch_list(),
                 c_branch(b".wip"), W(b"f", b"2"), c_add([b"f"]), c_commit(b"c2"), c_switch_create(b".wip"), c_switch(b".wip"),
                 c_rev_parse([b".wip", b"main"]), c_branch_list(), c_switch(b"main"), c_branch_delete(b".wip"), c_branch_list(),
                 c_switch(b"-x"), c_branch_rename(b".hidden"), c_branch_list(), c_rev_parse([b".hidden"])]


def long_lines():
    # (the model's commit parser is quadratic in the message size: a few KiB is what the property asks for)
    return ID + [W(b"f", b"1"), c_add([b"f"]), c_commit(b"subject\n\n" + b"a" * 4096 + b"\ntail"), c_log(1), W(b"f", b"2"),
                 c_add([b"f"]), c_commit(b"d" * 4097 + b"\n" + b"e" * 5000), c_log(1), c_reflog()]


def deep_directories():
    return ID + [W(b"a/b/c/f", b"1"), W(b"a/b/c/g", b"2"), W(b"a/b/h", b"3"), W(b"a/b/c/d/e/k", b"4"), W(b"a/top", b"5"), c_add([b"."]),
                 c_commit(b"c"), c_rm([b"a/b/c/g"]), c_restore([b"a/b/c"], staged=True), c_ls_files(True), W(b"a/b/c/f", b"1x"),
                 c_add([b"a/b/c"]), c_restore([b"a/b/c/d"], staged=True), c_restore([b"a/b/c"], staged=True), c_ls_files(True),
                 c_restore([b"a/b/c"]), c_status(), c_rm([b"a/b/c/d/e"]), c_ls_files(False), c_restore([b"a/b/c/d/e"], staged=True),
                 c_restore([b"a/b"]), c_status(), c_rm([b"a/b/c"]), c_restore([b"a"], staged=True), c_restore([b"a"]), c_status()]


def dir_became_file():
    return ID + [W(b"d/f", b"1"), W(b"d/g/h", b"2"), W(b"keep.txt", b"k"), W(b"other.txt", b"o"), c_add([b"."]), c_commit(b"c"),
                 c_rm([b"d"]), Edit("rmtree", b"d"), W(b"d", b"now a file"), c_add([b"d"]), c_ls_files(True),
                 c_restore([b"d"], staged=True), c_ls_files(True), c_status(), c_commit(b"after"), c_ls_files(True), c_write_tree(),
                 c_reset("hard", b"HEAD@{0}"), c_status()]


def reset_after_rename():
    st = ID + [W(b"f", b"1"), c_add([b"f"]), c_commit(b"c1"), W(b"f", b"2"), c_add([b"f"]), c_commit(b"c2"),
               c_branch_rename(b"trunk"), c_reflog()]
    for n in range(0, 6):
        st += [c_reset("soft", b"HEAD@{%d}" % n), c_reflog()]
    st += [c_reset("hard", b"HEAD@{2}"), c_reset("mixed", b"HEAD@{3}"), c_branch_rename(b"main"), c_reset("soft", b"HEAD@{1}"),
           c_reset("soft", b"HEAD@{2}"), c_reflog(), c_log(5), c_status()]
    return st


def colon_branches():
    return ID + [W(b"f", b"1"), c_add([b"f"]), c_commit(b"c1"), c_branch(b"wip"), c_branch(b"wip: x"), c_switch(b"wip"),
                 W(b"f", b"2"), c_add([b"f"]), c_commit(b"c2 only on wip"), c_switch(b"wip: x"), c_log(10), c_status(), c_branch_list(),
                 c_rev_parse([b"wip: x", b"wip"]), W(b"f", b"3"), c_add([b"f"]), c_commit(b"c3 on wip: x"), c_log(10), c_reflog(),
                 c_switch(b"wip"), c_log(10), c_branch_delete(b"wip: x"), c_branch_list()]


def removed_directory_and_dot():
    return ID + [W(b"d/x", b"1"), W(b"d/e/y", b"2"), W(b"d-old", b"3"), W(b"ad/x", b"4"), W(b"a", b"5"), c_add([b"."]), c_commit(b"c"),
                 Edit("rmtree", b"d"), c_add([b"d"]), c_ls_files(False), c_status(), c_restore([b"."], staged=True), c_ls_files(True),
                 c_rm([b"d-old", b"ad"]), W(b"n", b"n"), c_add([b"n"]), c_restore([b"."], staged=True), c_ls_files(True), c_status(),
                 c_restore([b"."]), c_status(), Edit("rmtree", b"d"), c_add([b"d/e"]), c_add([b"d", b"d/x"]), c_ls_files(False)]


def status_after_shape_changes():
    return ID + [W(b"src/a.txt", b"a"), W(b"src/b.txt", b"b"), W(b"gone.txt", b"g"), W(b"keep.txt", b"k"), W(b"f", b"file"),
                 W(b"lib/x/y", b"deep"), c_add([b"."]), c_commit(b"c"), c_status(), Edit("delete", b"gone.txt"), Edit("rmtree", b"src"),
                 W(b"src", b"now a file"), c_status(), Edit("delete", b"f"), W(b"f/inner", b"now a directory"), c_status(),
                 Edit("rmtree", b"lib/x"), W(b"lib/x", b"file in place of a directory"), W(b"keep.txt", b"k"), c_status(),
                 c_add([b"."]), c_status()]


def invalid_ignore_lines():
    return ID + [W(b".goitignore", b"[\n*.log\n(\nout/\n"), W(b"a.log", b"x"), W(b"b", b"y"), W(b"out/o", b"o"), c_status(), c_add([b"."]),
                 c_ls_files(False), c_commit(b"c"), c_status(), W(b".goitignore", b"a**\n\\\n"), c_status(), c_add([b"b"]), c_log(2)]


def tmp_named_branches():
    return ID + [W(b"f", b"1"), c_add([b"f"]), c_commit(b"c1"), c_branch(b"main.tmp"), c_branch(b"wip.tmp"), c_branch(b"index"),
                 c_branch(b"HEAD"), c_branch_list(), W(b"f", b"2"), c_add([b"f"]), c_commit(b"c2"), c_branch(b"wip"), c_branch_list(),
                 c_rev_parse([b"main", b"main.tmp", b"wip", b"wip.tmp", b"index", b"HEAD"]), c_switch(b"wip.tmp"), W(b"f", b"3"),
                 c_add([b"f"]), c_commit(b"c3"), c_switch(b"wip"), c_branch_rename(b"config"), c_branch_list(),
                 c_rev_parse([b"wip.tmp", b"config", b"main.tmp"]), c_switch(b"main"), c_branch_delete(b"main.tmp"), c_branch_list(), c_status()]


def spaced_ignore_entries():
    return ID + [W(b".goitignore", b"build/\nmy notes/\n*.log\n"), W(b"my notes/ideas.md", b"i"), W(b"my notes/todo.txt", b"t"),
                 W(b"build/o", b"o"), W(b"a b.log", b"l"), W(b"my/x", b"m"), W(b"notes/y", b"n"), W(b"src/my notes/z", b"z"), W(b"k", b"k"),
                 c_status(), c_add([b"."]), c_ls_files(False), c_add([b"my notes"]), c_add([b"my notes/ideas.md"]), c_ls_files(False),
                 c_status(), c_commit(b"c"), W(b"my notes/ideas.md", b"changed"), c_status()]


def branch_flag_combinations():
    return ID + [W(b"f", b"1"), c_add([b"f"]), c_commit(b"c1"), c_branch(b"dev"), W(b"f", b"2"), c_add([b"f"]), c_commit(b"c2"),
                 c_branch_flags(rename=b"trunk", delete=b"ghost"), c_branch_list(), c_branch_flags(rename=b"trunk2", delete=b"dev"),
                 c_branch_list(), c_branch_flags(names=[b"x"], delete=b"dev"), c_branch_flags(names=[b"x"], rename=b"y"),
                 c_branch_flags(lst=True, delete=b"dev"), c_branch_flags(lst=True, rename=b"z"), c_branch_flags(names=[b"p", b"q"]),
                 c_branch_flags(names=[b"x"], lst=True), c_branch_list(), c_rev_parse([b"main", b"dev"]), c_reflog(),
                 c_branch_flags(delete=b"dev"), c_branch_flags(rename=b"trunk"), c_branch_flags(lst=True), c_reflog()]


def blank_edged_ignore_entries():
    return ID + [W(b".goitignore", b" cache/\nbuild/\n*.tmp \n"), W(b" cache/one.bin", b"1"), W(b" cache/deep/two.bin", b"2"),
                 W(b"cache/three", b"3"), W(b"build/o", b"o"), W(b"x.tmp ", b"t"), W(b"x.tmp", b"u"), W(b"src/main.c", b"m"), c_status(),
                 c_add([b"."]), c_ls_files(False), c_add([b" cache"]), c_add([b" cache/one.bin"]), c_ls_files(False), c_status()]


def inner_slash_ignore_lines():
    # a line with a slash that is not at its end is still a "directory" line for Goit: text + ".*" with '.' any byte
    return ID + [W(b".goitignore", b"docs/notes.txt\nout/a\n*.log\n"), W(b"docs/notes.txt", b"1"), W(b"docs/notes.txt.bak", b"2"),
                 W(b"docs/notesXtxt", b"3"), W(b"docs/keep.md", b"4"), W(b"docs/other.txt", b"5"), W(b"out/a", b"6"), W(b"out/ab", b"7"),
                 W(b"out/b", b"8"), W(b"x/out/a/deep", b"9"), W(b"a.log", b"l"), W(b"notes.txt", b"n"), c_status(), c_add([b"."]),
                 c_ls_files(False), c_status(), c_add([b"docs/notes.txt.bak"]), c_add([b"out"]), c_ls_files(False), c_commit(b"c"),
                 W(b"docs/notes.txt.bak", b"changed"), W(b"docs/keep.md", b"changed"), c_status()]


def ignored_name_directory_became_file():
    # a tracked directory whose NAME an extension entry matches gives way to a plain file of that name
    return ID + [W(b"out.log/part1", b"1"), W(b"out.log/part2", b"2"), W(b"keep", b"k"), c_add([b"."]), c_commit(b"c1"),
                 W(b".goitignore", b"*.log\n"), c_status(), Edit("rmtree", b"out.log"), W(b"out.log", b"now a file"), W(b"other.log", b"o"),
                 c_status(), c_add([b"out.log"]), c_ls_files(False), c_add([b"."]), c_ls_files(False), c_status(),
                 c_commit(b"c2"), c_status(), c_ls_files(False)]


def percent_config_values():
    return [c_init(), c_config(b"user.name", b"Ann 100% Lee"), c_config(b"user.email", b"a%40b@x.yy"), c_config(b"core.ratio", b"50%"),
            c_config(b"core.motto", b"%s %d %v %%", glob=True), c_config(b"user.name", b"G %x", glob=True),
            c_config(b"core.editor", b"vi"), W(b"f", b"1"), c_add([b"f"]), c_commit(b"c1"), c_log(1),
            c_config(b"core.ratio", b"75%"), W(b"f", b"2"), c_add([b"f"]), c_commit(b"c2"), c_log(2)]


def quoting_ignore_lines():
    return ID + [W(b"a", b"1"), c_add([b"a"]), c_commit(b"c"), W(b".goitignore", b"\\Qbuild(1).tmp\n\\Qabc\n*.log\n"), W(b"b", b"2"), W(b"x.log", b"l"),
                 c_status(), c_add([b"b"]), c_add([b"."]), c_status(), c_ls_files(False),
                 W(b".goitignore", b"a\\Q\nx\\Ey\n\\E\n(?i)B\n[[:alpha:]]+\\.tmp\n\\pN\nx{2,1}\n(?P<n>z)\n\\C\n"), W(b"c", b"3"), c_status(), c_add([b"."]), c_ls_files(False),
                 c_commit(b"c2"), c_status()]


def prefix_sibling_directories():
    # sibling DIRECTORIES one of whose names is a proper prefix of the other, the longer one continuing with a
    # byte below '/', and no tracked file sorting between them: in path order the longer directory comes first
    return ID + [W(b"src/pkg/util/b.go", b"b"), W(b"src/pkg/util/c.go", b"c"), W(b"src/pkg/util-test/a.go", b"a"), W(b"main.go", b"m"),
                 W(b"lib/x", b"x"), W(b"lib.d/y", b"y"), W(b"lib (copy)/z", b"z"), W(b"d/e/f", b"1"), W(b"d/e-1/g", b"2"), W(b"d/e+/h", b"3"),
                 c_add([b"."]), c_ls_files(True), c_commit(b"one"), c_write_tree(), c_status(), W(b"main.go", b"m2"), c_add([b"main.go"]),
                 c_commit(b"two"), c_reset("mixed", b"HEAD@{1}"), c_ls_files(True), c_status(), c_reset("hard", b"HEAD@{1}"), c_ls_files(True),
                 c_rm([b"src/pkg/util-test"]), c_commit(b"three"), c_ls_files(True), c_status()]


def hostile_config_arguments():
    return ID + [c_config(b".k", b"v"), c_status(), c_config(b"user.name", b"a\nb"), c_status(), c_config(b"us\ner.name", b"x"),
                 c_config(b"user.na\nme", b"x", glob=True), c_config(b".", b"v", glob=True), c_config(b"core.x", b"line\n"), c_status(),
                 c_config(b"core.editor", b"vi"), c_config(b"s.", b"empty key is storable"), W(b"f", b"1"), c_add([b"f"]), c_commit(b"c1"),
                 c_log(1), c_config(b"a.b.c", b"v"), c_config(b"nodot", b"v"), c_status(),
                 c_config(b"user. name", b"Mallory"), c_config(b"user.name=x", b"y"), c_config(b"user.na\tme", b"z"), c_config(b"user.name ", b"q"),
                 c_config(b"core.a=b", b"c", glob=True), W(b"f", b"2"), c_add([b"f"]), c_commit(b"c2: still Al Bo"), c_log(2)]


def unclean_file_arguments():
    # F53: the argument as typed and its cleaned form must name the same thing for the existence test too
    return ID + [W(b"a", b"1"), W(b"b", b"2"), W(b"d/x", b"3"), c_add([b"."]), c_commit(b"c1"), W(b"a", b"changed"),
                 c_add([b"a"], decor=[2]), c_ls_files(True), c_status(), W(b"b", b"changed"), c_add([b"b"], decor=[3]), c_ls_files(True),
                 c_add([b""]), c_ls_files(False), c_rm([b""]), c_ls_files(False), c_status(), c_restore([b""]), c_restore([b""], staged=True),
                 c_add([b"a", b""]), c_rm([b"", b"a"]), c_ls_files(False), W(b"d/x", b"changed"), c_add([b"d/x"], decor=[4]), c_ls_files(True),
                 c_rm([b"b"], decor=[2]), c_ls_files(False), c_status(), c_restore([b"a"], decor=[2]), c_restore([b"a"], staged=True, decor=[3]),
                 c_ls_files(True)]


def very_long_lines():
    # F52: a config value and the first line of a commit message longer than a line scanner's 64 KiB default
    big = b"x" * 70000
    return [c_init(), c_config(b"user.name", b"Al Bo"), c_config(b"user.email", b"a@b.cc"), c_config(b"core.big", big),
            c_config(b"zzz.k", b"v"), c_config(b"core.editor", b"vi"), W(b"f", b"1"), c_add([b"f"]), c_commit(b"one"), W(b"f", b"2"),
            c_add([b"f"]), c_commit(big + b"\nsecond line"), W(b"f", b"3"), c_add([b"f"]), c_commit(b"three"), c_reflog(), c_log(3),
            c_reset("soft", b"HEAD@{1}"), c_reflog(), c_reset("hard", b"HEAD@{1}"), c_reflog(), c_log(3), c_status(),
            c_config(b"user.name", b"N" * 66000), W(b"f", b"4"), c_add([b"f"]), c_commit(b"four"), c_log(1)]


def blank_ignore_lines():
    # F55: an empty line is not an entry (it used to hide every untracked directory)
    return ID + [W(b".goitignore", b"*.log\n\nbuild/\n\n"), W(b"d/f", b"1"), W(b"d/e/g", b"2"), W(b"x.log", b"l"), W(b"build/o", b"o"),
                 W(b"top", b"t"), c_status(), c_add([b"."]), c_ls_files(False), c_commit(b"c1"), W(b"n/new", b"n"), c_status(), c_add([b"n"]),
                 c_ls_files(False), W(b".goitignore", b"\n\n"), c_status(), c_add([b"."]), c_ls_files(False), W(b".goitignore", b"\r\n*.log\r\n\r\n"),
                 W(b"m/k", b"k"), c_status(), c_add([b"m"]), c_ls_files(False)]


def add_below_a_file():
    # a tracked path whose parent directory has become a regular file no longer exists (ENOTDIR, not ENOENT):
    # naming it to add unstages it, alone, with a sibling, and as a directory argument
    return ID + [W(b"d/x", b"1"), W(b"d/y", b"2"), W(b"e/z", b"3"), W(b"e/sub/w", b"4"), W(b"keep.txt", b"k"), c_add([b"."]), c_commit(b"c1"),
                 Edit("delete", b"e/z"), c_add([b"e/z"]), c_ls_files(False), Edit("rmtree", b"d"), W(b"d", b"now a file"),
                 c_add([b"d/x"]), c_ls_files(False), c_status(), c_add([b"d/y", b"keep.txt"]), c_ls_files(False),
                 Edit("rmtree", b"e"), W(b"e", b"file too"), c_add([b"e/sub"]), c_ls_files(False), c_status()]


def tab_in_identity():
    # a configured name with a tab inside: Goit reads values back without tabs, so the journal line (whose
    # fields are separated from the message by a tab) stays well formed
    return [c_init(), c_config(b"user.name", b"Ada\tLovelace"), c_config(b"user.email", b"ada@b.cc"), W(b"f", b"1"), c_add([b"f"]),
            c_commit(b"one"), c_reflog(), c_log(1), W(b"f", b"2"), c_add([b"f"]), c_commit(b"two"), c_switch_create(b"dev"), c_reflog(),
            c_reset("soft", b"HEAD@{2}"), c_reflog(), c_log(2), c_config(b"core.x", b"a\tb\tc"), c_status()]


def backslash_names():
    # F56: a backslash is an ordinary byte of a file name (Goit used to rewrite it to '/')
    return ID + [W(b"a/b", b"one"), W(b"a\\b", b"two"), W(b".goit\\zz", b"z"), W(b"x\\", b"3"), W(b"d\\e\\f", b"4"), c_status(),
                 c_add([b"."]), c_ls_files(True), c_commit(b"c1"), c_status(), W(b"a\\b", b"changed"), c_status(), c_add([b"a\\b"]),
                 c_ls_files(True), c_rm([b"a\\b"]), c_ls_files(False), c_status(), c_restore([b"a/b"]), c_reset("hard", b"HEAD@{0}"),
                 c_ls_files(True), c_status(), c_rm([b".goit\\zz", b"x\\"]), c_commit(b"c2"), c_ls_files(False)]


def branches_named_head():
    # F57: only the exact name HEAD stands for the current branch
    return ID + [W(b"f", b"1"), c_add([b"f"]), c_commit(b"c1"), c_branch(b"head"), c_branch(b"Head"), W(b"f", b"2"), c_add([b"f"]),
                 c_commit(b"c2"), c_rev_parse([b"head", b"Head", b"HEAD", b"main"]), c_branch_list(), c_switch(b"head"), W(b"f", b"3"),
                 c_add([b"f"]), c_commit(b"c3 on head"), c_rev_parse([b"HEAD", b"head", b"main", b"Head"]), c_log(3), c_reflog(),
                 c_switch(b"main"), c_branch_delete(b"head"), c_rev_parse([b"head"]), c_rev_parse([b"hEAD"]), c_branch_list()]


def carriage_return_messages():
    # F50: a commit message is read back byte for byte, carriage returns included
    return ID + [W(b"f", b"1"), c_add([b"f"]), c_commit(b"line1\r\nline2\r"), c_log(1), W(b"f", b"2"), c_add([b"f"]),
                 c_commit(b"\r\n\r\nblank crlf lines\r\n"), c_log(2), W(b"f", b"3"), c_add([b"f"]), c_commit(b"cr\rinside and at the end\r"),
                 c_log(3), c_reflog(), c_reset("soft", b"HEAD@{1}"), c_log(2), c_reflog()]


ORACLE_ONLY = {"very-long-lines", "newline-names", "invalid-ignore-lines", "quoting-ignore-lines"}

DIRECTED = [
    (("C12", "C14", "C11"), "carriage-return-messages", carriage_return_messages, "F50: commit messages with CR LF line ends, blank CR LF lines, a lone CR inside and at the end"),
    (("C04", "C17", "C13", "C09"), "backslash-names", backslash_names, "F56: file names containing a backslash, beside a/b, and a name starting with .goit followed by a backslash"),
    (("C10", "C14"), "branches-named-head", branches_named_head, "F57: branches called head and Head: rev-parse reports their own commits; only HEAD is the current branch"),
    (("C11", "C20", "C12"), "tab-in-identity", tab_in_identity, "a configured name containing a tab: read back without it, so journal lines stay well formed and reflog/reset keep working"),
    (("C04", "C06"), "add-below-a-file", add_below_a_file, "a tracked path below a directory that became a regular file (ENOTDIR) is a path that no longer exists: add unstages it"),
    (("C17", "C13", "C04"), "blank-ignore-lines", blank_ignore_lines, "F55: empty lines in .goitignore (in the middle, at the end, CRLF files) exclude nothing"),
    (("C04", "C09", "C18"), "unclean-file-arguments", unclean_file_arguments, "F53: a trailing slash on an existing file, a/../a/b spellings, and the empty argument for add, rm, restore"),
    (("C20", "C11", "C08", "C12"), "very-long-lines", very_long_lines, "F52: a config value and a commit subject of 70 000 bytes (the model driver is quadratic in line length: oracle only)"),
    (("C20", "C18"), "hostile-config-arguments", hostile_config_arguments, "F51/F54: an empty section name, line breaks, and keys that would be read back as another key (=, tab, outer blanks) are refused with nothing written; every command still loads the configuration and the identity is unchanged"),
    (("C02", "C05", "C07"), "prefix-sibling-directories", prefix_sibling_directories, "sibling directories util/ and util-test/ (lib/, lib.d/, 'lib (copy)/'): the longer name sorts first in path order; every entry must reach the commit's trees"),
    (("C13", "C17"), "inner-slash-ignore-lines", inner_slash_ignore_lines, "ignore lines with a slash in the middle and none at the end (Goit reads them as directory entries: text followed by anything)"),
    (("C17", "C13"), "ignored-name-directory-became-file", ignored_name_directory_became_file, "a tracked directory whose name an extension entry matches is replaced by a plain file of that name: the file is excluded"),
    (("C20", "C12"), "percent-config-values", percent_config_values, "configuration values containing % (and ending in %), local and global, then used as identity"),
    (("C18",), "quoting-ignore-lines", quoting_ignore_lines, "ignore lines that are valid regular expressions alone but not once wrapped (\\Q without \\E), flags, classes (outside the model's ignore alphabet: oracle only)"),
    (("C10", "C18"), "branch-flag-combinations", branch_flag_combinations, "two modes of branch in one invocation (rename+delete, name+delete, list+rename, two names): always refused, nothing changes"),
    (("C17", "C13"), "blank-edged-ignore-entries", blank_edged_ignore_entries, "ignore entries whose directory name begins, or whose extension ends, with a blank"),
    (("C10", "C03"), "tmp-named-branches", tmp_named_branches, "branches named like Goit's own temporary and metadata files (X.tmp beside X, index, HEAD, config)"),
    (("C17", "C13"), "spaced-ignore-entries", spaced_ignore_entries, "a .goitignore directory entry whose name contains a space"),
    (("C18",), "invalid-ignore-lines", invalid_ignore_lines, "F49: .goitignore lines that are not valid regular expressions must not crash any command (outside the model's ignore alphabet: oracle only)"),
    (("C13", "C18"), "status-after-shape-changes", status_after_shape_changes, "tracked files whose parent directory was replaced by a file (ENOTDIR), a tracked file replaced by a directory, an identical rewrite"),
    (("C04", "C06", "C09"), "removed-directory-and-dot", removed_directory_and_dot, "F47/F48: add of a tracked directory removed from disk; restore --staged . after entries of HEAD were unstaged"),
    (("C18", "C08", "C03", "C11"), "reset-after-rename", reset_after_rename, "every reflog position after branch --rename (which journals a record without a commit id), in every mode"),
    (("C14", "C10", "C03"), "colon-branches", colon_branches, "a branch whose name contains ': ' beside a branch named by the part before it"),
    (("C06", "C09"), "deep-directories", deep_directories, "directory arguments with two and more slashes for restore --staged, restore, rm, add"),
    (("C03", "C09", "C18", "C07", "C13"), "dir-became-file", dir_became_file, "a tracked directory removed and replaced by a file of the same name, staged, then restore --staged of that name"),
    (("C17", "C13"), "ignored-same-basename", ignored_same_basename, "an untracked file inside an ignored directory below the root whose base name equals a tracked top-level file"),
    (("C07", "C13", "C04"), "percent-paths", percent_paths, "path names containing % in every class of the status report"),
    (("C10", "C18"), "dot-branches", dot_branches, "branch names starting with '.' or '-': listed, not created twice, switched to, renamed, deleted"),
    (("C12", "C14"), "long-lines", long_lines, "message lines of 3000, 4096, 4097 and 5000 bytes read back by log"),
    (("C17",), "newline-names", newline_names, "F46: names with a line break inside .goit, under an ignored directory and with an ignored extension (the model's work tree does not hold files inside .goit: oracle only)"),
    (("C01", "C03"), "fanout", many_objects, "more than forty objects: several share the first two hex digits of their id (fan-out directory); every one must be stored and retrievable"),
    (("C02", "C05"), "dir-file-dir", dir_file_dir, "a level whose sorted entries go directory, file, directory, and siblings lib / lib.go / lib-old"),
    (("C04", "C18"), "rm-file-became-dir", rm_file_became_dir, "a tracked file gave way to a directory holding untracked files: rm must not delete them"),
    (("C05", "C06"), "non-ascii", non_ascii_names, "names with multi-byte UTF-8 and spaces through commit, reset and cat-file"),
    (("C06", "C04"), "replace-first-entry", replace_first_entry, "re-adding the byte-wise smallest tracked path (entry 0) and the only path of a one-entry staging area"),
    (("C07",), "commit-after-rm-all", commit_after_rm_all, "an emptied staging area over a non-empty HEAD snapshot is a staged difference: commit must succeed"),
    (("C08", "C18", "C11"), "long-reflog", long_reflog, "reflog positions with two digits, the position one past the oldest record, out-of-range positions"),
    (("C09", "C06"), "dir-with-dot-sibling", restore_dir_with_dot_sibling, "a directory argument with tracked siblings sorting between <dir> and <dir>/"),
    (("C11", "C14"), "multiline-messages", multiline_messages, "messages whose later lines have several words, with and without a blank line after the subject"),
    (("C14", "C12"), "percent-messages", percent_messages, "messages containing % must be shown verbatim"),
    (("C13", "C17"), "ignored-depth-two", ignored_depth_two, "a directory two levels down that a slash-less ignore entry names, holding tracked files"),
    (("C17",), "add-excluded-directly", add_excluded_directly, "excluded regular files and files of .goit given to add by name"),
    (("C20", "C02"), "config-mixed", config_mixed, "local section without e-mail, e-mail only in the global file"),
    (("C20",), "config-mixed2", config_mixed2, "name only global, e-mail only local, an unrelated local section"),
    (("C18", "C10"), "fresh-and-renamed", fresh_and_renamed, "read-only and reset commands on a repository without commits and right after the first one"),
]


def main():
    n = 0
    for props, name, fn, why in DIRECTED:
        steps = fn()
        for p in props:
            path = os.path.join(VERIF, "corpus", p, "directed-%s.json" % name)
            info = {"kind": "directed", "why": why}
            if name in ORACLE_ONLY:
                info["oracle_only"] = True
            runner.write_replay(path, p, steps, info)
            n += 1
    print("%d directed histories written" % n)


if __name__ == "__main__":
    main()
