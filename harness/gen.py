"""gen.py — state-aware history generation.  Every choice comes from one
random.Random; the generator looks at the *observed* repository (Snap) to pick
mostly-valid arguments, plus a separate stream of invalid ones."""
import re

from hist import (c_branch_flags, c_reset_flags, c_switch_flags, c_cat_file_flags, Edit, c_add, c_branch, c_branch_delete, c_branch_list, c_branch_rename, c_cat_file,
                  c_commit, c_config, c_hash_object, c_init, c_log, c_ls_files, c_reflog, c_reset,
                  c_restore, c_rev_parse, c_rm, c_status, c_switch, c_switch_create, c_update_ref,
                  c_write_tree)

# component alphabet chosen around the byte order of '/' (0x2f): ' ' ! ( ) + - . < '/' < 0 A _ a é
COMPONENTS = [b"a", b"b", b"d", b"ad", b"d-old", b"d.c", b"d0", b"d e", b"d(", b"lib", b"lib.go",
              b"lib-old", b"test", b"test.c", b"test-data", b"x+y", b"_u", b"A", "été".encode(),
              b"d)", b"d!", b"sub", b"f1", b"f2", b"out", b"about", b"a.log", b"a.logx", b"n.txt",
              b"src", b"layout", b"50%off", b"k%s", b" d", b"e "]
# directory/file names one of which is a proper prefix of the other, the extension starting with a byte
# above '/': they are neighbours in the staging area with nothing between "<x>/..." and "<x><ext>/..."
PREFIX_PAIRS = [(b"a", b"ad"), (b"a", b"about"), (b"d", b"d0"), (b"lib", b"lib2"), (b"test", b"tests"),
                (b"src", b"src_old"), (b"f1", b"f10"), (b"x", b"xy"), (b"d", b"dA"),
                (b"util", b"util-test"), (b"lib", b"lib.d"), (b"e", b"e+"), (b"a", b"a\\b"), (b".goit\\zz", b"x\\")]
PLAIN = [b"a", b"b", b"c", b"d", b"e", b"f1", b"f2", b"sub", b"lib", b"src"]

BRANCHES = [b"dev", b"feat", b"head", b"Head", b"a", b"ab", b"a-b", b"a.b", b"b", b"main2", b"x_1", b"Z", b"rel.1", b"m", b".wip", b"-d", b"%s", b"dev.tmp", b"a.tmp", b"HEAD", b"index"]
HOSTILE_BRANCHES = [b"../../HEAD", b"a/b", b"..", b".", b"a: b", b"", b"x\\y", b"../x", b"refs/heads/q",
                    b"a\nx y z", b"t\tab", b"nl\n", b"q\rr"]

MESSAGES = [b"first", b"fix: colon", b"two words", b"three word message", b"tab\there",
            b"line one\nline two has three words\nmore", b"  padded  ", "non-ascii üé".encode(),
            b"a: b: c", b"trailing newline\n", b"x" * 300, b"m", b"", b" ", b"\nbody only, empty subject",
            b"subject\n\nbody after a blank line", b"ends with colon: ", b"\ttab first", b"commit abc", b"x: y\tz: w",
            b"100% on", b"%s %d %%", b"first line\nsecond line of four words\nthird",
            b"crlf one\r\ncrlf two\r\n", b"ends with cr\r", b"cr\rinside"]

CONTENTS = [b"", b"a", b"hello\n", b"\x00\x01\x02", b"blob 3\x00abc", b"\xff\xfe invalid utf8 \xc3",
            b"line1\nline2\n", b"12345", b" ", b"x" * 1000]


def content(rng, prof=None):
    if prof and prof.get("contents") and rng.random() < 0.85:
        return rng.choice(prof["contents"])
    r = rng.random()
    if r < 0.6:
        return rng.choice(CONTENTS)
    if r < 0.8:
        return bytes(rng.randrange(256) for _ in range(rng.randrange(1, 40)))
    if r < 0.9:
        return b"v%d\n" % rng.randrange(1000)
    return bytes([rng.randrange(256)]) * rng.randrange(1, 3000)


def new_path(rng, prof):
    comps = prof.get("components", COMPONENTS)
    depth = rng.choice(prof.get("depths", [1, 1, 2, 2, 3, 4]))
    return b"/".join(rng.choice(comps) for _ in range(depth))


def parents(p):
    parts = p.split(b"/")
    return [b"/".join(parts[:i]) for i in range(1, len(parts))]


class _NoIgnore:
    """view of the state in which .goitignore is not a candidate for random edits
    (its content stays inside the domain the properties quantify over)"""

    def __init__(self, st):
        self.__dict__.update(st.__dict__)
        self.files = [f for f in st.files if f != b".goitignore"]


class State:
    """what the generator may look at: the last observed snapshot"""

    def __init__(self, snap):
        self.s = snap
        try:
            self.tracked = [p for p, _ in snap.index_entries()]
        except ValueError:
            self.tracked = []
        self.files = sorted(snap.files)
        self.dirs = sorted(snap.dirs)
        self.branches = sorted(snap.refs)
        self.head = snap.head_branch
        n = 0
        if snap.hlog:
            n = len([l for l in snap.hlog.split(b"\n") if l])
        self.nlog = n
        self.tdirs = sorted({d for p in self.tracked for d in parents(p)})
        # commit ids depend on the clock: order them by first appearance in the journals, so that the same
        # seed makes the same choices in every run
        seen, order = set(), []
        for raw in [snap.hlog] + [snap.blogs[k] for k in sorted(snap.blogs)]:
            for line in (raw or b"").split(b"\n"):
                t = line.split(b" ")
                if len(t) > 2 and len(t[1]) == 40:
                    try:
                        cid = bytes.fromhex(t[1].decode())
                    except ValueError:
                        continue
                    if cid not in seen and (snap.objects.get(cid) or b"").startswith(b"commit "):
                        seen.add(cid)
                        order.append(cid)
        self.commits = order + sorted(k for k, v in snap.objects.items()
                                      if v and v.startswith(b"commit ") and k not in seen)
        self.trees = [k for k, v in snap.objects.items() if v and v.startswith(b"tree ")]
        self.blobs = [k for k, v in snap.objects.items() if v and v.startswith(b"blob ")]


def pick_paths(rng, st, prof, kind):
    """argument lists for add / rm / restore: mostly meaningful, sometimes not"""
    pool = []
    if kind == "add":
        pool = st.files * 2 + st.dirs + [b"."] + [p for p in st.tracked if p not in st.s.files] \
            + [d for d in st.tdirs if d not in st.s.dirs and d not in st.s.files]
    elif kind == "rm":
        pool = st.tracked * 2 + st.tdirs
    elif kind == "restore":
        pool = st.tracked * 2 + st.tdirs + [p for p in st.tracked if p not in st.s.files] + [b"."]
    elif kind == "restore-staged":
        head = []
        try:
            hb = st.s.branch_ids().get(st.head)
            if hb:
                head = [p for p, _ in st.s.flatten(st.s.commit(hb)["tree"])]
        except Exception:
            head = []
        pool = st.tracked + head + st.tdirs + sorted({d for p in head for d in parents(p)}) + [b".", b"."]
    r = rng.random()
    if not pool or r < prof.get("p_invalid", 0.08):
        return [rng.choice([b"nope", b"no/such", new_path(rng, prof), b"d", b"ad"])]
    n = 1 if r < 0.75 else rng.randrange(2, 4)
    args = [rng.choice(pool) for _ in range(n)]
    if rng.random() < prof.get("p_invalid", 0.08) / 2:
        args.insert(rng.randrange(len(args) + 1), b"nope")
    return args


def pick_decor(rng, st, paths):
    """now and then spell an argument in an unclean but equivalent way (./p, p/, ./p/, a/../a/b, a//b)"""
    if rng.random() > 0.2:
        return None
    out = []
    for p in paths:
        # every spelling for every argument, files and missing paths included: Goit works on the cleaned
        # argument throughout (after repair F53; before it `add a/` unstaged an existing file a)
        out.append(rng.choice([0, 1, 5, 2, 3, 4]))
    return out


def gen_edit(rng, st, prof):
    r = rng.random()
    if prof.get("ignore") and r < 0.06:
        import runner
        return Edit("write", b".goitignore", rng.choice(runner.IGNORE_FILES))
    st_files = st.files
    st = _NoIgnore(st)
    if st.files and r < 0.25:
        return Edit("write", rng.choice(st.files), content(rng, prof))            # modify
    if st.files and r < 0.32:
        p = rng.choice(st.files)
        return Edit("write", p, st.s.files[p])                               # rewrite identically
    if st.files and r < 0.45:
        return Edit("delete", rng.choice(st.files))
    if st.dirs and r < 0.52:
        return Edit("rmtree", rng.choice(st.dirs))
    if r < 0.58 and prof.get("fd_conflicts", False) and st.tracked:
        # a tracked file gives way to a directory of the same name holding untracked files
        p = rng.choice(st.tracked)
        if p in st.s.files and p.count(b"/") < 4 and not p.startswith(b".goitignore"):
            comps = prof.get("components", COMPONENTS)
            q = prof.setdefault("queue", [])
            q.append(Edit("write", p + b"/" + rng.choice(comps), content(rng, prof)))
            if rng.random() < 0.5:
                q.append(Edit("write", p + b"/" + rng.choice(comps) + b"/" + rng.choice(comps), content(rng, prof)))
            return Edit("delete", p)
    if r < 0.61 and prof.get("fd_conflicts", False) and st.tdirs:
        # the other way round: a directory holding tracked files gives way to a file of the same name
        d = rng.choice(st.tdirs)
        if d in st.s.dirs and not d.startswith(b".goitignore"):
            prof.setdefault("queue", []).append(Edit("write", d, content(rng, prof)))
            return Edit("rmtree", d)
    # new file, not colliding with an existing directory or below an existing file
    for _ in range(20):
        p = new_path(rng, prof)
        if st.dirs and rng.random() < 0.5:
            # grow an existing directory: siblings at depth make directory operations interesting
            comps = prof.get("components", COMPONENTS)
            p = rng.choice(st.dirs) + b"/" + rng.choice(comps)
            if p.count(b"/") > 4:
                continue
        if p in st.s.dirs or any(a in st.s.files for a in parents(p)) or p in st.s.files:
            continue
        return Edit("write", p, content(rng, prof))
    return Edit("write", b"f%d" % rng.randrange(1000), content(rng, prof))


DEFAULT_WEIGHTS = {
    "edit": 22, "add": 14, "rm": 4, "commit": 10, "status": 5, "restore": 3, "restore-staged": 3,
    "reset": 4, "branch": 3, "branch-list": 1, "branch-rename": 1, "branch-delete": 1, "switch": 3,
    "switch-c": 2, "update-ref": 1, "log": 2, "reflog": 2, "cat-file": 2, "hash-object": 1, "ls-files": 2,
    "rev-parse": 1, "write-tree": 1, "config": 1, "hostile": 3,
}


def gen_hostile(rng, st):
    """refusable / malformed invocations (still modelled)"""
    k = rng.randrange(18)
    if k == 0:
        return c_update_ref(b"refs/heads/" + (st.head or b"main"), rng.choice(st.blobs + st.trees).hex()) \
            if (st.blobs or st.trees) else c_update_ref(b"refs/heads/main", "0" * 40)
    if k == 1:
        return c_update_ref(b"refs/heads/" + (st.head or b"main"), "1234567890" * 4)
    if k == 2:
        return c_branch(rng.choice(HOSTILE_BRANCHES))
    if k == 3:
        return c_switch_create(rng.choice(HOSTILE_BRANCHES))
    if k == 4:
        return c_branch_rename(rng.choice(HOSTILE_BRANCHES))
    if k == 5:
        return c_reset(rng.choice([None, "soft", "hard"]),
                       rng.choice([b"HEAD@{99}", b"xHEAD@{1}", b"HEAD@{1}HEAD@{2}", b"HEAD@{}", b"HEAD@{-1}",
                                   b"HEAD", b"HEAD@{1", b"HEAD@{99999999999999999999}"]))
    if k == 6:
        return c_switch(rng.choice([b"nope", b"", b"../x", b".", b".."] + HOSTILE_BRANCHES))
    if k == 7:
        return c_branch_delete(rng.choice([st.head or b"main", b"nope", b".", b"..", b""] + HOSTILE_BRANCHES[:6]))
    if k == 8:
        return c_cat_file(rng.choice(["-t", "-p"]), rng.choice(["zz", "0" * 40, "abc", "A" * 40]))
    if k == 9:
        return c_rm([rng.choice([b"nope", b"d", b"ad", b"."])])
    if k == 10:
        return c_restore([rng.choice([b"nope", b"a", b"."])], staged=rng.random() < 0.5)
    if k == 11:
        return c_rev_parse([rng.choice([b"nope", b"HEAD", b"head"])])
    if k == 12:
        return c_hash_object([rng.choice([b"nope", b"."] + st.dirs)])
    if k == 13:
        return c_config(rng.choice([b"user", b"a.b.c", b"user.name"]), b"v")
    if k == 14:
        return c_add([rng.choice([b"nope", b"no/such/file"])])
    if k == 15:
        # two modes of `branch` at once: always refused, nothing may change
        others = [b for b in st.branches if b != st.head] or [b"nope"]
        combo = rng.randrange(5)
        if combo == 0:
            return c_branch_flags(rename=rng.choice(BRANCHES), delete=rng.choice(others + [b"nope"]))
        if combo == 1:
            return c_branch_flags(names=[rng.choice(BRANCHES)], delete=rng.choice(others))
        if combo == 2:
            return c_branch_flags(names=[rng.choice(BRANCHES)], rename=rng.choice(BRANCHES))
        if combo == 3:
            return c_branch_flags(lst=True, delete=rng.choice(others))
        return c_branch_flags(names=[rng.choice(BRANCHES), rng.choice(BRANCHES)])
    if k == 17 and rng.random() < 0.25:
        # an empty path argument: refused by add, rm and restore, alone or among valid ones
        others = [rng.choice(st.files)] if st.files and rng.random() < 0.5 else []
        args = others + [b""] if rng.random() < 0.5 else [b""] + others
        which = rng.randrange(4)
        return (c_add(args) if which == 0 else c_rm(args) if which == 1 else
                c_restore(args) if which == 2 else c_restore(args, staged=True))
    if k == 17 and rng.random() < 0.8:
        # config arguments the file format cannot hold, or without exactly one dot
        key, val = rng.choice([(b".k", b"v"), (b"user.name", b"a\nb"), (b"us\ner.name", b"x"), (b"user.na\nme", b"x"),
                               (b"a.b.c", b"v"), (b"nodot", b"v"), (b"s.", b"v"), (b".", b"v"), (b"user.name", b"line\n"),
                               (b"[x].k", b"v"), (b"x.k=1", b"v"), (b"user. name", b"M"), (b"user.name ", b"M"),
                               (b"user.na\tme", b"M"), (b"user.name=x", b"y"), (b"user.email=", b"y")])
        return c_config(key, val, glob=rng.random() < 0.3)
    if k == 16:
        # mode flags of other commands combined, missing or repeated arguments
        combo = rng.randrange(8)
        pos = rng.choice([b"HEAD@{0}", b"HEAD@{1}"])
        if combo == 0:
            return c_reset_flags(True, None, True, [pos])
        if combo == 1:
            return c_reset_flags(True, True, False, [pos])
        if combo == 2:
            return c_reset_flags(False, False, False, [pos])
        if combo == 3:
            return c_reset_flags(False, None, True, [pos, pos])
        if combo == 4:
            return c_switch_flags([rng.choice(st.branches or BRANCHES)], create=rng.choice(BRANCHES))
        if combo == 5:
            return c_switch_flags([rng.choice(BRANCHES), rng.choice(BRANCHES)])
        if combo == 6:
            return c_cat_file_flags(True, True, [(rng.choice(st.commits) if st.commits else b"\0" * 20).hex()])
        return c_cat_file_flags(False, False, [(rng.choice(st.blobs) if st.blobs else b"\0" * 20).hex()])
    return c_log(rng.choice([0, -1, 1, 100]))


def gen_step(rng, snap, prof):
    st = State(snap)
    if not snap.inited:
        return c_init()
    w = dict(DEFAULT_WEIGHTS)
    w.update(prof.get("weights", {}))
    kinds = sorted(w)
    kind = rng.choices(kinds, weights=[w[k] for k in kinds])[0]
    if kind == "edit":
        return gen_edit(rng, st, prof)
    if kind == "add":
        ps = pick_paths(rng, st, prof, "add")
        return c_add(ps, decor=pick_decor(rng, st, ps))
    if kind == "rm":
        ps = pick_paths(rng, st, prof, "rm")
        return c_rm(ps, decor=pick_decor(rng, st, ps))
    if kind == "commit":
        return c_commit(rng.choice(prof.get("messages", MESSAGES)))
    if kind == "status":
        return c_status()
    if kind == "restore":
        ps = pick_paths(rng, st, prof, "restore")
        return c_restore(ps, decor=pick_decor(rng, st, ps))
    if kind == "restore-staged":
        ps = pick_paths(rng, st, prof, "restore-staged")
        return c_restore(ps, staged=True, decor=pick_decor(rng, st, ps))
    if kind == "reset":
        n = rng.randrange(0, st.nlog + 2) if rng.random() < 0.9 else rng.randrange(0, 30)
        return c_reset(rng.choice([None, "soft", "mixed", "hard", "hard"]), b"HEAD@{%d}" % n)
    if kind == "branch":
        return c_branch(rng.choice(BRANCHES + st.branches[:1]))
    if kind == "branch-list":
        return c_branch_list()
    if kind == "branch-rename":
        return c_branch_rename(rng.choice(BRANCHES))
    if kind == "branch-delete":
        return c_branch_delete(rng.choice(st.branches or BRANCHES))
    if kind == "switch":
        return c_switch(rng.choice(st.branches or BRANCHES))
    if kind == "switch-c":
        return c_switch_create(rng.choice(BRANCHES))
    if kind == "update-ref":
        if st.commits and st.branches:
            return c_update_ref(b"refs/heads/" + rng.choice(st.branches), rng.choice(st.commits).hex())
        return gen_hostile(rng, st)
    if kind == "log":
        return c_log(rng.choice([None, None, 0, 1, 2, 3, 10, 60, 60, 2 ** 31, 2 ** 45 + 1, 2 ** 63 - 1]))
    if kind == "reflog":
        return c_reflog()
    if kind == "cat-file":
        objs = st.commits + st.trees * 2 + st.blobs
        if not objs:
            return c_ls_files(True)
        o = rng.choice(objs)
        flag = rng.choice(["-t", "-p", "-p"])
        return c_cat_file(flag, o.hex(), tree=o in st.trees)
    if kind == "hash-object":
        return c_hash_object([rng.choice(st.files)] if st.files else [b"nope"])
    if kind == "ls-files":
        return c_ls_files(rng.random() < 0.7)
    if kind == "rev-parse":
        return c_rev_parse([b"HEAD"] + st.branches[:2])
    if kind == "write-tree":
        return c_write_tree()
    if kind == "config":
        return gen_config(rng, prof)
    return gen_hostile(rng, st)


CFG_VALUES = [b"Al Bo", b"a=b c", b"[x]", b"# hash", b'"quoted"', "Jürgen".encode(), b"x", b"a = b",
              b"v1", b"two  spaces"[:3], b"e@x.yy", b"first.last+tag@sub.example.org", b"Ann 100% Lee", b"50%", b"%s %d%%",
              b"Ada\tLovelace", b"tab\tin\tvalue"]


def gen_config(rng, prof):
    sec = rng.choice([b"user", b"user", b"core", b"x"])
    key = rng.choice([b"name", b"email", b"editor", b"k"])
    if sec == b"user" and key == b"email":
        val = rng.choice([b"a@b.cc", b"first.last+tag@sub.example.org", b"e@x.yy"])
    else:
        val = rng.choice(CFG_VALUES)
    return c_config(sec + b"." + key, val, glob=rng.random() < 0.3)


def prelude(rng, prof):
    """init + identity, unless the profile wants to start bare"""
    steps = [c_init()]
    if prof.get("identity", True):
        steps += [c_config(b"user.name", prof.get("name", b"Al Bo"), glob=rng.random() < 0.3),
                  c_config(b"user.email", prof.get("email", b"a@b.cc"))]
    return steps
