"""runner.py — run generated or stored histories on the real binary, decide
the property with its oracle, replay on the model, shrink failures."""
import json
import os
import time as _time
import random

import gen
from core import Sandbox, Snap, make_tzif, parse_sign
from hist import StepRec, correspond, step_from_json, step_to_json
from oracles import ORACLES

# ------------------------------------------------------------------ profiles
# Which differences between implementation and model matter to a property
# ("projected observables"), and how histories for it are generated.
ALL_TAGS = {"exit", "output", "HEAD", "refs", "index", "object", "logs/HEAD", "branch logs", "LCFG", "GCFG",
            "work tree", "inited", "model flagged"}

PROFILES = {
    "C01": dict(tags={"object", "exit", "output"}, names={"add", "hash-object", "cat-file", "commit", "write-tree"},
                weights={"edit": 30, "add": 20, "hash-object": 8, "cat-file": 10, "commit": 8, "write-tree": 3}),
    "C02": dict(tags={"object", "refs", "HEAD", "index", "work tree", "exit"}, names={"commit"},
                weights={"commit": 18, "add": 18, "edit": 26}),
    "C03": dict(tags={"object", "refs", "HEAD", "index", "exit"}, names=None,
                weights={"hostile": 14, "update-ref": 4, "reset": 6, "branch-rename": 3}),
    "C04": dict(tags={"index", "work tree", "object", "exit"}, names={"add", "rm"},
                weights={"add": 22, "rm": 12, "edit": 30}, p_invalid=0.12, fd_conflicts=True),
    "C05": dict(tags={"index", "output", "exit"}, names={"reset", "cat-file", "ls-files"},
                weights={"reset": 10, "cat-file": 10, "commit": 14, "add": 16, "rm": 5, "ls-files": 4}),
    "C06": dict(tags={"index", "exit"}, names={"add", "rm", "restore", "restore-staged", "reset"},
                weights={"add": 20, "rm": 10, "restore": 7, "restore-staged": 7, "reset": 4},
                components=[b"d", b"ad", b"d-old", b"d.c", b"d0", b"d e", b"d(", b"x", b"d)", b"d!", b"a+b"],
                depths=[1, 1, 2, 2, 3, 4]),
    "C07": dict(tags={"output", "exit", "refs", "object"}, names={"status", "commit"},
                weights={"status": 14, "commit": 14, "add": 16, "rm": 6, "restore-staged": 5},
                components=[b"test", b"test.c", b"test-data", b"lib", b"lib.go", b"lib-old", b"a", b"d", b"d-x", b"x", b"50%off", b"k%s"],
                depths=[1, 1, 2, 2, 3], fd_conflicts=True),
    "C08": dict(tags={"refs", "HEAD", "index", "work tree", "exit", "output"}, names={"reset", "reflog"},
                weights={"reset": 14, "reflog": 8, "commit": 14, "switch": 4, "switch-c": 3, "edit": 24}),
    "C09": dict(tags={"index", "work tree", "exit"}, names={"restore", "restore-staged"},
                weights={"restore": 14, "restore-staged": 14, "edit": 28, "add": 14, "commit": 8},
                components=[b"d", b"ad", b"d-old", b"a+b", b"d(", b"x", b"lib", b"lib.go", b"f"], depths=[1, 2, 2, 3, 4, 4],
                fd_conflicts=True),
    "C10": dict(tags={"refs", "HEAD", "exit", "output"},
                names={"branch", "branch-list", "branch-rename", "branch-delete", "branch-flags", "switch", "switch-c",
                       "update-ref", "rev-parse", "commit", "reset"},
                weights={"branch": 10, "branch-list": 4, "branch-rename": 5, "branch-delete": 6, "switch": 8,
                         "switch-c": 6, "update-ref": 5, "rev-parse": 4, "commit": 8, "reset": 3, "edit": 12, "add": 10,
                         "hostile": 6}),
    "C11": dict(tags={"logs/HEAD", "branch logs", "output", "exit"},
                names={"reflog", "reset", "commit", "switch", "switch-c", "branch-rename", "branch-delete"},
                weights={"reflog": 12, "commit": 14, "switch": 6, "switch-c": 4, "reset": 8, "branch-rename": 4,
                         "branch-delete": 3, "branch": 4}),
    "C12": dict(tags={"object", "exit", "output"}, names={"commit", "log", "cat-file"},
                weights={"commit": 20, "log": 6, "cat-file": 8, "add": 18, "edit": 24}),
    "C13": dict(tags={"output", "exit"}, names={"status"},
                weights={"status": 18, "edit": 36, "add": 12, "commit": 5, "rm": 3}, ignore=True, fd_conflicts=True),
    "C14": dict(tags={"output", "exit"}, names={"log"},
                weights={"log": 14, "commit": 20, "add": 18, "reset": 5, "switch": 4, "switch-c": 3, "edit": 22},
                # few files with few contents: a later commit often has the same snapshot as an earlier one
                components=[b"f", b"g", b"h"], depths=[1, 1, 2], contents=[b"1\n", b"2\n", b""]),
    "C17": dict(tags={"index", "output", "exit"}, names={"add", "status", "reset", "restore"},
                weights={"add": 22, "status": 10, "edit": 30, "reset": 4, "restore": 4, "commit": 6}, ignore=True,
                fd_conflicts=True),
    "C18": dict(tags=ALL_TAGS, names=None, weights={"hostile": 16}, p_invalid=0.15, fd_conflicts=True),
    "C20": dict(tags={"LCFG", "GCFG", "object", "exit"}, names={"config", "commit"},
                weights={"config": 24, "commit": 10, "add": 10, "edit": 14}, identity=False),
}
for _p in ("C15", "C16", "C19"):
    PROFILES[_p] = dict(tags=ALL_TAGS, names=None, weights={})

IGNORE_FILES = [b"out/\n", b"*.log\n", b"out/\n*.log\n", b"sub/\n", b"n.txt\n", b"src/out/\n*.txt\n",
                b"out\n", b"sub\nlib.go\n", b"src\n", b"d e/\n*.log\n", b"k%s/\n", b"d e\n", b" d/\n", b"e /\n*.log\n",
                b"src/n.txt\n*.log\n", b"*.log\nout/a\n", b"*.log\n\n", b"out/\n\n*.log\n", b"\nsub/\n"]
# the path components an ignore file talks about: they join the history's vocabulary, otherwise most
# histories would never create a path the patterns apply to
IGNORE_WORDS = {b"out/\n": [b"out"], b"*.log\n": [b"a.log", b"a.logx"], b"out/\n*.log\n": [b"out", b"a.log"],
                b"sub/\n": [b"sub"], b"n.txt\n": [b"n.txt"], b"src/out/\n*.txt\n": [b"src", b"out", b"n.txt"],
                b"out\n": [b"out", b"src"], b"sub\nlib.go\n": [b"sub", b"lib.go", b"lib"], b"src\n": [b"src", b"a"],
                b"d e/\n*.log\n": [b"d e", b"a.log"], b"k%s/\n": [b"k%s"], b"d e\n": [b"d e", b"d"],
                b" d/\n": [b" d", b"d"], b"e /\n*.log\n": [b"e ", b"a.log"],
                b"src/n.txt\n*.log\n": [b"src", b"n.txt", b"n.txt.bak", b"nXtxt", b"a.log"],
                b"*.log\nout/a\n": [b"a.log", b"out", b"a", b"ab"], b"*.log\n\n": [b"a.log", b"sub"],
                b"out/\n\n*.log\n": [b"out", b"a.log"], b"\nsub/\n": [b"sub", b"lib"]}


def relevant(prop, step, diff):
    prof = PROFILES[prop]
    tag_ok = any(diff.startswith(t) for t in prof["tags"])
    if not tag_ok:
        return False
    if prof["names"] is None or step.kind != "cmd":
        return prof["names"] is None
    return step.name in prof["names"]


# ------------------------------------------------------------------ running
def run_steps(goit, steps_or_gen, nsteps, tz="UTC", tz_offset=0, base=None):
    """runs a fixed list of steps, or a generator function snap->step, on the real binary"""
    sb = Sandbox(goit, base=base, tz=tz)
    recs = []
    try:
        prev = Snap(sb)
        i = 0
        while True:
            if callable(steps_or_gen):
                if i >= nsteps:
                    break
                st = steps_or_gen(prev, i)
                if st is None:
                    break
            else:
                if i >= len(steps_or_gen):
                    break
                st = steps_or_gen[i]
            i += 1
            r = StepRec()
            r.step, r.before, r.time, r.off = st, prev, int(_time.time()), tz_offset
            if st.kind == "edit":
                try:
                    getattr(sb, st.op)(*([st.path] + ([st.data] if st.op == "write" else [])))
                except OSError:
                    continue          # an edit that the file system refuses is dropped from the history
                r.res = None
            else:
                r.res = sb.run(st.real_argv)
            r.after = Snap(sb)
            r.new_objs = [k for k in r.after.objects if k not in prev.objects]
            for k in r.new_objs:
                p = r.after.objects[k]
                if p is not None and p.startswith(b"commit "):
                    try:
                        c = r.after.commit(k)
                        sg = parse_sign(c["author"]) if c["author"] else None
                        if sg:
                            r.time = sg["time"]
                    except ValueError:
                        pass
            made = any((r.after.objects[k] or b"").startswith(b"commit ") for k in r.new_objs)
            if st.kind == "cmd" and st.name == "commit" and r.res.cls == "ok" and not made:
                # an identical commit made again within the same second creates no new object
                try:
                    hb = r.after.head_branch
                    cid = r.after.branch_ids().get(hb)
                    sg = parse_sign(r.after.commit(cid)["author"])
                    if sg:
                        r.time = sg["time"]
                except Exception:
                    pass
            prev = r.after
            recs.append(r)
    finally:
        sb.close()
    return recs


def run_oracle(o, recs):
    """An oracle reads states with strict readers.  If it cannot read one, find the step: when the
    state BEFORE that step was already broken (some earlier step broke it and was reported by the
    connectivity property) the history is cut there; otherwise the step itself made the repository
    unreadable, which is reported."""
    from core import fsck
    try:
        return o(recs)
    except Exception as e:
        lo, hi = 0, len(recs)
        while lo < hi:                   # smallest prefix length that raises
            mid = (lo + hi) // 2
            try:
                o(recs[:mid + 1])
                lo = mid + 1
            except Exception:
                hi = mid
        i = lo
        try:
            res = o(recs[:i])
        except Exception:
            res = []
        broken_before = True
        try:
            broken_before = bool(fsck(recs[i].before)) if i < len(recs) else True
        except Exception:
            pass
        if not broken_before:
            res.append((i, "the repository cannot be read back after this step (%s: %r)" % (o.__name__, e)))
        return res


def judge(prop, recs, with_model=True):
    """-> dict(oracle=[(i,msg)], corr=[(i,[diffs])] relevant to prop, corr_other=bool)"""
    out = {"oracle": [], "corr": [], "corr_other": None}
    for o in ORACLES.get(prop, []):
        out["oracle"] += run_oracle(o, recs)
    if with_model:
        diffs, _ = correspond(recs)
        for i, dd in diffs:
            rel = [d for d in dd if relevant(prop, recs[i].step, d)]
            if rel:
                out["corr"].append((i, rel))
            else:
                out["corr_other"] = (i, dd[:2])
    return out


def gen_history(seed, prop, nsteps):
    """returns a closure producing steps from observed snapshots, deterministic in seed"""
    rng = random.Random(seed)
    prof = dict(PROFILES[prop])
    # each history works with a small vocabulary of path components (so that siblings, name clashes and
    # directories sharing a prefix are common) that always contains one prefix pair
    comps = list(prof.get("components", gen.COMPONENTS))
    prof["components"] = rng.sample(comps, min(len(comps), rng.choice([3, 4, 5, 6, 8]))) + list(rng.choice(gen.PREFIX_PAIRS))
    pair = prof["components"][-2:]
    pre = gen.prelude(rng, prof)
    if rng.random() < 0.6:
        # two sibling DIRECTORIES one of whose names is a proper prefix of the other
        from hist import Edit as _E
        parent = b"" if rng.random() < 0.6 else rng.choice(prof["components"]) + b"/"
        pre.append(_E("write", parent + pair[0] + b"/" + rng.choice(prof["components"]), gen.content(rng)))
        pre.append(_E("write", parent + pair[1] + b"/" + rng.choice(prof["components"]), gen.content(rng)))
    if prof.get("ignore") and rng.random() < 0.8:
        from hist import Edit
        ign = rng.choice(IGNORE_FILES)
        words = IGNORE_WORDS.get(ign, [])
        prof["components"] = prof["components"] + [w for w in words if w not in prof["components"]]
        if words and rng.random() < 0.7:
            # a tracked file two levels down inside a directory the patterns name, and one beside it
            top = rng.choice([c for c in prof["components"] if c not in words] or [b"a"])
            pre.append(Edit("write", top + b"/" + words[0] + b"/" + rng.choice(prof["components"]), gen.content(rng)))
            pre.append(Edit("write", top + b"/" + rng.choice(prof["components"]), gen.content(rng)))
        pre.append(Edit("write", b".goitignore", ign))

    def nxt(snap, i):
        if i < len(pre):
            return pre[i]
        if prof.get("queue"):
            return prof["queue"].pop(0)       # the rest of a multi-step edit
        return gen.gen_step(rng, snap, prof)
    return nxt


def case(args):
    """one generated history (worker entry point; must be picklable)"""
    goit, prop, seed, nsteps, base = args
    try:
        recs = run_steps(goit, gen_history(seed, prop, nsteps), nsteps, base=base)
        j = judge(prop, recs)
        steps = [r.step for r in recs]
        return {
            "seed": seed, "n": len(recs), "oracle": j["oracle"], "corr": j["corr"], "corr_other": j["corr_other"],
            "steps": [step_to_json(s) for s in steps],
            "names": [s.name if s.kind == "cmd" else "edit:" + s.op for s in steps],
            "classes": [r.res.cls if r.res is not None else "-" for r in recs],
        }
    except Exception as e:
        import traceback
        return {"seed": seed, "n": 0, "oracle": [], "corr": [], "corr_other": None, "steps": [], "names": [],
                "classes": [], "error": traceback.format_exc()[-1500:]}


def replay_steps(goit, prop, steps, tz="UTC", tz_offset=0, base=None, with_model=True):
    recs = run_steps(goit, steps, len(steps), tz=tz, tz_offset=tz_offset, base=base)
    return recs, judge(prop, recs, with_model=with_model)


def _sig(msg):
    import re
    m = msg if isinstance(msg, str) else "; ".join(msg)
    m = re.sub(r"[0-9a-f]{7,40}", "H", m)
    m = re.sub(r"b'[^']*'|b\"[^\"]*\"", "B", m)
    return m[:50]


def shrink(goit, prop, steps, kind, base=None, budget=80, want=None):
    """greedy removal of steps while a failure of the same kind and signature remains"""
    def fails(ss):
        try:
            _, j = replay_steps(goit, prop, ss, base=base, with_model=(kind == "corr"))
        except Exception:
            return False
        if want is None:
            return bool(j[kind])
        return any(_sig(m) == want for _, m in j[kind])
    cur = list(steps)
    # cut the tail after the failing step first
    _, j = replay_steps(goit, prop, cur, base=base, with_model=(kind == "corr"))
    if j[kind]:
        last = max(0, max(i for i, _ in j[kind]))
        cur = cur[:last + 1]
    i = len(cur) - 2
    while i >= 0 and budget > 0:
        cand = cur[:i] + cur[i + 1:]
        budget -= 1
        if fails(cand):
            cur = cand
        i -= 1
    return cur


def write_replay(path, prop, steps, info):
    os.makedirs(os.path.dirname(path), exist_ok=True)
    with open(path, "w") as f:
        json.dump({"property": prop, "steps": [step_to_json(s) for s in steps],
                   "show": [repr(s) for s in steps], **info}, f, indent=1)


def load_replay(path):
    with open(path) as f:
        j = json.load(f)
    return j, [step_from_json(s) for s in j["steps"]]
