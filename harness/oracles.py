"""oracles.py — implementation-level oracles: each decides one property on the
recorded run of the REAL binary, from independent readings of the disk and of
goit's output.  They never consult the model.  Each returns a list of
(step index, message)."""
import hashlib
import re

from core import (decode_index, render_log, fsck, parse_cat_tree, parse_log, parse_ls_files, parse_reflog, parse_sign,
                  parse_status, parse_tree)
from hist import parse_cfg_file


def githash(data):
    return hashlib.sha1(b"blob %d\0" % len(data) + data).digest()


def staged(s):
    try:
        return dict(s.index_entries())
    except ValueError:
        return None


def tip(s):
    hb = s.head_branch
    return s.branch_ids().get(hb) if hb is not None else None


def head_snapshot(s):
    t = tip(s)
    if t is None:
        return {}
    return dict(s.flatten(s.commit(t)["tree"]))


def under(d, p):
    return d == b"." or (p.startswith(d + b"/") and len(p) > len(d) + 1)


def meta_no_obj(s):
    return s.meta


def unchanged(a, b, objects=True):
    """whole-disk equality (optionally ignoring new objects)"""
    if a.meta != b.meta or a.files != b.files or a.dirs != b.dirs or a.gcfg != b.gcfg:
        return False
    if objects and a.objects != b.objects:
        return False
    return True


def what_changed(a, b):
    out = []
    for k in sorted(set(a.meta) | set(b.meta)):
        if a.meta.get(k) != b.meta.get(k):
            out.append(".goit/" + k.decode("latin1"))
    for k in sorted(set(a.files) | set(b.files)):
        if a.files.get(k) != b.files.get(k):
            out.append(k.decode("latin1"))
    if a.dirs != b.dirs:
        out.append("dirs")
    if a.gcfg != b.gcfg:
        out.append("~/.goitconfig")
    return out[:6]


def fd_conflict(s):
    """a tracked path that is a directory on disk, or lies below a file"""
    st = staged(s) or {}
    for p in st:
        if p in s.dirs:
            return True
        parts = p.split(b"/")
        for i in range(1, len(parts)):
            if b"/".join(parts[:i]) in s.files:
                return True
    return False


def self_conflicting(paths):
    """a set of paths one of which is a proper directory prefix of another (a file and a directory of one name)"""
    ps = sorted(paths)
    return any(q.startswith(p + b"/") for p, q in zip(ps, ps[1:])) or \
        any(q.startswith(p + b"/") for i, p in enumerate(ps) for q in ps[i + 1:i + 6])


def snapshot_conflict(s):
    """the staging area or some stored commit holds a file and a directory of the same name (Goit lets this
    happen: add does not unstage a tracked file that has become a directory).  Such a snapshot cannot be
    written to a work tree: a command that fails half-way through doing so is not 'refused for invalid arguments'."""
    if self_conflicting(staged(s) or {}):
        return True
    for k, v in s.objects.items():
        if v and v.startswith(b"commit "):
            try:
                if self_conflicting([p for p, _ in s.flatten(s.commit(k)["tree"])]):
                    return True
            except Exception:
                continue
    return False


def worktree_obstructs(s):
    """some stored commit's snapshot cannot be written into the work tree as it stands: one of its paths is a
    directory on disk, or lies below a regular file (C08's `--hard` clause presupposes neither: the model's
    `restorable`, shown necessary by a witness).  `reset --hard` then stops half-way, after the branch, the
    journals and the staging area were written: a failure during the work, not a refusal for invalid arguments."""
    for k, v in s.objects.items():
        if v and v.startswith(b"commit "):
            try:
                paths = [p for p, _ in s.flatten(s.commit(k)["tree"])]
            except Exception:
                continue
            for p in paths:
                if p in s.dirs:
                    return True
                parts = p.split(b"/")
                if any(b"/".join(parts[:i]) in s.files for i in range(1, len(parts))):
                    return True
    return False


def identity(s):
    l = parse_cfg_file(s.lcfg) or {}
    g = parse_cfg_file(s.gcfg) or {}
    if l == "bad" or g == "bad":
        return None, None
    def get(k):
        v = l.get(b"user", {}).get(k)
        return v if v is not None else g.get(b"user", {}).get(k)
    return get(b"name"), get(b"email")


# ---------------------------------------------------------------- ignore spec
def ignore_entries(s):
    raw = s.files.get(b".goitignore")
    if raw is None:
        return []
    return [l[:-1] if l.endswith(b"\r") else l for l in raw.split(b"\n") if l != b""]


def excluded(s, path):
    """the ignore SPEC (component boundaries), independent of Goit's regexps.
    True / False, or None where the property text does not say (a DIRECTORY whose
    name matches a '*.ext' or plain-name entry: Git hides what is beneath it, the
    property only speaks about files with that extension)"""
    comps = path.split(b"/")
    if comps[0] == b".goit" and len(comps) > 1:
        return True
    dontcare = False
    for e in ignore_entries(s):
        if e.endswith(b"/"):
            want = e[:-1].split(b"/")
            n = len(want)
            for i in range(0, len(comps) - n):          # directory part only
                if comps[i:i + n] == want:
                    return True
        elif e.startswith(b"*."):
            if comps[-1].endswith(e[1:]):
                return True
            if any(c.endswith(e[1:]) for c in comps[:-1]):
                dontcare = True
        elif b"/" in e:
            # a slash inside and none at the end: neither a `name/` nor a `*.ext` entry, so the property text
            # gives it no meaning beyond the path it spells out (Goit reads it as "this text, then anything")
            if path == e:
                return True
            want = e.split(b"/")[:-1]
            n = len(want)
            if any(comps[i:i + n] == want for i in range(0, len(comps) - n + 1)):
                dontcare = True
        else:
            if comps[-1] == e or path == e:
                return True
            if e in comps[:-1]:
                dontcare = True
    return None if dontcare else False


# ---------------------------------------------------------------- C01
def o_c01(recs):
    bad = []
    for i, r in enumerate(recs):
        if not r.before.inited:
            continue
        st = r.step
        if st.kind != "cmd":
            continue
        for k, v in r.before.objects.items():
            if r.after.objects.get(k, None) != v:
                bad.append((i, "stored object %s changed or vanished" % k.hex()))
                break
        for k in r.new_objs:
            p = r.after.objects[k]
            if p is None or hashlib.sha1(p).digest() != k:
                bad.append((i, "new object file %s is not the SHA-1 of its content" % k.hex()))
        if st.name in ("add", "commit", "write-tree") and r.res.cls == "ok":
            # whatever a successful add staged is stored and retrievable: kind blob, the file's bytes, Git's id;
            # the trees and the commit a successful commit / write-tree names exist
            idx_b, idx_a = staged(r.before) or {}, staged(r.after) or {}
            for p_, oid in idx_a.items():
                if idx_b.get(p_) != oid or st.name != "add":
                    o = r.after.obj(oid)
                    if o is None or o[0] != b"blob":
                        bad.append((i, "%s succeeded but the blob %s staged for %r is not in the store" % (st.name, oid.hex()[:12], p_)))
                        break
                    if st.name == "add" and p_ in r.before.files and githash(r.before.files[p_]) == oid and o[1] != r.before.files[p_]:
                        bad.append((i, "the stored blob of %r does not hold the file's bytes" % p_))
                        break
            if st.name == "write-tree":
                for l in [l for l in r.res.out.split(b"\n") if re.fullmatch(rb"[0-9a-f]{40}", l)]:
                    if r.after.obj(bytes.fromhex(l.decode())) is None:
                        bad.append((i, "write-tree printed %s, which is not in the store" % l.decode()[:12]))
        if st.name == "hash-object" and r.res.cls == "ok":
            exp = []
            for a in st.argv[1:]:
                if a == b"--":
                    continue
                exp.append(githash(r.before.files[a]).hex().encode())
            got = [l for l in r.res.out.split(b"\n") if l]
            if got != exp:
                bad.append((i, "hash-object printed %r, Git's id is %r" % (got, exp)))
        if st.name == "cat-file" and r.res.cls == "ok":
            oid = bytes.fromhex(st.argv[2].decode())
            o = r.before.obj(oid)
            if o is None:
                bad.append((i, "cat-file succeeded on a missing object"))
            elif st.argv[1] == b"-t" and r.res.out != o[0] + b"\n":
                bad.append((i, "cat-file -t printed %r for a %s" % (r.res.out, o[0])))
            elif st.argv[1] == b"-p" and o[0] != b"tree" and r.res.out != o[1] + b"\n":
                bad.append((i, "cat-file -p returned different bytes"))
    return bad


# ---------------------------------------------------------------- C02
def o_c02(recs):
    bad = []
    for i, r in enumerate(recs):
        if not r.before.inited:
            continue
        st = r.step
        if st.kind != "cmd" or st.name != "commit" or r.res.cls != "ok":
            continue
        b, a = r.before, r.after
        newc = [k for k in r.new_objs if a.objects[k] and a.objects[k].startswith(b"commit ")]
        cid = tip(a)
        if len(newc) > 1 or cid is None or (newc and newc[0] != cid):
            bad.append((i, "successful commit created %d commit objects; the branch names %s" % (len(newc), cid and cid.hex())))
            continue
        # (an identical commit made again within the same second is the same object: nothing new to store)
        c = a.commit(cid)
        snap = a.flatten(c["tree"])
        want = b.index_entries()
        if snap != want:
            bad.append((i, "snapshot %r != staging area %r" % (snap[:4], want[:4])))
        for p, oid in snap:
            o = a.obj(oid)
            if o is None or o[0] != b"blob":
                bad.append((i, "snapshot blob %s of %r missing" % (oid.hex(), p)))
        old = tip(b)
        if c["parents"] != ([old] if old else []):
            bad.append((i, "parents %r, previous tip %r" % ([p.hex() for p in c["parents"]], old and old.hex())))
        if a.head_raw != b.head_raw:
            bad.append((i, "HEAD changed"))
        hb = b.head_branch
        for n in set(a.refs) | set(b.refs):
            if n == hb:
                if a.refs.get(n) != cid.hex().encode():
                    bad.append((i, "current branch does not name the new commit"))
            elif a.refs.get(n) != b.refs.get(n):
                bad.append((i, "another branch changed: %r" % n))
        if a.index_raw != b.index_raw:
            bad.append((i, "commit changed the staging area"))
        if a.files != b.files or a.dirs != b.dirs:
            bad.append((i, "commit changed the work tree"))
        name, email = identity(b)
        for who in ("author", "committer"):
            sg = parse_sign(c[who] or b"")
            if sg is None or sg["name"] != name or sg["email"] != email:
                bad.append((i, "%s line %r is not the configured identity %r <%r>" % (who, c[who], name, email)))
        msg = st.argv[2]
        if c["message"] != msg + b"\n":
            bad.append((i, "recorded message %r, given %r" % (c["message"][:60], msg[:60])))
    return bad


# ---------------------------------------------------------------- C03
def o_c03(recs):
    bad = []
    for i, r in enumerate(recs):
        if not r.before.inited:
            continue
        if r.step.kind != "cmd":
            continue
        if fsck(r.before):
            continue                     # already broken: reported where it broke
        f = fsck(r.after)
        if f:
            bad.append((i, "fsck: " + "; ".join(f[:3])))
        for k, v in r.before.objects.items():
            if r.after.objects.get(k) != v:
                bad.append((i, "object %s deleted or altered" % k.hex()))
                break
    return bad


# ---------------------------------------------------------------- C04
def expected_add(b, args):
    """None = must be refused; else the expected staging area ('?' marks don't-care paths)"""
    st = dict(staged(b))
    for a in args:
        if a == b".":
            continue
        if a not in b.files and a not in b.dirs and a not in st and not any(under(a, q) for q in st):
            return None
    for a in args:
        if a in b.files:
            ex = excluded(b, a)
            if ex is None:
                st[a] = "?"
            elif not ex:
                st[a] = githash(b.files[a])
        elif a == b"." or a in b.dirs:
            for f in b.files:
                if under(a, f):
                    ex = excluded(b, f)
                    if ex is None:
                        st[f] = "?"
                    elif not ex:
                        st[f] = githash(b.files[f])
        elif a in st:
            if excluded(b, a) is False:
                st.pop(a, None)
            else:
                st[a] = "?"
        else:
            # a tracked directory that no longer exists: every tracked path beneath it is unstaged
            for q in [q for q in st if under(a, q)]:
                if excluded(b, a) is False and excluded(b, q) is False:
                    st.pop(q, None)
                else:
                    st[q] = "?"
    return st


def o_c04(recs):
    bad = []
    for i, r in enumerate(recs):
        if not r.before.inited:
            continue
        st = r.step
        if st.kind != "cmd" or st.name not in ("add", "rm"):
            continue
        b, a = r.before, r.after
        if staged(b) is None:
            continue
        if st.name == "rm":
            # whatever the state and the outcome: rm never removes or changes a file that is not tracked
            lost = [p for p, v in b.files.items() if p not in staged(b) and a.files.get(p) != v]
            if lost:
                bad.append((i, "rm removed or changed the untracked file(s) %r" % sorted(lost)[:3]))
                continue
        args = [x for x in st.argv[1:] if x != b"--"]
        if fd_conflict(b):
            # a tracked path is a directory on disk or lies below a file: most of the property's clauses do not
            # say what should happen, but one does: "a named path that is tracked but no longer exists is
            # unstaged" (a path whose parent has become a file no longer exists either)
            sb0 = staged(b)
            gone_tracked = (st.name == "add" and args and len(set(args)) == len(args)
                            and all((x in sb0 or any(under(x, q) for q in sb0)) and x not in b.files and x not in b.dirs for x in args)
                            and not any(x != y and (under(x, y) or under(y, x)) for x in args for y in args))
            if not gone_tracked:
                continue
        if st.name == "add":
            exp = expected_add(b, args) if args else None
            if exp is None:
                if r.res.cls == "ok":
                    bad.append((i, "add of an unknown path was accepted"))
                elif not unchanged(b, a):
                    bad.append((i, "refused add changed %s" % what_changed(b, a)))
                continue
            gone = [x for x in args if x not in b.files and x not in b.dirs]
            # a missing path named twice, or named together with a missing directory above it: the later
            # occurrence finds nothing left to unstage
            missing_twice = any(args.count(x) > 1 or any(y != x and under(y, x) for y in gone) for x in gone)
            if r.res.cls != "ok":
                if not missing_twice:
                    bad.append((i, "valid add failed: %r" % r.res.err[-120:]))
                # (a missing tracked path named twice: the second occurrence legitimately fails after the first
                # one unstaged it, and the arguments after it are not reached)
                continue
            got = staged(a)
            diff = [p for p in set(got) | set(exp) if got.get(p) != exp.get(p) and exp.get(p) != "?"]
            if diff:
                bad.append((i, "staging area after add differs at %r" % sorted(diff)[:4]))
            if a.files != b.files or a.dirs != b.dirs:
                bad.append((i, "add touched the work tree"))
            for p, oid in got.items():
                o = a.obj(oid)
                if o is None or o[0] != b"blob":
                    bad.append((i, "staged blob for %r not stored" % p))
                    break
            if got == staged(b) and (a.meta != b.meta or a.objects != b.objects):
                bad.append((i, "re-adding unchanged files changed %s" % what_changed(b, a)))
        else:
            sb_ = staged(b)
            sel, ok = set(), True
            for x in args:
                if x in sb_:
                    sel.add(x)
                else:
                    u = {p for p in sb_ if under(x, p)}
                    if not u:
                        ok = False
                    sel |= u
            if not ok:
                if r.res.cls == "ok":
                    bad.append((i, "rm of an untracked path was accepted"))
                elif not unchanged(b, a):
                    bad.append((i, "refused rm changed %s" % what_changed(b, a)))
                continue
            if any(p in b.dirs and any(under(p, f) for f in b.files) for p in sel):
                continue      # a selected tracked path is now a directory holding files: the property does not say
            if r.res.cls != "ok":
                bad.append((i, "valid rm failed: %r" % r.res.err[-120:]))
                continue
            exp = {p: v for p, v in sb_.items() if p not in sel}
            if staged(a) != exp:
                bad.append((i, "staging area after rm: %r expected %r" % (sorted(staged(a))[:5], sorted(exp)[:5])))
            expf = {p: v for p, v in b.files.items() if p not in sel}
            if a.files != expf:
                diff = [p for p in set(a.files) | set(expf) if a.files.get(p) != expf.get(p)]
                bad.append((i, "work tree after rm differs at %r" % sorted(diff)[:4]))
    return bad


# ---------------------------------------------------------------- C05
def o_c05(recs):
    bad = []
    made = {}          # commit id -> staged entries when it was made
    for i, r in enumerate(recs):
        if not r.before.inited:
            continue
        st = r.step
        if st.kind != "cmd":
            continue
        if st.name == "commit" and r.res.cls == "ok":
            for k in r.new_objs:
                if r.after.objects[k] and r.after.objects[k].startswith(b"commit "):
                    made[k] = r.before.index_entries()
        if st.name == "reset" and r.res.cls == "ok" and (b"--soft" not in st.argv):
            t = tip(r.after)
            if t is None:
                continue
            want = r.after.flatten(r.after.commit(t)["tree"])
            got = r.after.index_entries()
            if got != want:
                bad.append((i, "reset: staging area %r != snapshot %r" % (got[:4], want[:4])))
            if t in made and made[t] != got:
                bad.append((i, "reset: staging area differs from what was staged when %s was made" % t.hex()[:8]))
        if st.name == "cat-file" and st.argv[1] == b"-p" and r.res.cls == "ok":
            oid = bytes.fromhex(st.argv[2].decode())
            o = r.before.obj(oid)
            if o and o[0] == b"tree":
                want = [(b"tree " if m == b"040000" else b"blob ") + h.hex().encode() + b" " + n
                        for m, n, h in parse_tree(o[1])]
                got = parse_cat_tree(r.res.out)
                if got != want:
                    bad.append((i, "cat-file -p tree: %r expected %r" % (got[:3], want[:3])))
        if st.name == "cat-file" and st.argv[1] == b"-p" and r.res.cls != "ok":
            try:
                oid = bytes.fromhex(st.argv[2].decode())
            except ValueError:
                continue
            o = r.before.objects.get(oid)
            if o is not None and o.startswith(b"tree "):
                bad.append((i, "cat-file -p failed on a stored tree"))
    return bad


# ---------------------------------------------------------------- C06
def o_c06(recs):
    bad = []
    for i, r in enumerate(recs):
        if not r.before.inited:
            continue
        if r.step.kind != "cmd" or r.after.index_raw is None:
            continue
        if r.after.index_raw == r.before.index_raw:
            continue
        raw = r.after.index_raw
        try:
            d = decode_index(raw)
        except ValueError as e:
            bad.append((i, "staging-area file does not decode: %s" % e))
            continue
        if d["sig"] != b"DIRC" or d["trailing"] != 0 or d["count"] != len(d["entries"]):
            bad.append((i, "staging-area header/count/trailing bytes wrong"))
        paths = [p for p, _ in d["entries"]]
        if any(paths[j] >= paths[j + 1] for j in range(len(paths) - 1)):
            bad.append((i, "staging area not strictly ascending: %r" % paths[:6]))
    return bad


# ---------------------------------------------------------------- C07
def diff_spec(idx, head):
    out = []
    for p in head:
        if p not in idx:
            out.append(b"staged-deleted " + p)
        elif idx[p] != head[p]:
            out.append(b"staged-modified " + p)
    for p in idx:
        if p not in head:
            out.append(b"staged-new " + p)
    return sorted(out)


def o_c07(recs):
    bad = []
    for i, r in enumerate(recs):
        if not r.before.inited:
            continue
        st = r.step
        if st.kind != "cmd":
            continue
        b, a = r.before, r.after
        if st.name == "status" and r.res.cls == "ok":
            got = [l for l in parse_status(r.res.out) if l.startswith(b"staged-")]
            want = diff_spec(staged(b), head_snapshot(b))
            if got != want:
                bad.append((i, "status staged section %r expected %r" % (got[:4], want[:4])))
        if st.name == "commit":
            name, email = identity(b)
            if name is None or email is None:
                continue
            same = staged(b) == head_snapshot(b)
            if same and r.res.cls == "ok":
                bad.append((i, "commit with nothing staged succeeded"))
            if same and r.res.cls == "err":
                if a.refs != b.refs or any(a.objects[k].startswith(b"commit ") for k in r.new_objs if a.objects[k]):
                    bad.append((i, "refused commit moved a branch or created a commit"))
            if not same and r.res.cls != "ok" and b"invalid commit object" not in r.res.err:
                bad.append((i, "commit with staged differences failed: %r" % r.res.err[-120:]))
            if r.res.cls == "ok" and diff_spec(staged(a), head_snapshot(a)):
                bad.append((i, "staged differences remain right after a commit"))
    return bad


# ---------------------------------------------------------------- C08
def last_reflog_ids(recs, i):
    """ids shown by the most recent `reflog` with the log file unchanged since"""
    hl = recs[i].before.hlog
    for j in range(i - 1, -1, -1):
        r = recs[j]
        if r.after.hlog != hl:
            return None
        if r.step.kind == "cmd" and r.step.name == "reflog" and r.res.cls == "ok":
            return [l.split(b" ")[0] for l in parse_reflog(r.res.out)]
    return None


def o_c08(recs):
    bad = []
    for i, r in enumerate(recs):
        if not r.before.inited:
            continue
        st = r.step
        if st.kind != "cmd" or st.name != "reset":
            continue
        b, a = r.before, r.after
        arg = [x for x in st.argv[1:] if not x.startswith(b"--") or x == b"--"][-1]
        mode = "soft" if b"--soft" in st.argv else "hard" if b"--hard" in st.argv else "mixed"
        m = re.fullmatch(rb"HEAD@\{(\d+)\}", arg)
        lines = [l for l in (b.hlog or b"").split(b"\n") if l]
        n = int(m.group(1)) if m else None
        valid = m is not None and n < len(lines)
        target = None
        if valid:
            target = lines[len(lines) - 1 - n].split(b" ")[1]
            if target == b"0" * 40:
                valid = False
        if not valid:
            if r.res.cls == "ok":
                bad.append((i, "reset %r accepted" % arg))
            elif not unchanged(b, a):
                bad.append((i, "refused reset changed %s" % what_changed(b, a)))
            continue
        if r.res.cls != "ok":
            if not fd_conflict(b) and not (mode == "hard" and wt_blocks(b, bytes.fromhex(target.decode()))):
                bad.append((i, "valid reset %r failed: %r" % (arg, r.res.err[-160:])))
            continue
        shown = last_reflog_ids(recs, i)
        if shown is not None and n < len(shown) and not target.startswith(shown[n]):
            bad.append((i, "reflog shows %r at %d, log file says %r" % (shown[n], n, target)))
        hb = b.head_branch
        if a.head_raw != b.head_raw:
            bad.append((i, "reset changed HEAD"))
        for nme in set(a.refs) | set(b.refs):
            if nme == hb:
                if a.refs.get(nme) != target:
                    bad.append((i, "branch at %r, expected %r" % (a.refs.get(nme), target)))
            elif a.refs.get(nme) != b.refs.get(nme):
                bad.append((i, "reset changed another branch"))
        tid = bytes.fromhex(target.decode())
        snap = dict(a.flatten(a.commit(tid)["tree"]))
        if mode == "soft":
            if a.index_raw != b.index_raw:
                bad.append((i, "reset --soft changed the staging area"))
        elif staged(a) != snap:
            bad.append((i, "staging area is not the target snapshot"))
        if mode != "hard":
            if a.files != b.files or a.dirs != b.dirs:
                bad.append((i, "reset --%s changed the work tree" % mode))
        else:
            for p, oid in snap.items():
                if a.files.get(p) != a.obj(oid)[1]:
                    bad.append((i, "after reset --hard %r does not hold the committed bytes" % p))
                    break
            for p in set(a.files) | set(b.files):
                if p not in snap and a.files.get(p) != b.files.get(p):
                    bad.append((i, "reset --hard touched %r which is not in the snapshot" % p))
                    break
    return bad


def wt_blocks(s, tid):
    """an untracked file sits where the snapshot needs a directory, or a directory where it needs a file"""
    try:
        snap = dict(s.flatten(s.commit(tid)["tree"]))
    except Exception:
        return True
    for p in snap:
        if p in s.dirs:
            return True
        parts = p.split(b"/")
        for k in range(1, len(parts)):
            if b"/".join(parts[:k]) in s.files:
                return True
    return False


# ---------------------------------------------------------------- C09
def o_c09(recs):
    bad = []
    for i, r in enumerate(recs):
        if not r.before.inited:
            continue
        st = r.step
        if st.kind != "cmd" or st.name not in ("restore", "restore-staged"):
            continue
        b, a = r.before, r.after
        idx = staged(b)
        if idx is None or fd_conflict(b) or self_conflicting(idx):
            continue        # (a staging area holding d and d/x cannot be written to a work tree)
        args = [x for x in st.argv[1:] if x not in (b"--", b"--staged")]
        if st.name == "restore":
            sel, ok = [], bool(args)
            for x in args:
                if x in idx:
                    sel.append(x)
                else:
                    u = [p for p in idx if under(x, p)]
                    if not u:
                        ok = False
                    sel += u
            if not ok:
                if r.res.cls == "ok":
                    bad.append((i, "restore of an unknown path accepted"))
                elif not unchanged(b, a):
                    bad.append((i, "refused restore changed %s" % what_changed(b, a)))
                continue
            blocked = any(p in b.dirs or any(q in b.files for q in _parents(p)) for p in sel)
            if r.res.cls != "ok":
                if not blocked:
                    bad.append((i, "valid restore failed: %r" % r.res.err[-160:]))
                continue
            for p in sel:
                if a.files.get(p) != a.obj(idx[p])[1]:
                    bad.append((i, "restored %r differs from its staged blob" % p))
                    break
            for p in set(a.files) | set(b.files):
                if p not in sel and a.files.get(p) != b.files.get(p):
                    bad.append((i, "restore touched %r" % p))
                    break
            if a.meta != b.meta:
                bad.append((i, "restore changed %s" % what_changed(b, a)))
        else:
            if b.head_branch not in b.refs:
                continue
            head = head_snapshot(b)
            sel, ok = [], bool(args)
            for x in args:
                if x in idx or x in head:
                    sel.append(x)
                else:
                    u = [p for p in list(idx) + list(head) if under(x, p)]
                    if not u:
                        ok = False
                    sel += u
            if not ok:
                if r.res.cls == "ok":
                    bad.append((i, "restore --staged of an unknown path accepted"))
                elif not unchanged(b, a):
                    bad.append((i, "refused restore --staged changed %s" % what_changed(b, a)))
                continue
            if r.res.cls != "ok":
                # the same path named twice (directly or through a directory) may fail the second time
                if not any(i != j and (a_ == b_ or under(a_, b_)) for i, a_ in enumerate(args) for j, b_ in enumerate(args)):
                    bad.append((i, "valid restore --staged failed: %r" % r.res.err[-160:]))
                continue
            exp = dict(idx)
            for p in sel:
                if p in head:
                    exp[p] = head[p]
                else:
                    exp.pop(p, None)
            if staged(a) != exp:
                diff = [p for p in set(staged(a)) | set(exp) if staged(a).get(p) != exp.get(p)]
                bad.append((i, "staging area after restore --staged differs at %r" % sorted(diff)[:4]))
            if a.files != b.files or a.dirs != b.dirs:
                bad.append((i, "restore --staged touched the work tree"))
    return bad


def _parents(p):
    parts = p.split(b"/")
    return [b"/".join(parts[:k]) for k in range(1, len(parts))]


# ---------------------------------------------------------------- C10
def name_ok(n):
    return n not in (b"", b".", b"..") and b"/" not in n and b"\\" not in n and all(c >= 0x20 and c != 0x7f for c in n)


def o_c10(recs):
    bad = []
    for i, r in enumerate(recs):
        if not r.before.inited:
            continue
        st = r.step
        if st.kind != "cmd":
            continue
        b, a = r.before, r.after
        refs, hb = dict(b.refs), b.head_branch
        exp_refs, exp_head, must = None, hb, None
        cur = refs.get(hb)
        if st.name == "branch":
            n = st.argv[-1]
            if cur is not None and n not in refs and name_ok(n):
                exp_refs = dict(refs); exp_refs[n] = cur; must = "ok"
            else:
                must = "refuse"
        elif st.name == "branch-flags":
            # a positional name, --list, --rename, --delete: exactly one mode may be given
            modes = sum([any(not x.startswith(b"--") for x in st.argv[1:] if x != b"--"), b"--list" in st.argv,
                         any(x.startswith(b"--rename=") for x in st.argv), any(x.startswith(b"--delete=") for x in st.argv)])
            names = [x for x in st.argv[1:] if not x.startswith(b"--")]
            if modes != 1 or len(names) > 1:
                must = "refuse"
            else:
                continue
        elif st.name == "branch-delete":
            n = st.argv[1].split(b"=", 1)[1]
            if n != hb and n in refs:
                exp_refs = dict(refs); del exp_refs[n]; must = "ok"
            else:
                must = "refuse"
        elif st.name == "branch-rename":
            n = st.argv[1].split(b"=", 1)[1]
            if n == b"":
                must = "refuse"
            elif cur is not None and n not in refs and name_ok(n):
                exp_refs = dict(refs); del exp_refs[hb]; exp_refs[n] = cur; exp_head = n; must = "ok"
            else:
                must = "refuse"
        elif st.name == "switch":
            n = st.argv[-1]
            if n in refs and cur is not None:
                exp_refs = refs; exp_head = n; must = "ok"
            else:
                must = "refuse"
        elif st.name == "switch-c":
            n = st.argv[1].split(b"=", 1)[1]
            if n == b"":
                must = "refuse"
            elif cur is not None and n not in refs and name_ok(n):
                exp_refs = dict(refs); exp_refs[n] = cur; exp_head = n; must = "ok"
            else:
                must = "refuse"
        elif st.name == "update-ref":
            ref, h = st.argv[-2], st.argv[-1]
            n = ref.split(b"/")[-1]
            good = ref.startswith(b"refs/heads/") and re.fullmatch(rb"[0-9a-f]{40}", h) is not None
            if good:
                try:
                    o = b.obj(bytes.fromhex(h.decode()))
                except ValueError:
                    o = None
                good = o is not None and o[0] == b"commit" and n in refs
            if good:
                exp_refs = dict(refs); exp_refs[n] = h; must = "ok"
                exp_head = None          # the property is silent about HEAD here
            else:
                must = "refuse" if ref.startswith(b"refs/heads/") or b"refs/heads/" not in ref else None
        elif st.name == "branch-list" and r.res.cls == "ok":
            want = [(b"* " if n == hb else b"") + n for n in sorted(refs)]
            got = [l for l in r.res.out.split(b"\n") if l]
            if got != want:
                bad.append((i, "branch --list printed %r, stored %r" % (got, want)))
        elif st.name == "rev-parse" and r.res.cls == "ok":
            names = [x for x in st.argv[1:] if x != b"--"]
            want = [refs.get(hb if n == b"HEAD" else n) for n in names]
            got = [l for l in r.res.out.split(b"\n") if l]
            if got != want:
                bad.append((i, "rev-parse printed %r, stored %r" % (got, want)))
        if must == "ok":
            if r.res.cls != "ok":
                bad.append((i, "%s refused: %r" % (st.name, r.res.err[-120:])))
            else:
                if a.refs != exp_refs:
                    bad.append((i, "%s: branches %r expected %r" % (st.name, a.refs, exp_refs)))
                if exp_head is not None and a.head_branch != exp_head:
                    bad.append((i, "%s: HEAD names %r expected %r" % (st.name, a.head_branch, exp_head)))
        elif must == "refuse":
            if r.res.cls == "ok":
                bad.append((i, "%s accepted but should be refused" % st.name))
            elif not unchanged(b, a):
                bad.append((i, "refused %s changed %s" % (st.name, what_changed(b, a))))
    return bad


# ---------------------------------------------------------------- C11
def o_c11(recs):
    bad = []
    last = None            # (hlog bytes at that time, parsed reflog)
    mover = None           # the last command that changed a branch or HEAD
    for i, r in enumerate(recs):
        if not r.before.inited:
            continue
        st = r.step
        if st.kind != "cmd":
            continue
        b, a = r.before, r.after
        if a.refs != b.refs or a.head_raw != b.head_raw:
            mover = st.name
        if b.hlog is not None and (a.hlog is None or not a.hlog.startswith(b.hlog)):
            bad.append((i, "logs/HEAD was rewritten, not appended to"))
        if st.name == "reflog":
            if r.res.cls != "ok":
                if b.hlog is not None:
                    bad.append((i, "reflog failed on a history Goit made: %r" % r.res.err[-120:]))
                continue
            cur = parse_reflog(r.res.out)
            if any(l.startswith(b"?? ") for l in cur):
                bad.append((i, "unparsable reflog line %r" % [l for l in cur if l.startswith(b"?? ")][:1]))
                continue
            ent = [l.split(b" ", 2) for l in cur]
            if [e[1] for e in ent] != [b"%d" % k for k in range(len(ent))]:
                bad.append((i, "reflog positions are not 0..n-1"))
            jl = [l for l in (b.hlog or b"").split(b"\n") if l]
            nlines = len(jl)
            if len(ent) != nlines:
                bad.append((i, "reflog shows %d entries, the journal holds %d" % (len(ent), nlines)))
            else:
                # entry n shows the first seven digits of the id the n-th newest journal line records
                want = [l.split(b" ")[1][:7] for l in reversed(jl) if len(l.split(b" ")) > 1]
                if [e[0] for e in ent] != want:
                    k = next(k for k in range(len(want)) if k >= len(ent) or ent[k][0] != want[k])
                    bad.append((i, "reflog shows id %r at position %d, the journal records %r there" % (ent[k][0], k, want[k])))
            if last is not None and b.hlog.startswith(last[0]):
                old = [e[0] + b" " + e[2] for e in last[1]]
                new = [e[0] + b" " + e[2] for e in ent]
                if old and new[len(new) - len(old):] != old:
                    bad.append((i, "earlier reflog entries changed"))
            t = tip(b)
            if ent and t is not None and mover in ("commit", "switch", "switch-c", "reset"):
                # right after a commit / switch / reset the newest entry names the commit HEAD resolves to
                # (update-ref, branch --rename ... move things without that promise)
                kind = ent[0][2].split(b" ")[0]
                if kind in (b"commit", b"checkout", b"reset") and not t.hex().encode().startswith(ent[0][0]):
                    bad.append((i, "HEAD@{0} shows %r but HEAD resolves to %s" % (ent[0][0], t.hex()[:7])))
            last = (b.hlog, ent)
        if st.name in ("commit", "switch", "switch-c", "reset") and r.res.cls == "ok":
            added = (a.hlog or b"")[len(b.hlog or b""):]
            if not added:
                bad.append((i, "%s added no journal entry" % st.name))
            else:
                kind = {"commit": b"commit", "switch": b"checkout", "switch-c": b"checkout", "reset": b"reset"}[st.name]
                lastline = [l for l in added.split(b"\n") if l][-1] if [l for l in added.split(b"\n") if l] else b""
                _, tab, tail = lastline.partition(b"\t")
                t = tip(a)
                if not tail.startswith(kind + b": "):
                    bad.append((i, "journal entry kind is %r, expected %r" % (tail[:12], kind)))
                if t is not None and lastline.split(b" ")[1:2] != [t.hex().encode()]:
                    bad.append((i, "journal entry does not name the commit HEAD resolves to"))
                if b"\n" in added.rstrip(b"\n") and st.name != "switch-c":
                    if len([l for l in added.split(b"\n") if l]) != 1:
                        bad.append((i, "%s added %d journal lines" % (st.name, len([l for l in added.split(b'\n') if l]))))
    return bad


# ---------------------------------------------------------------- C12
def o_c12(recs):
    bad = []
    for i, r in enumerate(recs):
        if not r.before.inited:
            continue
        st = r.step
        if st.kind != "cmd" or st.name != "commit":
            continue
        b, a = r.before, r.after
        name, email = identity(b)
        if name is None or email is None or staged(b) == head_snapshot(b):
            continue
        okname = b"<" not in name and b"\n" not in name
        okmail = re.fullmatch(rb"[a-zA-Z0-9_.+-]+@([a-zA-Z0-9][a-zA-Z0-9-]*\.)+[a-zA-Z]{2,}", email) is not None
        if not (okname and okmail):
            continue
        if r.res.cls != "ok":
            bad.append((i, "commit failed under TZ offset %d: %r" % (r.off, r.res.err[-120:])))
            continue
        cid = tip(a)
        c = a.commit(cid)
        for who in ("author", "committer"):
            line = c[who]
            if not re.fullmatch(rb".* <.*> \d+ [+-]\d{4}", line, re.S):
                bad.append((i, "%s line %r is not 'Name <email> secs +HHMM'" % (who, line)))
                continue
            sg = parse_sign(line)
            if sg["off"] != r.off:
                bad.append((i, "%s offset %d, process offset %d" % (who, sg["off"], r.off)))
            if sg["name"] != name or sg["email"] != email:
                bad.append((i, "%s identity differs" % who))
        msg = st.argv[2] if len(st.argv) == 3 and st.argv[1] == "-m" else None
        if msg is not None:
            msg = msg if isinstance(msg, bytes) else msg.encode()
            if c["message"] != msg + b"\n":
                bad.append((i, "stored message %r, given %r" % (c["message"][:80], msg[:80])))
    return bad + o_log_entries(recs, "C12")


def log_expected(b, hex_ids):
    """what `log` must print for these commits, from an independent reading of the stored objects
    (None when an author line is outside the Git form or the instant outside the calendar)"""
    ents = []
    for h in hex_ids:
        c = b.commit(bytes.fromhex(h.decode()))
        sg = parse_sign(c["author"]) if c["author"] is not None else None
        if sg is None:
            return None
        msg = c["message"][:-1] if c["message"].endswith(b"\n") else c["message"]
        ents.append((h, sg["name"], sg["email"], sg["time"], sg["off"], msg))
    return render_log(ents)


def o_log_entries(recs, prop):
    """every entry `log` prints carries the name, e-mail, instant, UTC offset and message its object holds"""
    bad = []
    for i, r in enumerate(recs):
        st = r.step
        if not r.before.inited or st.kind != "cmd" or st.name != "log" or r.res.cls != "ok":
            continue
        try:
            want = log_expected(r.before, parse_log(r.res.out))
        except Exception:
            continue
        if want is not None and want != r.res.out:
            k = 0
            while k < min(len(want), len(r.res.out)) and want[k] == r.res.out[k]:
                k += 1
            bad.append((i, "log shows %r where the stored commit says %r" %
                        (r.res.out[max(0, k - 50):k + 40], want[max(0, k - 50):k + 40])))
    return bad


# ---------------------------------------------------------------- C13
def o_c13(recs):
    bad = []
    for i, r in enumerate(recs):
        if not r.before.inited:
            continue
        st = r.step
        if st.kind != "cmd" or st.name != "status" or r.res.cls != "ok":
            continue
        b = r.before
        idx = staged(b)
        if idx is None:
            continue
        got = [l for l in parse_status(r.res.out) if not l.startswith(b"staged-")]
        want = []
        for p, oid in idx.items():
            if p in b.files:
                if githash(b.files[p]) != oid:
                    want.append(b"modified " + p)
            else:
                want.append(b"deleted " + p)
        dc = set()
        for p in b.files:
            if p not in idx:
                ex = excluded(b, p)
                if ex is None:
                    dc.add(b"untracked " + p)
                elif not ex:
                    want.append(b"untracked " + p)
        got = [l for l in got if l not in dc]
        if got != sorted(want):
            gs, ws = set(got), set(want)
            bad.append((i, "status: unexpected %r, missing %r" % (sorted(gs - ws)[:4], sorted(ws - gs)[:4])))
    return bad


# ---------------------------------------------------------------- C14
def o_c14(recs):
    bad = []
    for i, r in enumerate(recs):
        if not r.before.inited:
            continue
        st = r.step
        if st.kind != "cmd" or st.name != "log":
            continue
        b = r.before
        t = tip(b)
        if t is None:
            continue
        k = int(st.argv[2]) if len(st.argv) > 2 else 5
        chain, cur, seen = [], t, set()
        while cur is not None and cur not in seen:
            seen.add(cur)
            chain.append(cur.hex().encode())
            ps = b.commit(cur)["parents"]
            cur = ps[0] if ps else None
        want = chain[:max(k, 0)]
        if r.res.cls != "ok":
            bad.append((i, "log failed: %r" % r.res.err[-120:]))
            continue
        got = parse_log(r.res.out)
        if got != want:
            bad.append((i, "log -n %d listed %d commits %r, expected %d %r" %
                        (k, len(got), got[:2], len(want), want[:2])))
    return bad + o_log_entries(recs, "C14")


# ---------------------------------------------------------------- C17
def o_c17(recs):
    bad = []
    for i, r in enumerate(recs):
        if not r.before.inited:
            continue
        st = r.step
        if st.kind != "cmd":
            continue
        b, a = r.before, r.after
        if st.name == "add" and r.res.cls == "ok":
            old = staged(b) or {}
            for p, oid in (staged(a) or {}).items():
                if old.get(p) != oid and excluded(b, p) is True:
                    bad.append((i, "add staged the excluded path %r" % p))
                    break
        if st.name == "status" and r.res.cls == "ok":
            for l in parse_status(r.res.out):
                if l.startswith(b"untracked "):
                    p = l[len(b"untracked "):]
                    if excluded(b, p) is True:
                        bad.append((i, "status lists the excluded path %r" % p))
                        break
            if not ignore_entries(b):
                listed = {l.split(b" ", 1)[1] for l in parse_status(r.res.out) if not l.startswith(b"staged-")}
                idx = staged(b) or {}
                for p in b.files:
                    if p not in idx and p not in listed:
                        bad.append((i, "no .goitignore, yet %r is hidden from status" % p))
                        break
        if st.name in ("reset", "restore", "restore-staged"):
            for k in set(a.meta) | set(b.meta):
                if a.meta.get(k) != b.meta.get(k) and not (k == b"index" or k.startswith(b"refs/") or k.startswith(b"logs/")):
                    bad.append((i, "%s overwrote .goit/%s" % (st.name, k.decode("latin1"))))
    return bad


# ---------------------------------------------------------------- C18
def o_c18(recs):
    bad = []
    for i, r in enumerate(recs):
        if not r.before.inited:
            continue
        st = r.step
        if st.kind != "cmd":
            continue
        if r.res.cls in ("panic", "timeout"):
            bad.append((i, "%s: exit %s, stderr %r" % (r.res.cls, r.res.code, r.res.err[:200])))
        elif r.res.cls == "err" and not fd_conflict(r.before):
            if st.name in ("add", "rm", "restore", "restore-staged"):
                # a path named twice: valid when the arguments were checked, the second occurrence can fail
                # after the first one did its work; a failure after partial work is not a refusal for
                # invalid arguments
                args = [x for x in st.argv[1:] if x not in (b"--", b"--staged")]
                if any(i != j and (a == b_ or under(a, b_)) for i, a in enumerate(args) for j, b_ in enumerate(args)):
                    continue
            if st.name in ("reset", "reset-flags") and b"--hard" in [x for x in st.argv if isinstance(x, bytes)] + \
                    [x.encode() for x in st.argv if isinstance(x, str)] and worktree_obstructs(r.before):
                continue
            if not unchanged(r.before, r.after, objects=False) and not snapshot_conflict(r.before):
                bad.append((i, "refused command changed %s" % what_changed(r.before, r.after)))
    return bad


# ---------------------------------------------------------------- C20
def o_c20(recs):
    bad = []
    for i, r in enumerate(recs):
        if not r.before.inited:
            continue
        st = r.step
        if st.kind != "cmd":
            continue
        b, a = r.before, r.after
        if st.name == "config":
            args = [x for x in st.argv[1:] if x not in (b"--", b"--global")]
            glob = b"--global" in st.argv
            if len(args) != 2 or args[0].count(b".") != 1:
                if r.res.cls == "ok":
                    bad.append((i, "malformed config invocation accepted"))
                elif not unchanged(b, a):
                    bad.append((i, "refused config changed %s" % what_changed(b, a)))
                continue
            sec, key = args[0].split(b".")
            val = args[1]
            # whatever the arguments: a `config` that is ACCEPTED never leaves a file no command can load
            # (F51: an empty section name or a line break in an argument did), and one that must be refused
            # (empty section, line break) changes nothing
            hostile = sec == b"" or b"\n" in args[0] or b"\n" in val \
                or b"=" in key or b"\t" in key or key != key.strip(b" \t\n\v\f\r")   # F54: read back as another key
            if r.res.cls == "ok":
                after_any = parse_cfg_file(a.gcfg if glob else a.lcfg)
                if after_any in (None, "bad"):
                    bad.append((i, "config exited 0 and left %s config file unreadable" % ("the global" if glob else "the local")))
                    continue
                if hostile:
                    bad.append((i, "config that must be refused (empty section name, line break, or a key that reads back as another key) was accepted"))
                    continue
            elif hostile:
                if not unchanged(b, a):
                    bad.append((i, "refused config changed %s" % what_changed(b, a)))
                continue
            printable = all(c >= 0x20 and c != 0x7f for c in val) and val == val.strip() and b"  " not in val \
                and val != b"" and all(c > 0x20 and c not in b"=[]" for c in sec + key) and sec and key
            if not printable:
                continue
            if r.res.cls != "ok":
                bad.append((i, "config failed: %r" % r.res.err[-100:]))
                continue
            before = parse_cfg_file(b.gcfg if glob else b.lcfg) or {}
            after = parse_cfg_file(a.gcfg if glob else a.lcfg)
            if after in (None, "bad") or before == "bad":
                bad.append((i, "config file unreadable after write"))
                continue
            exp = {s: dict(kv) for s, kv in before.items()}
            exp.setdefault(sec, {})[key] = val
            if after != exp:
                bad.append((i, "config file holds %r, expected %r" % (after, exp)))
            if (a.lcfg if glob else a.gcfg) != (b.lcfg if glob else b.gcfg):
                bad.append((i, "the other config file changed"))
        if st.name == "commit":
            name, email = identity(b)
            if name is None or email is None:
                if r.res.cls == "ok":
                    bad.append((i, "commit without a full identity succeeded"))
                elif not unchanged(b, a):
                    bad.append((i, "refused commit changed %s" % what_changed(b, a)))
            elif r.res.cls == "ok":
                c = a.commit(tip(a))
                sg = parse_sign(c["author"])
                if sg is None or sg["name"] != name or sg["email"] != email:
                    bad.append((i, "author %r is not the effective identity %r <%r>" % (c["author"], name, email)))
            else:
                okname = b"<" not in name and b"\n" not in name
                okmail = re.fullmatch(rb"[a-zA-Z0-9_.+-]+@([a-zA-Z0-9][a-zA-Z0-9-]*\.)+[a-zA-Z]{2,}", email) is not None
                try:
                    differs = staged(b) is not None and staged(b) != head_snapshot(b)
                except Exception:
                    differs = False
                if okname and okmail and differs and not fd_conflict(b):
                    bad.append((i, "commit refused although the effective identity is %r <%r> and there are staged changes: %r"
                                % (name, email, r.res.err[:100])))
    return bad


def o_c06_addressable(recs):
    """C06, second sentence: a tracked path or tracked directory named to add / rm / restore is found and a
    directory operation selects exactly the tracked paths beneath it — the verdicts of the C04 and C09 oracles
    on the steps whose arguments name something tracked"""
    out = []
    for i, m in o_c04(recs) + o_c09(recs):
        r = recs[i]
        idx = staged(r.before) or {}
        args = [a for a in r.step.argv[1:] if isinstance(a, bytes) and not a.startswith(b"--")]
        if any(a in idx or any(under(a, q) for q in idx) for a in args):
            out.append((i, m))
    return out


def o_c11_reset_agrees(recs):
    """C11, last clause: `reset HEAD@{n}` resolves position n to the entry `reflog` shows there (C08 oracle's
    verdict on reset steps)"""
    keep = ("reflog shows", "branch at", "accepted", "valid reset")
    return [(i, m) for i, m in o_c08(recs)
            if recs[i].step.kind == "cmd" and recs[i].step.name == "reset" and any(k in m for k in keep)]


def o_c08_positions(recs):
    """C08 resolves HEAD@{n} against what `reflog` prints: the printed positions must be 0..n-1"""
    return [(i, m) for i, m in o_c11(recs) if "positions" in m]


ORACLES = {
    "C01": [o_c01], "C02": [o_c02], "C03": [o_c03], "C04": [o_c04], "C05": [o_c05], "C06": [o_c06, o_c06_addressable],
    "C07": [o_c07], "C08": [o_c08, o_c08_positions], "C09": [o_c09], "C10": [o_c10], "C11": [o_c11, o_c11_reset_agrees], "C12": [o_c12],
    "C13": [o_c13], "C14": [o_c14], "C17": [o_c17], "C18": [o_c18], "C20": [o_c20],
}
