"""special.py — per-property exploration plans (what is run besides the
generic generated histories) and the evidence bookkeeping."""
import collections
import glob
import json
import multiprocessing
import os
import random

import runner
from hist import step_from_json

VERIF = os.path.dirname(os.path.dirname(os.path.abspath(__file__)))

TRUSTED = [
    "Coq 8.16.1 kernel (coqc; vm_compute used for closed examples; no native_compute)",
    "hand-written Gallina model coq/*.v of cmd/*.go and internal/** (tied to the code by the correspondence run of this check)",
    "tools/srcfacts: Go AST + regexp/syntax translator that regenerates coq/GoRegex.v from /repo on every run",
    "extraction: ExtrOcamlBasic only (bool, option, unit, list, prod, sumbool mapped to OCaml's); no Extract Constant; modeldrv/driver.ml parsing/printing glue",
    "harness: Python readers (zlib, hashlib, struct), output parsers, generators, oracles",
    "modelled not verified: Go's strings/fmt/bufio/strconv/hex/binary/filepath/sort/regexp/os, crypto/sha1 (Sha1.v, validated against hashlib on every object), compress/zlib (outside the model), cobra flag parsing, the Go runtime",
]

ASSUMPTIONS = {
    "*": ["effects reach the disk whole and in program order", "commands are issued from the repository root",
          "no SHA-1 collision among the objects of a history (the model flags one if it happens)"],
    "C12": ["instants are those time.Now() can return (t > 0)"],
    "C15": ["a write(2) is not torn; no kernel or disk reordering; no fsync modelling"],
    "C16": ["all error kinds are identified with one another; Close() is outside the fault domain"],
    "C18": ["real hangs and the Go runtime are observed only through the harness time-out"],
    "C19": ["memory use is observed only through ulimit -v in the harness"],
}


def corpus_cases(prop):
    out = []
    for f in sorted(glob.glob(os.path.join(VERIF, "corpus", prop, "*.json"))):
        with open(f) as fh:
            j = json.load(fh)
        out.append((os.path.basename(f), j, [step_from_json(s) for s in j["steps"]]))
    return out


def _pool():
    return multiprocessing.Pool(min(16, os.cpu_count() or 4))


def generic(prop, goit, sbase, seed, ncases, nsteps, model_ok, stats):
    rng = random.Random(seed)
    seeds = [rng.randrange(1 << 40) for _ in range(ncases)]
    with _pool() as pool:
        results = pool.map(runner.case, [(goit, prop, s, nsteps, sbase) for s in seeds], chunksize=2)
    dist = stats["distribution"]
    seen = set()
    for res in results:
        if res.get("error"):
            stats["notes"].append("harness error in seed %d: %s" % (res["seed"], res["error"][-300:]))
            stats["oracle_failures"].append({"seed": res["seed"], "steps": [], "i": -1, "shrinkable": False,
                                             "msg": "harness error: " + res["error"][-200:], "step_name": ""})
            continue
        stats["evaluations"] += 1
        stats["steps"] += res["n"]
        steps = None
        for nme, cls in zip(res["names"], res["classes"]):
            dist["commands"][nme] += 1
            if cls != "-":
                dist["outcomes"][cls] += 1
        want = runner.PROFILES[prop]["names"]
        hits = [(n, c) for n, c in zip(res["names"], res["classes"]) if (want is None or n in want) and c == "ok"]
        key = tuple(res["names"])
        if hits and key not in seen:
            seen.add(key)
            stats["distinct_nontrivial"] += 1
        if not res["corr"] and not res["corr_other"] and model_ok:
            stats["validated"] += 1
        if res["corr_other"]:
            stats["corr_other"] += 1
        if len(stats["samples"]) < 3:
            stats["samples"].append([s.get("show", s.get("edit")) for s in res["steps"][:14]])
        if res["oracle"] or res["corr"]:
            steps = [step_from_json(s) for s in res["steps"]]
        for i, msg in res["oracle"]:
            stats["oracle_failures"].append({"seed": res["seed"], "steps": steps, "i": i, "msg": msg,
                                             "step_name": res["names"][i] if 0 <= i < len(res["names"]) else ""})
        for i, dd in res["corr"]:
            stats["corr_failures"].append({"seed": res["seed"], "steps": steps, "i": i, "diffs": dd,
                                           "step_name": res["names"][i] if 0 <= i < len(res["names"]) else ""})


def new_stats(rule):
    return {"evaluations": 0, "steps": 0, "distinct_nontrivial": 0, "validated": 0, "corr_other": 0,
            "oracle_failures": [], "corr_failures": [], "samples": [], "notes": [], "rule": rule,
            "distribution": {"commands": collections.Counter(), "outcomes": collections.Counter()}}


def run_corpus(prop, goit, sbase, model_ok, stats):
    for name, j, steps in corpus_cases(prop):
        recs, jd = runner.replay_steps(goit, prop, steps, tz=j.get("tz", "UTC"), tz_offset=j.get("tz_offset", 0),
                                       base=sbase, with_model=model_ok)
        stats["evaluations"] += 1
        stats["steps"] += len(recs)
        stats["distribution"]["commands"]["corpus:" + name] += 1
        for i, msg in jd["oracle"]:
            stats["oracle_failures"].append({"seed": None, "steps": steps, "i": i, "msg": msg,
                                             "step_name": steps[i].name if 0 <= i < len(steps) and steps[i].kind == "cmd" else "",
                                             "extra": "corpus " + name})
        for i, dd in jd["corr"]:
            stats["corr_failures"].append({"seed": None, "steps": steps, "i": i, "diffs": dd,
                                           "step_name": steps[i].name if steps[i].kind == "cmd" else ""})


def run_property(prop, goit, sbase, seed, tier, ncases, nsteps, model_ok):
    rule = ("histories of %d steps generated state-aware from one PRNG (seed) with the %s profile, run on the goit "
            "binary built from /repo and replayed on the extracted Coq model; a history is non-trivial when it "
            "contains at least one accepted command of the property's own kind, distinct by its command-name sequence"
            % (nsteps, prop))
    stats = new_stats(rule)
    run_corpus(prop, goit, sbase, model_ok, stats)
    extra = EXTRA.get(prop)
    if extra:
        extra(prop, goit, sbase, seed, tier, model_ok, stats)
    if ncases > 0 and prop not in NO_GENERIC:
        generic(prop, goit, sbase, seed, ncases, nsteps, model_ok, stats)
    stats["distribution"] = {k: dict(v) for k, v in stats["distribution"].items()}
    return stats


def replay(prop, goit, j, steps, sbase):
    """-> list of failure messages for a stored replay"""
    if j.get("kind") == "broken-obligation" and not steps:
        return ["obligation recorded as broken: %s" % j.get("broken")]
    handler = REPLAY.get(j.get("kind"))
    if handler:
        return handler(prop, goit, j, steps, sbase)
    recs, jd = runner.replay_steps(goit, prop, steps, tz=j.get("tz", "UTC"), tz_offset=j.get("tz_offset", 0), base=sbase)
    out = ["step %d: %s" % (i, m) for i, m in jd["oracle"]]
    out += ["step %d: model/implementation differ: %s" % (i, "; ".join(d)) for i, d in jd["corr"]]
    return out


EXTRA = {}
REPLAY = {}
NO_GENERIC = set()
