"""special.py — per-property exploration plans (what is run besides the
generic generated histories) and the evidence bookkeeping."""
import collections
import glob
import json
import multiprocessing
import os
import random

import runner
from hist import step_from_json

VERIF = os.path.dirname(os.path.dirname(os.path.abspath(__file__)))

TRUSTED = [
    "Coq 8.16.1 kernel (coqc; vm_compute used for closed examples; no native_compute)",
    "hand-written Gallina model coq/*.v of cmd/*.go and internal/** (tied to the code by the correspondence run of this check)",
    "tools/srcfacts: Go AST + regexp/syntax translator that regenerates coq/SrcRegex.v from /repo on every run; coq/Bridge.v proves every source pattern equivalent to the model's (verified checker RegexEquiv.v, run by vm_compute)",
    "extraction: ExtrOcamlBasic only (bool, option, unit, list, prod, sumbool mapped to OCaml's); no Extract Constant; modeldrv/driver.ml parsing/printing glue",
    "harness: Python readers (zlib, hashlib, struct), output parsers, generators, oracles",
    "modelled not verified: Go's strings/fmt/bufio/strconv/hex/binary/filepath/sort/regexp/os, crypto/sha1 (Sha1.v, validated against hashlib on every object), compress/zlib (outside the model), cobra flag parsing, the Go runtime",
]

ASSUMPTIONS = {
    "*": ["effects reach the disk whole and in program order", "commands are issued from the repository root",
          "no SHA-1 collision among the objects of a history (the model flags one if it happens)"],
    "C12": ["instants are those time.Now() can return (t > 0)"],
    "C15": ["a write(2) is not torn; no kernel or disk reordering; no fsync modelling"],
    "C16": ["all error kinds are identified with one another; Close() is outside the fault domain"],
    "C18": ["real hangs and the Go runtime are observed only through the harness time-out"],
    "C19": ["memory use is observed only through ulimit -v in the harness"],
}


EXTRA = {}
REPLAY = {}
NO_GENERIC = set()


def corpus_cases(prop):
    out = []
    for f in sorted(glob.glob(os.path.join(VERIF, "corpus", prop, "*.json"))):
        with open(f) as fh:
            j = json.load(fh)
        out.append((os.path.basename(f), j, [step_from_json(s) for s in j["steps"]]))
    return out


def _pool():
    return multiprocessing.Pool(min(16, os.cpu_count() or 4))


def generic(prop, goit, sbase, seed, ncases, nsteps, model_ok, stats):
    rng = random.Random(seed)
    seeds = [rng.randrange(1 << 40) for _ in range(ncases)]
    with _pool() as pool:
        results = pool.map(runner.case, [(goit, prop, s, nsteps, sbase) for s in seeds], chunksize=2)
    dist = stats["distribution"]
    seen = set()
    for res in results:
        if res.get("error"):
            stats["notes"].append("harness error in seed %d: %s" % (res["seed"], res["error"][-300:]))
            stats["oracle_failures"].append({"seed": res["seed"], "steps": [], "i": -1, "shrinkable": False,
                                             "msg": "harness error: " + res["error"][-200:], "step_name": ""})
            continue
        stats["evaluations"] += 1
        stats["steps"] += res["n"]
        steps = None
        for nme, cls in zip(res["names"], res["classes"]):
            dist["commands"][nme] += 1
            if cls != "-":
                dist["outcomes"][cls] += 1
        want = runner.PROFILES[prop]["names"]
        hits = [(n, c) for n, c in zip(res["names"], res["classes"]) if (want is None or n in want) and c == "ok"]
        key = tuple(res["names"])
        if hits and key not in seen:
            seen.add(key)
            stats["distinct_nontrivial"] += 1
        if not res["corr"] and not res["corr_other"] and model_ok:
            stats["validated"] += 1
        if res["corr_other"]:
            stats["corr_other"] += 1
        if len(stats["samples"]) < 3:
            stats["samples"].append([s.get("show", s.get("edit")) for s in res["steps"][:14]])
        if res["oracle"] or res["corr"]:
            steps = [step_from_json(s) for s in res["steps"]]
        for i, msg in res["oracle"]:
            stats["oracle_failures"].append({"seed": res["seed"], "steps": steps, "i": i, "msg": msg,
                                             "step_name": res["names"][i] if 0 <= i < len(res["names"]) else ""})
        for i, dd in res["corr"]:
            stats["corr_failures"].append({"seed": res["seed"], "steps": steps, "i": i, "diffs": dd,
                                           "step_name": res["names"][i] if 0 <= i < len(res["names"]) else ""})


def new_stats(rule):
    return {"evaluations": 0, "steps": 0, "distinct_nontrivial": 0, "validated": 0, "corr_other": 0,
            "oracle_failures": [], "corr_failures": [], "samples": [], "notes": [], "rule": rule,
            "distribution": {"commands": collections.Counter(), "outcomes": collections.Counter()}}


def run_corpus(prop, goit, sbase, model_ok, stats):
    for name, j, steps in corpus_cases(prop):
        recs, jd = runner.replay_steps(goit, prop, steps, tz=j.get("tz", "UTC"), tz_offset=j.get("tz_offset", 0),
                                       base=sbase, with_model=model_ok and not j.get("oracle_only"))
        stats["evaluations"] += 1
        stats["steps"] += len(recs)
        stats["distribution"]["commands"]["corpus:" + name] += 1
        for i, msg in jd["oracle"]:
            stats["oracle_failures"].append({"seed": None, "steps": steps, "i": i, "msg": msg,
                                             "step_name": steps[i].name if 0 <= i < len(steps) and steps[i].kind == "cmd" else "",
                                             "extra": "corpus " + name})
        for i, dd in jd["corr"]:
            stats["corr_failures"].append({"seed": None, "steps": steps, "i": i, "diffs": dd,
                                           "step_name": steps[i].name if steps[i].kind == "cmd" else ""})


def extraction_crosscheck(prop, goit, sbase, tier, stats):
    """the same histories evaluated by vm_compute on the Coq model itself and by the OCaml extraction
    must give the same final world (HEAD text, branch files, index bytes, object ids)"""
    import coqeval
    from hist import model_lines, run_model, c_init, c_config, c_add, c_commit, Edit
    def _weight(steps):
        # SHA-1 and parsing run inside Coq's VM here: prefer histories with little data
        return sum(len(a) for st in steps for a in (st.argv if st.kind == "cmd" else [st.path, st.data or b""])) + 40 * len(steps)
    cases = sorted([steps for _, _, steps in corpus_cases(prop)], key=_weight)[: (2 if tier == "quick" else 12)]
    if not cases:
        cases = [[c_init(), c_config(b"user.name", b"Al Bo"), c_config(b"user.email", b"a@b.cc"),
                  Edit("write", b"d/x y", b"1"), Edit("write", b"d-a", b"2"), c_add([b"."]), c_commit(b"m: x")]]
    hs, ds = [], []
    try:
        for steps in cases:
            recs = runner.run_steps(goit, steps, len(steps), base=sbase)
            lines = model_lines(recs)
            hs.append(lines)
            ds.append(coqeval.digest_of_mworld(run_model(lines)[-1]))
        cd = coqeval.coq_digests(hs)
    except Exception as e:
        stats["notes"].append("extraction cross-check not run: %r" % (e,))
        return
    ok = cd == ds
    stats["notes"].append("extraction cross-check: %d histories evaluated by vm_compute inside Coq, %s the extracted driver"
                          % (len(hs), "all agree with" if ok else "DIFFER from"))
    if not ok:
        stats["corr_failures"].append({"seed": None, "steps": cases[0], "i": 0, "step_name": "extraction",
                                       "diffs": ["model flagged: the OCaml extraction and vm_compute on the Coq model disagree: %s vs %s" % (ds, cd)]})


def run_property(prop, goit, sbase, seed, tier, ncases, nsteps, model_ok):
    rule = ("histories of %d steps generated state-aware from one PRNG (seed) with the %s profile, run on the goit "
            "binary built from /repo and replayed on the extracted Coq model; a history is non-trivial when it "
            "contains at least one accepted command of the property's own kind, distinct by its command-name sequence"
            % (nsteps, prop))
    stats = new_stats(rule)
    run_corpus(prop, goit, sbase, model_ok, stats)
    if model_ok:
        extraction_crosscheck(prop, goit, sbase, tier, stats)
    extra = EXTRA.get(prop)
    if extra:
        extra(prop, goit, sbase, seed, tier, model_ok, stats)
    if ncases > 0 and prop not in NO_GENERIC:
        generic(prop, goit, sbase, seed, ncases, nsteps, model_ok, stats)
    stats["distribution"] = {k: dict(v) for k, v in stats["distribution"].items()}
    return stats


def replay(prop, goit, j, steps, sbase):
    """-> list of failure messages for a stored replay"""
    if j.get("kind") == "broken-obligation" and not steps:
        return ["obligation recorded as broken: %s" % j.get("broken")]
    handler = REPLAY.get(j.get("kind"))
    if handler:
        return handler(prop, goit, j, steps, sbase)
    recs, jd = runner.replay_steps(goit, prop, steps, tz=j.get("tz", "UTC"), tz_offset=j.get("tz_offset", 0), base=sbase)
    out = ["step %d: %s" % (i, m) for i, m in jd["oracle"]]
    out += ["step %d: model/implementation differ: %s" % (i, "; ".join(d)) for i, d in jd["corr"]]
    return out




# ------------------------------------------------------------------ C12: every quarter-hour zone
C12_NAMES = [b"Al Bo", "Zoë Émile".encode(), b"x", b"a > b", b"Name With  Two Spaces", "名前".encode(),
             b"O'Neil (dev) [x] {y} = z", b"trailing dot.", b"12345"]
C12_EMAILS = [b"a@b.cc", b"first.last+tag@sub.example.org", b"e@x.yy", b"u_n-d.er@a1.b2.museum", b"X@Y.ZZ"]
C12_MSGS = [b"one line", b"subject\n\nbody line one\nbody: with colon\n\nlast", "nön-äscii ✓".encode(),
            b"x" * 3000, b"trailing\n", b"", b"a\n\n\nb", b"tab\there: and colon", b"50% done %s %v",
            b"line1\r\nline2\r", b"cr\rinside", b"\r\n\r\nblank crlf lines\r\n"]


def c12_case(args):
    goit, q, seed, sbase = args
    import core
    import random as _r
    from hist import Edit, c_add, c_cat_file, c_commit, c_config, c_init, c_log
    rng = _r.Random(seed * 1000 + q)
    off = q * 900
    d = os.path.join(sbase, "tz")
    os.makedirs(d, exist_ok=True)
    tzf = os.path.join(d, "q%+d.tzif" % q)
    core.make_tzif(tzf, off)
    name, email = rng.choice(C12_NAMES), rng.choice(C12_EMAILS)
    steps = [c_init(), c_config(b"user.name", name), c_config(b"user.email", email),
             Edit("write", b"f", b"1"), c_add([b"f"]), c_commit(rng.choice(C12_MSGS)),
             Edit("write", b"g/h", b"2"), c_add([b"."]), c_commit(rng.choice(C12_MSGS)), c_log(3)]
    try:
        recs = runner.run_steps(goit, steps, len(steps), tz=tzf, tz_offset=off, base=sbase)
        j = runner.judge("C12", recs)
        # the commit objects can be read back by Goit itself
        extra = []
        tips = [r for r in recs if r.step.kind == "cmd" and r.step.name == "commit" and r.res.cls == "ok"]
        if len(tips) != 2:
            extra.append((5, "commit failed under UTC offset %+d s: %r" % (off, [r.res.err[-120:] for r in recs if r.res is not None and r.res.cls != "ok"][:1])))
        return {"q": q, "off": off, "oracle": j["oracle"] + extra, "corr": j["corr"], "corr_other": j["corr_other"],
                "steps": [runner.step_to_json(s) for s in steps], "n": len(recs), "tz": tzf,
                "name": name.decode("utf-8", "replace"), "email": email.decode()}
    except Exception:
        import traceback
        return {"q": q, "off": off, "oracle": [(-1, "harness error " + traceback.format_exc()[-300:])], "corr": [],
                "corr_other": None, "steps": [], "n": 0, "tz": tzf, "name": "", "email": ""}


def extra_c12(prop, goit, sbase, seed, tier, model_ok, stats):
    qs = list(range(-48, 57))
    reps = 1 if tier == "quick" else 6
    jobs = [(goit, q, seed + k, sbase) for k in range(reps) for q in qs]
    with _pool() as pool:
        results = pool.map(c12_case, jobs, chunksize=2)
    offs = collections.Counter()
    for res in results:
        stats["evaluations"] += 1
        stats["steps"] += res["n"]
        offs["%+05d" % (res["off"] // 36)] += 1
        if not res["oracle"] and not res["corr"]:
            stats["distinct_nontrivial"] += 1
            if model_ok and not res["corr_other"]:
                stats["validated"] += 1
        steps = [step_from_json(s) for s in res["steps"]]
        for i, msg in res["oracle"]:
            stats["oracle_failures"].append({"seed": seed, "steps": steps, "i": i, "msg": msg, "shrinkable": False,
                                             "step_name": "commit",
                                             "extra": {"tz_offset": res["off"], "kind": "tz", "name": res["name"], "email": res["email"]}})
        for i, dd in res["corr"]:
            stats["corr_failures"].append({"seed": seed, "steps": steps, "i": i, "diffs": dd, "step_name": "commit"})
    stats["distribution"]["tz_quarter_hours"] = collections.Counter({"distinct offsets": len(set(qs)), "runs": len(jobs)})
    stats["samples"].append({"tz_offsets_seconds": [q * 900 for q in qs[:6]] + ["..."] + [qs[-1] * 900]})


def replay_tz(prop, goit, j, steps, sbase):
    import core
    off = j["extra"]["tz_offset"]
    tzf = os.path.join(sbase, "replay.tzif")
    core.make_tzif(tzf, off)
    recs, jd = runner.replay_steps(goit, prop, steps, tz=tzf, tz_offset=off, base=sbase)
    out = ["step %d: %s" % (i, m) for i, m in jd["oracle"]]
    out += ["step %d: model/implementation differ: %s" % (i, "; ".join(d)) for i, d in jd["corr"]]
    if not any(r.step.kind == "cmd" and r.step.name == "commit" and r.res.cls == "ok" for r in recs):
        out.append("commit failed under UTC offset %+d" % off)
    return out


EXTRA["C12"] = extra_c12
REPLAY["tz"] = replay_tz


# ------------------------------------------------------------------ C19: damaged files
def extra_c19(prop, goit, sbase, seed, tier, model_ok, stats):
    import c19
    c19.run_c19(goit, sbase, seed, tier, model_ok, stats)
    stats["rule"] = ("a repository built by goit; each object file (blob, tree, commit), the index, HEAD, a branch file, "
                     "the config and logs/HEAD is damaged in turn (truncations, byte substitutions, deletions, appends, "
                     "swapped object files, crafted payloads stored under their own SHA-1) and read-only commands are "
                     "run under an address-space limit and a time-out; the verdict of each decoder is compared with "
                     "the Coq model's decoder on the same bytes; every mutation is distinct")


def replay_c19(prop, goit, j, steps, sbase):
    return ["stored C19 finding (re-run the check to re-derive it): %s" % j.get("message")]


EXTRA["C19"] = extra_c19
REPLAY["c19"] = replay_c19
NO_GENERIC.add("C19")


# ------------------------------------------------------------------ C15 / C16: crash points and injected failures
def extra_c15(prop, goit, sbase, seed, tier, model_ok, stats):
    import c15
    c15.run(prop, goit, sbase, seed, tier, model_ok, stats)


def replay_c15(prop, goit, j, steps, sbase):
    """re-run one (scenario, index) trial"""
    import c15
    ex = j.get("extra") or {}
    st = new_stats("")
    shim = c15.build_shim(os.path.join(sbase, "shim-replay"))
    import random as _r
    c15.run_scenario(shim, sbase, ex.get("scenario", "replay"), steps[:-1], steps[-1], ex.get("mode", "crash"), st,
                     _r.Random(0), False, True)
    return [f["msg"] for f in st["oracle_failures"] if (f.get("extra") or {}).get("k") == ex.get("k")]


EXTRA["C15"] = extra_c15
EXTRA["C16"] = extra_c15
REPLAY["c15"] = replay_c15
NO_GENERIC.update({"C15", "C16"})


# ------------------------------------------------------------------ C10: exhaustive interleavings to a depth bound
def c10_ops():
    from hist import (c_branch, c_branch_delete, c_branch_rename, c_switch, c_switch_create, c_update_ref, c_commit,
                      c_reset, Edit, c_add)
    names = [b"a", b"ab", b"main"]
    ops = []
    for n in names:
        ops += [("branch " + n.decode(), [c_branch(n)]), ("delete " + n.decode(), [c_branch_delete(n)]),
                ("rename " + n.decode(), [c_branch_rename(n)]), ("switch " + n.decode(), [c_switch(n)]),
                ("switch-c " + n.decode(), [c_switch_create(n)])]
    ops.append(("update-ref a first", None))          # filled in per run: needs the id of the first commit
    ops.append(("commit", [Edit("write", b"g", b"more"), c_add([b"g"]), c_commit(b"next")]))
    ops.append(("reset", [c_reset("soft", b"HEAD@{1}")]))
    return ops


def c10_case(args):
    goit, seq, sbase = args
    from hist import Edit, c_add, c_commit, c_config, c_init, c_update_ref, c_branch_list, c_rev_parse
    import hashlib
    ops = c10_ops()
    pre = [c_init(), c_config(b"user.name", b"Al Bo"), c_config(b"user.email", b"a@b.cc"),
           Edit("write", b"f", b"1"), c_add([b"f"]), c_commit(b"first"),
           Edit("write", b"f", b"2"), c_add([b"f"]), c_commit(b"second")]
    try:
        steps = list(pre)
        for i in seq:
            name, st = ops[i]
            steps += st if st is not None else [None]        # None: update-ref to the first commit, resolved online
        steps += [c_branch_list(), c_rev_parse([b"HEAD"])]

        def nxt(snap, i):
            if i >= len(steps):
                return None
            if steps[i] is None:
                lines = [l for l in (snap.hlog or b"").split(b"\n") if l]
                first = lines[0].split(b" ")[1].decode() if lines else "0" * 40
                steps[i] = c_update_ref(b"refs/heads/a", first)
            return steps[i]
        recs = runner.run_steps(goit, nxt, len(steps), base=sbase)
        j = runner.judge("C10", recs)
        return {"seq": [ops[i][0] for i in seq], "oracle": j["oracle"], "corr": j["corr"], "n": len(recs),
                "steps": [runner.step_to_json(s) for s in steps],
                "state": hashlib.sha1(repr((sorted(recs[-1].after.refs.items()), recs[-1].after.head_raw)).encode()).hexdigest()}
    except Exception:
        import traceback
        return {"seq": list(seq), "oracle": [(-1, "harness error " + traceback.format_exc()[-300:])], "corr": [], "n": 0,
                "steps": [], "state": ""}


def extra_c10(prop, goit, sbase, seed, tier, model_ok, stats):
    import itertools
    nops = len(c10_ops())
    depth = 2 if tier == "quick" else 3
    seqs = [s for d in range(1, depth + 1) for s in itertools.product(range(nops), repeat=d)]
    with _pool() as pool:
        results = pool.map(c10_case, [(goit, s, sbase) for s in seqs], chunksize=4)
    states = set()
    for res in results:
        stats["evaluations"] += 1
        stats["steps"] += res["n"]
        states.add(res["state"])
        if not res["oracle"] and not res["corr"]:
            stats["validated"] += 1
        steps = [step_from_json(s) for s in res["steps"]]
        for i, msg in res["oracle"]:
            stats["oracle_failures"].append({"seed": None, "steps": steps, "i": i, "msg": msg,
                                             "step_name": steps[i].name if 0 <= i < len(steps) and steps[i].kind == "cmd" else ""})
        for i, dd in res["corr"]:
            stats["corr_failures"].append({"seed": None, "steps": steps, "i": i, "diffs": dd,
                                           "step_name": steps[i].name if steps[i].kind == "cmd" else ""})
    stats["distinct_nontrivial"] += len(states)
    stats["distribution"]["commands"]["exhaustive-depth-%d" % depth] = len(seqs)
    stats["samples"].append({"exhaustive": "all %d sequences of length <= %d over %d branch/switch/update-ref/commit/reset "
                             "operations on names a, ab, main, after two commits; %d distinct final (refs, HEAD) states"
                             % (len(seqs), depth, nops, len(states))})
    stats["notes"].append("exhaustive C10 exploration to depth %d complete: exhaustive within that bound" % depth)


EXTRA["C10"] = extra_c10


# ------------------------------------------------------------------ C01: large and awkward contents
def c01_case(args):
    goit, kind, size, seed, sbase = args
    import hashlib, random as _r, zlib
    import core
    rng = _r.Random(seed)
    if kind == "zeros":
        data = b"\0" * size
    elif kind == "random":
        data = rng.randbytes(size)
    elif kind == "text":
        data = (b"line %d of some text\n" * 1)[:0] + b"".join(b"line %d\n" % i for i in range(size // 8))[:size]
    elif kind == "header-like":
        data = (b"blob %d\0" % size) + rng.randbytes(max(0, size - 12))
    else:
        data = bytes(range(256)) * (size // 256 + 1)
        data = data[:size]
    sb = core.Sandbox(goit, base=sbase)
    bad = []
    try:
        sb.run([b"init"])
        sb.write(b"big", data)
        want = hashlib.sha1(b"blob %d\0" % len(data) + data).hexdigest().encode()
        r = sb.run([b"hash-object", b"big"], timeout=60)
        if r.cls != "ok" or r.out.strip() != want:
            bad.append("hash-object of %d %s bytes printed %r, Git's id is %r" % (len(data), kind, r.out[:50], want))
        r = sb.run([b"add", b"big"], timeout=60)
        if r.cls != "ok":
            bad.append("add of %d %s bytes failed: %r" % (len(data), kind, r.err[-100:]))
        p = os.path.join(sb.work, ".goit", "objects", want[:2].decode(), want[2:].decode())
        raw = core.read_file(p)
        if raw is None:
            bad.append("no object file for %d %s bytes" % (len(data), kind))
        else:
            try:
                if zlib.decompress(raw) != b"blob %d\0" % len(data) + data:
                    bad.append("object file of %d %s bytes does not inflate to header+content" % (len(data), kind))
            except zlib.error as e:
                bad.append("object file of %d %s bytes does not inflate: %s" % (len(data), kind, e))
        r = sb.run([b"cat-file", b"-t", want], timeout=60)
        if r.cls != "ok" or r.out != b"blob\n":
            bad.append("cat-file -t of a %d-byte %s blob: %s %r %r" % (len(data), kind, r.cls, r.out[:20], r.err[-80:]))
        r = sb.run([b"cat-file", b"-p", want], timeout=60)
        if r.cls != "ok" or r.out != data + b"\n":
            bad.append("cat-file -p of a %d-byte %s blob does not return its bytes (%s, %d bytes back)" % (len(data), kind, r.cls, len(r.out)))
        # storing it again must not damage it
        r = sb.run([b"add", b"big"], timeout=60)
        if core.read_file(p) is None or zlib.decompress(core.read_file(p)) != b"blob %d\0" % len(data) + data:
            bad.append("re-adding damaged the stored object")
    finally:
        sb.close()
    return {"kind": kind, "size": size, "bad": bad}


def extra_c01(prop, goit, sbase, seed, tier, model_ok, stats):
    sizes = [0, 1, 32757, 32758, 32768, 40000, 65535, 65536, 65537, 200000, 1 << 20]
    if tier == "thorough":
        sizes += [3 << 20, 8 << 20, 100003, 131072, 524288]
    kinds = ["zeros", "random", "text", "header-like", "allbytes"]
    jobs = [(goit, k, s, seed + i, sbase) for i, (k, s) in enumerate((k, s) for s in sizes for k in kinds)]
    with _pool() as pool:
        results = pool.map(c01_case, jobs, chunksize=1)
    for res in results:
        stats["evaluations"] += 1
        stats["distinct_nontrivial"] += 1
        stats["distribution"]["commands"]["large-blob:%s" % res["kind"]] += 1
        for b in res["bad"]:
            stats["oracle_failures"].append({"seed": seed, "steps": [], "i": 0, "msg": b, "shrinkable": False,
                                             "step_name": "cat-file", "extra": {"kind": "c01", "content": res["kind"], "size": res["size"]}})
    stats["samples"].append({"large_contents": {"sizes": sizes, "kinds": kinds,
                                               "note": "implementation + independent zlib/SHA-1 readers only; the model's formula "
                                                       "obj_id = sha1(header ++ bytes) is evaluated by hashlib for these sizes"}})


def replay_c01(prop, goit, j, steps, sbase):
    ex = j.get("extra") or {}
    return c01_case((goit, ex.get("content", "random"), ex.get("size", 40000), j.get("seed") or 0, sbase))["bad"]


EXTRA["C01"] = extra_c01
REPLAY["c01"] = replay_c01


# ------------------------------------------------------------------ C14: histories whose snapshots recur
def c14_case(args):
    goit, seed, sbase = args
    import random as _r
    from hist import Edit, c_add, c_commit, c_config, c_init, c_log, c_reset, c_switch, c_switch_create
    rng = _r.Random(seed)
    steps = [c_init(), c_config(b"user.name", b"Al Bo"), c_config(b"user.email", b"a@b.cc")]
    state = {}
    ncommits = 0
    for _ in range(rng.randrange(3, 13)):
        f = rng.choice([b"f", b"g"])
        v = rng.choice([x for x in (b"one\n", b"two\n", b"") if state.get(f) != x])
        state[f] = v
        steps += [Edit("write", f, v), c_add([f]), c_commit(b"c%d" % ncommits)]
        ncommits += 1
        r = rng.random()
        if r < 0.25:
            steps.append(c_log(rng.choice([None, 0, 1, 2, ncommits, ncommits + 3, 50])))
        elif r < 0.33 and ncommits >= 2:
            steps.append(c_reset("soft", b"HEAD@{1}"))
        elif r < 0.40:
            steps.append(c_switch_create(b"b%d" % ncommits))
        elif r < 0.45:
            steps.append(c_switch(b"main"))
    steps += [c_log(50), c_log(), c_log(ncommits), c_log(1), c_log(0)]
    try:
        recs = runner.run_steps(goit, steps, len(steps), base=sbase)
        j = runner.judge("C14", recs)
        return {"oracle": j["oracle"], "corr": j["corr"], "n": len(recs), "steps": [runner.step_to_json(s) for s in steps],
                "commits": ncommits}
    except Exception:
        import traceback
        return {"oracle": [(-1, "harness error " + traceback.format_exc()[-300:])], "corr": [], "n": 0, "steps": [], "commits": 0}


def extra_c14(prop, goit, sbase, seed, tier, model_ok, stats):
    n = 32 if tier == "quick" else 400
    with _pool() as pool:
        results = pool.map(c14_case, [(goit, seed * 7919 + i, sbase) for i in range(n)], chunksize=2)
    lens = collections.Counter()
    for res in results:
        stats["evaluations"] += 1
        stats["steps"] += res["n"]
        lens[res["commits"]] += 1
        if not res["oracle"] and not res["corr"]:
            stats["validated"] += 1
            stats["distinct_nontrivial"] += 1
        steps = [step_from_json(s) for s in res["steps"]]
        for i, msg in res["oracle"]:
            stats["oracle_failures"].append({"seed": seed, "steps": steps, "i": i, "msg": msg, "step_name": "log"})
        for i, dd in res["corr"]:
            stats["corr_failures"].append({"seed": seed, "steps": steps, "i": i, "diffs": dd, "step_name": "log"})
    stats["distribution"]["history_length_in_commits"] = dict(lens)
    stats["samples"].append({"recurring_snapshots": "3-12 commits flipping two files between three contents (later commits "
                             "repeat the snapshot of earlier ones), resets followed by new commits, branches sharing commits; "
                             "log -n k for k in {default, 0, 1, 2, len, len+3, 50}"})


EXTRA["C14"] = extra_c14
