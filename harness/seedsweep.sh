#!/bin/sh
# seedsweep.sh <seeds...>: all quick checks on the unchanged tree for several seeds, on a scratch copy
copy=/tmp/verif-seedsweep; mkdir -p $copy
rsync -a --delete --exclude .git --exclude replays --exclude evidence --exclude seeded /verif/ $copy/
mkdir -p $copy/replays $copy/evidence; cd $copy
for s in "$@"; do for p in C01 C02 C03 C04 C05 C06 C07 C08 C09 C10 C11 C12 C13 C14 C15 C16 C17 C18 C19 C20; do
  o=$(VERIF_SEED=$s timeout 1500 ./check $p 2>&1); rc=$?
  if [ $rc -ne 0 ]; then echo "seed $s $p rc=$rc"; echo "$o" | grep -v KNOWN | tail -3 | cut -c1-300; cp replays/$p-$s-*.json /verif/build/ 2>/dev/null; fi
done; echo "seed $s done"; done
