"""c19.py — decoders are total: mutated files must give errors, not crashes or
wrong data; the model's decoders must accept exactly what goit accepts."""
import hashlib
import os
import random
import re
import resource
import subprocess
import zlib

import core
from hist import MODELDRV, hx

MEM_LIMIT = 2 << 30


def _limits():
    resource.setrlimit(resource.RLIMIT_AS, (MEM_LIMIT, MEM_LIMIT))


def probe(sb, argv, timeout=10):
    try:
        p = subprocess.run([sb.goit] + argv, cwd=sb.work, env=sb.env(), stdin=subprocess.DEVNULL,
                           capture_output=True, timeout=timeout, preexec_fn=_limits)
        return core.Result(p.returncode, p.stdout, p.stderr)
    except subprocess.TimeoutExpired as t:
        return core.Result(-1, t.stdout or b"", t.stderr or b"", timeout=True)


def model_queries(qs):
    """qs: list of token lists -> list of answers (strings after 'QR ')"""
    if not qs:
        return []
    inp = "\n".join("Q " + " ".join(q) for q in qs) + "\n"
    p = subprocess.run([MODELDRV], input=inp.encode(), capture_output=True)
    if p.returncode != 0:
        raise RuntimeError("model driver failed: " + p.stderr.decode()[-300:])
    return [l[3:] for l in p.stdout.decode().split("\n") if l.startswith("QR ")]


def build_repo(goit, sbase, rng):
    sb = core.Sandbox(goit, base=sbase)
    run = lambda *a: sb.run([x if isinstance(x, bytes) else x.encode() for x in a])
    run("init")
    run("config", "user.name", "Al Bo")
    run("config", "user.email", "a@b.cc")
    sb.write(b"a.txt", b"hello\n")
    sb.write(b"d/x y", b"\x00\x01binary")
    sb.write(b"d/sub/z", b"zz" * 40)
    run("add", ".")
    run("commit", "-m", "first: commit")
    sb.write(b"a.txt", b"changed\n")
    sb.write(b"d-a", b"q")
    run("add", ".")
    run("commit", "-m", "second\nbody line")
    run("branch", "dev")
    run("switch", "dev")
    sb.write(b"n", b"%d" % rng.randrange(1000))
    run("add", "n")
    run("commit", "-m", "third")
    run("switch", "main")
    return sb


def mutations(raw, rng, budget):
    """-> list of (label, bytes)"""
    out = []
    n = len(raw)
    lens = list(range(0, min(n, 48))) + sorted(rng.sample(range(n), min(n, 16)))
    for k in sorted(set(lens)):
        out.append(("truncate@%d" % k, raw[:k]))
    pos = list(range(0, min(n, 32))) + sorted(rng.sample(range(n), min(n, 24)))
    for i in sorted(set(pos)):
        for v in (raw[i] ^ 0xff, 0, 0x0a, 0x20, rng.randrange(256)):
            if v != raw[i]:
                out.append(("subst@%d=%02x" % (i, v), raw[:i] + bytes([v]) + raw[i + 1:]))
        out.append(("delete@%d" % i, raw[:i] + raw[i + 1:]))
    rng.shuffle(out)
    # always tried, whatever the budget: the boundary cases of every text decoder
    core = [("append-byte", raw + b"\x00"), ("append-x", raw + b"x"), ("append-newline", raw + b"\n"),
            ("prepend-x", b"x" + raw), ("prepend-newline", b"\n" + raw), ("prepend-space", b" " + raw),
            ("append-garbage", raw + bytes(rng.randrange(256) for _ in range(40))), ("empty", b""),
            ("doubled", raw + raw)]
    if n:
        core += [("first-byte-x", b"x" + raw[1:]), ("last-byte-x", raw[:-1] + b"x"), ("upper", raw.upper())]
    # the structure of the line-based files (journals, config, HEAD, branch files): every separator byte of
    # the first and of the last line deleted, replaced, and the file cut right before and right after it --
    # the places where a hand-written splitter indexes into its pieces
    if n and n < 4096 and b"\x00" not in raw[:64]:
        lines = raw.split(b"\n")
        spans, off = [], 0
        for ln in lines:
            spans.append((off, off + len(ln)))
            off += len(ln) + 1
        nonempty = [sp for sp in spans if sp[1] > sp[0]]
        for a, b_ in ([nonempty[0]] + ([nonempty[-1]] if len(nonempty) > 1 else [])) if nonempty else []:
            for i in range(a, b_):
                if raw[i] in b" \t<>:=[]@{}/":
                    core += [("sep-delete@%d" % i, raw[:i] + raw[i + 1:]), ("sep-x@%d" % i, raw[:i] + b"x" + raw[i + 1:]),
                             ("sep-cut-before@%d" % i, raw[:i]), ("sep-cut-after@%d" % i, raw[:i + 1])]
    return core + out[:max(0, budget - len(core))]


CRAFTED_PAYLOADS = [
    b"blob 3\x00abc", b"blob 03\x00abc", b"blob +3\x00abc", b"blob  3\x00abc", b" blob 3\x00abc", b"blob 3 \x00abc",
    b"blob 3junk\x00abc", b"blob -0\x00", b"blob 0", b"blob 0\x00", b"blob\x000", b"", b"\x00", b"blob 4\x00abc",
    b"blob 2\x00abc", b"tree 0\x00", b"tree 3\x00abc", b"commit 0\x00", b"tag 1\x00x", b"blobb 1\x00x",
    b"blob 99999999999999999999\x00x", b"blob 9223372036854775807\x00x", b"blob \n3\x00abc", b"blob \t3\x00abc",
    b"Blob 3\x00abc", b"blob 3\x00abc\x00", b"blob 1\x00\x00", b"blob 3", b"tree 27\x00100644 a\x00" + b"\x11" * 20,
    b"tree 26\x00100644 a\x00" + b"\x11" * 19, b"tree 8\x00100644 a", b"tree 7\x00100644\x00", b"tree 1\x00\x00",
    b"commit 5\x00tree ", b"commit 10\x00tree zzzz\n", b"commit 46\x00tree " + b"a" * 40 + b"\n",
    b"commit 52\x00tree " + b"a" * 40 + b"\n\nmsg\n", b"commit 48\x00parent " + b"0" * 40,
]


FUZZ_TARGETS = {"./internal/object": ["FuzzGetObjectRawFile", "FuzzGetObjectPayload", "FuzzNewCommitData", "FuzzTreeData"],
                "./internal/store": ["FuzzIndexRead", "FuzzNewHead", "FuzzBranchFile", "FuzzConfigLoad", "FuzzReflogLoad"]}


def go_fuzz(sbase, tier, stats):
    """in-module calls of the loaders on generated bytes: the fuzz targets of harness/gofuzz are compiled into
    a scratch copy of the working tree; quick = their seed corpora, thorough = coverage-guided fuzzing"""
    import shutil
    copy = os.path.join(sbase, "repo-copy")
    shutil.copytree(core.REPO, copy, ignore=shutil.ignore_patterns(".git"), symlinks=True)
    here = os.path.join(core.VERIF, "harness", "gofuzz")
    shutil.copy(os.path.join(here, "object_fuzz_test.go"), os.path.join(copy, "internal", "object", "zz_verif_fuzz_test.go"))
    shutil.copy(os.path.join(here, "store_fuzz_test.go"), os.path.join(copy, "internal", "store", "zz_verif_fuzz_test.go"))
    env = core.go_env()
    env["GOFLAGS"] = "-mod=mod"

    def run(args, timeout):
        try:
            p = subprocess.run(["go", "test", "-tags", "verif", "-vet=off", "-count=1"] + args, cwd=copy, env=env,
                               capture_output=True, text=True, timeout=timeout, preexec_fn=None)
            return p.returncode, p.stdout + p.stderr
        except subprocess.TimeoutExpired as t:
            return -1, "timeout: " + str(t.stdout)[-500:]

    def report(pkg, name, out):
        m = re.search(r"panic: (.*)", out)
        stats["oracle_failures"].append({"seed": None, "steps": [], "i": 0, "shrinkable": False, "step_name": "fuzz",
                                         "msg": "in-module decoder %s %s: %s" % (pkg, name, (m.group(0) if m else out[-300:])[:300]),
                                         "extra": {"kind": "c19", "target": name, "log": out[-1500:]}})

    for pkg, names in FUZZ_TARGETS.items():
        rc, out = run(["-run", "^Fuzz", pkg], 300)
        stats["evaluations"] += len(names)
        stats["distribution"]["commands"]["in-module-seed-corpus"] += len(names)
        if rc != 0:
            report(pkg, "seed corpus", out)
        if tier == "thorough":
            for n in names:
                rc, out = run(["-run", "^$", "-fuzz", "^%s$" % n, "-fuzztime", "20s", pkg], 240)
                stats["evaluations"] += 1
                stats["distribution"]["commands"]["in-module-fuzz-20s"] += 1
                if rc != 0:
                    # the fuzzing engine also fails when one of its worker processes dies or stalls (a loaded
                    # machine is enough): the input it was working on is written out, and running exactly that
                    # input again, alone, decides whether the decoder is at fault
                    m = re.search(r"Failing input written to (testdata/fuzz/%s/\w+)" % n, out)
                    if m and "hung or terminated unexpectedly" in out:
                        rc2, out2 = run(["-run", "^%s$/%s$" % (n, os.path.basename(m.group(1))), pkg], 180)
                        if rc2 == 0:
                            stats["notes"].append("fuzz target %s: a worker process died or stalled; the input it was "
                                                  "working on passes when run alone (not a decoder failure)" % n)
                            continue
                        out = out + "\n--- the failing input run alone ---\n" + out2
                    report(pkg, n, out)
    shutil.rmtree(copy, ignore_errors=True)


def run_c19(goit, sbase, seed, tier, model_ok, stats):
    rng = random.Random(seed)
    sb = build_repo(goit, sbase, rng)
    budget = 40 if tier == "quick" else 400
    goitdir = os.path.join(sb.work, ".goit")
    viol = stats["oracle_failures"]
    dist = stats["distribution"]["commands"]

    def note(kind, label, target, msg, data=None):
        viol.append({"seed": seed, "steps": [], "i": 0, "msg": "%s [%s %s]" % (msg, target, label), "shrinkable": False,
                     "step_name": kind, "extra": {"kind": "c19", "target": target, "label": label,
                                                  "data": None if data is None else data.hex()}})

    def bad_class(r):
        return r.cls not in ("ok", "err")

    try:
        try:
            go_fuzz(sbase, tier, stats)
        except Exception as e:
            stats["notes"].append("in-module fuzz targets not run: %r" % (e,))
        snap = core.Snap(sb)
        objs = {}
        for oid, payload in snap.objects.items():
            kind = payload.split(b" ", 1)[0]
            objs.setdefault(kind, []).append(oid)
        chosen = []
        for kind in (b"blob", b"tree", b"commit"):
            ids = sorted(objs.get(kind, []))
            chosen += [(kind, i) for i in ids[:1 if tier == "quick" else 3]]
        queries, expect = [], []        # model queries and the goit verdict they must match

        # ---- object files --------------------------------------------------
        for kind, oid in chosen:
            h = oid.hex()
            path = os.path.join(goitdir, "objects", h[:2], h[2:])
            raw = open(path, "rb").read()
            orig = snap.obj(oid)[1]
            for label, mut in mutations(raw, rng, budget):
                open(path, "wb").write(mut)
                stats["evaluations"] += 1
                dist["object-mutation"] += 1
                rp = probe(sb, ["cat-file", "-p", h])
                rt = probe(sb, ["cat-file", "-t", h])
                others = [probe(sb, a) for a in (["status"], ["log"], ["ls-files", "-s"])] if kind != b"blob" else []
                for r in [rp, rt] + others:
                    if bad_class(r):
                        note("cat-file", label, "object " + h[:8], "%s: exit %s %r" % (r.cls, r.code, r.err[:160]), mut)
                if rp.cls == "ok" and kind != b"tree" and rp.out != orig + b"\n":
                    note("cat-file", label, "object " + h[:8], "a damaged object was returned as the requested content", mut)
                try:
                    infl = zlib.decompress(mut)
                except zlib.error:
                    infl = None
                if infl is None:
                    if rt.cls == "ok":
                        note("cat-file", label, "object " + h[:8], "goit read an object whose zlib stream is damaged", mut)
                else:
                    queries.append(["get_obj", hx(oid), hx(infl)])
                    expect.append(("object %s %s" % (h[:8], label), rt.cls == "ok", mut))
            open(path, "wb").write(raw)

        # ---- swap two object files ------------------------------------------
        ids = sorted(snap.objects)
        for _ in range(4 if tier == "quick" else 20):
            a, b = rng.sample(ids, 2)
            pa = os.path.join(goitdir, "objects", a.hex()[:2], a.hex()[2:])
            pb = os.path.join(goitdir, "objects", b.hex()[:2], b.hex()[2:])
            ra, rb = open(pa, "rb").read(), open(pb, "rb").read()
            open(pa, "wb").write(rb)
            open(pb, "wb").write(ra)
            stats["evaluations"] += 1
            dist["object-swap"] += 1
            for x in (a, b):
                r = probe(sb, ["cat-file", "-p", x.hex()])
                if bad_class(r):
                    note("cat-file", "swap", "object " + x.hex()[:8], "%s: %r" % (r.cls, r.err[:160]))
                elif r.cls == "ok":
                    note("cat-file", "swap %s<->%s" % (a.hex()[:8], b.hex()[:8]), "object " + x.hex()[:8],
                         "an object stored under the wrong name was returned")
            open(pa, "wb").write(ra)
            open(pb, "wb").write(rb)

        # ---- payloads stored under their own name: the header decoder --------
        crafted = list(CRAFTED_PAYLOADS)
        valid = [p for p in snap.objects.values()]
        for _ in range(20 if tier == "quick" else 300):
            p = rng.choice(valid)
            crafted.append(rng.choice(mutations(p, rng, 8))[1])
        for p in crafted:
            oid = hashlib.sha1(p).digest()
            h = oid.hex()
            d = os.path.join(goitdir, "objects", h[:2])
            os.makedirs(d, exist_ok=True)
            path = os.path.join(d, h[2:])
            existed = os.path.exists(path)
            if not existed:
                open(path, "wb").write(zlib.compress(p))
            stats["evaluations"] += 1
            dist["crafted-payload"] += 1
            rt = probe(sb, ["cat-file", "-t", h])
            rp = probe(sb, ["cat-file", "-p", h])
            for r in (rt, rp):
                if bad_class(r):
                    note("cat-file", "payload", "object " + h[:8], "%s on payload %r: %r" % (r.cls, p[:40], r.err[:160]), p)
            queries.append(["parse_payload", hx(p)])
            expect.append(("payload %r" % p[:30], rt.cls == "ok", p))
            if not existed:
                os.remove(path)
                try:
                    os.rmdir(d)
                except OSError:
                    pass

        # ---- the other files -------------------------------------------------
        files = [("index", "index", ["ls-files", "-s"], "decode_index"),
                 ("HEAD", "HEAD", ["ls-files"], "parse_head"),
                 ("branch file", os.path.join("refs", "heads", "main"), ["rev-parse", "main"], None),
                 ("branch file", os.path.join("refs", "heads", "main"), ["log"], "parse_ref"),
                 ("config", "config", ["ls-files"], "cfg_load"),
                 ("reflog", os.path.join("logs", "HEAD"), ["reflog"], "parse_reflog")]
        for name, rel, cmd, q in files:
            path = os.path.join(goitdir, rel)
            raw = open(path, "rb").read()
            for label, mut in mutations(raw, rng, budget):
                open(path, "wb").write(mut)
                stats["evaluations"] += 1
                dist[name + "-mutation"] += 1
                rs = [probe(sb, cmd)] + [probe(sb, a) for a in (["status"], ["log", "-n", "2"], ["branch", "--list"])]
                for r in rs:
                    if bad_class(r):
                        note(cmd[0], label, name, "%s: exit %s %r" % (r.cls, r.code, r.err[:200]), mut)
                if q:
                    queries.append([q, hx(mut)])
                    expect.append(("%s %s" % (name, label), (rs[0].cls == "ok", rs[0].out), mut, q, snap))
            open(path, "wb").write(raw)

        # ---- model agreement ---------------------------------------------------
        if model_ok:
            ans = model_queries(queries)
            for q, a, e in zip(queries, ans, expect):
                what, mut = e[0], e[2]
                if len(e) == 3:
                    if (a != "none") != e[1]:
                        stats["corr_failures"].append({"seed": seed, "steps": [], "i": 0, "step_name": "decoder",
                                                       "diffs": ["decoder %s on %s: goit %s, model %s" %
                                                                 (q[0], what, "accepts" if e[1] else "rejects", a[:60])]})
                    else:
                        stats["validated"] += 1
                else:
                    ok, out = e[1]
                    qn = e[3]
                    m_ok = a != "none"
                    if qn == "parse_head" and m_ok:
                        # a readable HEAD naming a branch whose commit cannot be loaded is still an error
                        name = bytes.fromhex(a.split(" ")[1]) if a.split(" ")[1] != "-" else b""
                        # a name with a NUL byte cannot be a file name: stat fails with EINVAL, which goit
                        # (rightly) does not take for "branch does not exist yet"
                        m_ok = b"\x00" not in name and ((name not in snap.refs) or name in (b"main", b"dev"))
                    if qn == "parse_ref" and m_ok:
                        hid = a.split(" ")[1]
                        cid = bytes.fromhex(hid) if hid != "-" else b""
                        m_ok = cid in snap.objects and snap.objects[cid].startswith(b"commit ")
                    if qn == "decode_index" and m_ok and ok:
                        want = [x.split(":") for x in a[5:].split(",") if x]
                        got = core.parse_ls_files(out, True)
                        exp = [bytes.fromhex(i).hex().encode() + b" " + (bytes.fromhex(p) if p != "-" else b"") for i, p in want]
                        if got != exp and not any(b"\n" in x for x in exp):
                            stats["corr_failures"].append({"seed": seed, "steps": [], "i": 0, "step_name": "decoder",
                                                           "diffs": ["index decoded differently on %s" % what]})
                            continue
                    if m_ok != ok:
                        stats["corr_failures"].append({"seed": seed, "steps": [], "i": 0, "step_name": "decoder",
                                                       "diffs": ["decoder %s on %s: goit %s, model %s" %
                                                                 (qn, what, "accepts" if ok else "rejects", a[:60])]})
                    else:
                        stats["validated"] += 1
        stats["distinct_nontrivial"] = stats["evaluations"]
        stats["samples"].append({"targets": ["object files (blob, tree, commit)", "index", "HEAD", "refs/heads/main",
                                             "config", "logs/HEAD"],
                                 "mutations": ["every truncation below 48 bytes and sampled beyond",
                                               "byte substitution (^0xff, 00, 0a, 20, random)", "deletion", "append",
                                               "swap of two object files", "crafted payloads under their own SHA-1"]})
    finally:
        sb.close()
