#!/usr/bin/env python3
"""seedmeta.py: write /verif/seeded/<id>/meta.json from the planting agent's notes (meta.agent.json) and the
evaluation log (detect.txt), and print the detection table used in DESIGN.md."""
import json
import os
import re
import sys

ROOT = os.path.join(os.path.dirname(os.path.abspath(__file__)), "..", "seeded")


def main():
    rows = []
    for d in sorted(os.listdir(ROOT)):
        p = os.path.join(ROOT, d)
        det = os.path.join(p, "detect.txt")
        if not os.path.isdir(p) or not os.path.exists(det):
            continue
        agent = {}
        if os.path.exists(os.path.join(p, "meta.agent.json")):
            try:
                agent = json.load(open(os.path.join(p, "meta.agent.json")))
            except ValueError:
                agent = {}
        txt = open(det).read()
        tests_ok = "FAIL" not in txt.split("--- demo on")[0]
        m1 = re.search(r"demo\(orig\) exit=(\d+)", txt)
        m2 = re.search(r"demo\(mut\) exit=(\d+)", txt)
        checks = re.findall(r"^--- check (C\d\d) exit=(\d+) violations=(\d+)", txt, flags=re.M)
        caught = [c for c, rc, n in checks if rc != "0"]
        with_input = []
        for c, rc, n in checks:
            seg = txt.split("--- check %s " % c, 1)[1].split("--- check ", 1)[0]
            if rc != "0" and re.search(r"^VIOLATION (?!.*no-failing-input-found)", seg, flags=re.M):
                with_input.append(c)
        prop = d[:3]
        meta = {
            "property": prop,
            "change": agent.get("summary", ""),
            "needs_to_manifest": agent.get("needs", ""),
            "demonstration": "demo.sh <goit binary>: exit 0 = property holds on the scenario, 1 = violated; " + str(agent.get("demo", "")),
            "confirmed": {
                "unit_tests_pass_with_change": tests_ok,
                "demo_exit_on_unchanged_build": int(m1.group(1)) if m1 else None,
                "demo_exit_on_changed_build": int(m2.group(1)) if m2 else None,
            },
            "what_was_run": "harness/seedeval.sh: go build + `go test -vet=off -count=1 ./...` in a scratch worktree holding the "
                            "change, demo.sh on both builds, then every quick check (`check Cxx`, VERIF_REPO=<worktree>) on a scratch copy of /verif",
            "caught_by": caught,
            "caught_with_failing_input": with_input,
            "own_property_check_catches_it": prop in caught,
        }
        json.dump(meta, open(os.path.join(p, "meta.json"), "w"), indent=1)
        rows.append((d, meta))
    for d, m in rows:
        c = m["confirmed"]
        print("| %s | %s | %s | %s | %s |" % (d, (m["change"] or "")[:110].replace("|", "/").replace("\n", " "),
                                        "yes" if (c["demo_exit_on_unchanged_build"] == 0 and c["demo_exit_on_changed_build"] == 1 and c["unit_tests_pass_with_change"]) else "NO",
                                        " ".join(m["caught_with_failing_input"]) or "-",
                                        " ".join(x for x in m["caught_by"] if x not in m["caught_with_failing_input"]) or "-"))


if __name__ == "__main__":
    sys.exit(main())
