"""hist.py — histories: command constructors (real argv + model tokens),
running a history on the real binary, replaying it on the extracted model,
and comparing the projected observables."""
import os
import time as _time
import subprocess

from core import (BUILD, Sandbox, Snap, mask_log, render_log, parse_cat_tree, parse_log, parse_ls_files,
                  parse_reflog, parse_sign, parse_status)

MODELDRV = os.environ.get("VERIF_MODELDRV") or os.path.join(BUILD, "modeldrv")


def hx(b):
    return b.hex() if b else "-"


def unhx(s):
    return b"" if s == "-" else bytes.fromhex(s)


def unhx_id(h):
    """LOGE carries hex(hex id) (the model's own hex rendering, hex-encoded by the driver)"""
    return bytes.fromhex(h.decode())


def _first_diff(a, b):
    i = 0
    while i < min(len(a), len(b)) and a[i] == b[i]:
        i += 1
    return a[max(0, i - 40):i + 60]


def B(x):
    return x if isinstance(x, bytes) else x.encode()


class Cmd:
    """one goit invocation: real argv and the model's view of it"""
    kind = "cmd"

    def __init__(self, name, argv, mtoks, parse=None, modelled=True, real=None):
        self.name = name
        self.argv = [B(a) for a in argv]                                   # clean form: what the oracles read
        self.real_argv = [B(a) for a in real] if real is not None else self.argv   # what goit is given
        self.mtoks = mtoks
        self.parse = parse          # stdout -> canonical lines
        self.modelled = modelled    # False: only the implementation is run (cobra-level input)

    def __repr__(self):
        return "goit " + " ".join(repr(a.decode("utf-8", "backslashreplace")) for a in self.real_argv)

    def to_json(self):
        return {"cmd": [a.decode("latin1") for a in self.argv]}


class Edit:
    kind = "edit"

    def __init__(self, op, path, data=None):
        self.op, self.path, self.data = op, B(path), (None if data is None else B(data))

    def __repr__(self):
        return "edit %s %r%s" % (self.op, self.path.decode("utf-8", "backslashreplace"),
                                 "" if self.data is None else " (%d bytes)" % len(self.data))

    def to_json(self):
        d = {"edit": self.op, "path": self.path.decode("latin1")}
        if self.data is not None:
            d["data"] = self.data.decode("latin1")
        return d

    def mline(self):
        if self.op == "write":
            return "E write %s %s" % (hx(self.path), hx(self.data))
        return "E %s %s" % (self.op, hx(self.path))


def _pos(args):
    args = [B(a) for a in args]
    return ([b"--"] if any(a.startswith(b"-") for a in args) else []) + args


def _rec(f):
    def g(*a, **k):
        c = f(*a, **k)
        c.ctor = (f.__name__, a, k)
        return c
    g.__name__ = f.__name__
    return g


def _enc(x):
    if isinstance(x, bytes):
        return {"b": x.decode("latin1")}
    if isinstance(x, (list, tuple)):
        return [_enc(y) for y in x]
    return x


def _dec(x):
    if isinstance(x, dict) and "b" in x:
        return x["b"].encode("latin1")
    if isinstance(x, list):
        return [_dec(y) for y in x]
    return x


def step_to_json(st):
    if st.kind == "edit":
        return {"edit": st.op, "path": _enc(st.path), "data": _enc(st.data)}
    name, a, k = st.ctor
    return {"ctor": name, "args": _enc(list(a)), "kw": {kk: _enc(v) for kk, v in k.items()}, "show": repr(st)}


def step_from_json(j):
    if "edit" in j:
        return Edit(j["edit"], _dec(j["path"]), _dec(j["data"]))
    return globals()[j["ctor"]](*_dec(j["args"]), **{k: _dec(v) for k, v in j["kw"].items()})


@_rec
def c_init():
    return Cmd("init", ["init"], ["init"])


@_rec
def c_config(key, val, glob=False):
    return Cmd("config", ["config"] + (["--global"] if glob else []) + _pos([key, val]),
               ["config", "1" if glob else "0", hx(B(key)), hx(B(val))])


def decorate(p, kind):
    """an argument spelled differently but naming the same path (Goit cleans its arguments with filepath.Clean;
    the model takes clean paths): 1 ./p   2 p/   3 ./p/   4 first/../first/rest   5 doubled slash"""
    p = B(p)
    if not kind or p in (b"", b".") or p.startswith(b"-"):
        return p
    if kind == 1:
        return b"./" + p
    if kind == 2:
        return p + b"/"
    if kind == 3:
        return b"./" + p + b"/"
    if kind == 4:
        head = p.split(b"/")[0]
        return head + b"/../" + p
    if kind == 5:
        return p.replace(b"/", b"//", 1) if b"/" in p else b".//" + p
    return p


def _decor(paths, decor):
    paths = [B(p) for p in paths]
    if not decor:
        return paths
    return [decorate(p, decor[i] if i < len(decor) else 0) for i, p in enumerate(paths)]


@_rec
def c_add(paths, decor=None):
    return Cmd("add", ["add"] + _pos(paths), ["add"] + [hx(B(p)) for p in paths], real=["add"] + _pos(_decor(paths, decor)))


@_rec
def c_rm(paths, decor=None):
    return Cmd("rm", ["rm"] + _pos(paths), ["rm"] + [hx(B(p)) for p in paths], real=["rm"] + _pos(_decor(paths, decor)))


@_rec
def c_commit(msg):
    return Cmd("commit", ["commit", "-m", msg], ["commit", hx(B(msg))])


@_rec
def c_status():
    return Cmd("status", ["status"], ["status"], parse=parse_status)


@_rec
def c_branch(name):
    return Cmd("branch", ["branch"] + _pos([name]), ["branch", "0", "-", "-", hx(B(name))])


@_rec
def c_branch_list():
    return Cmd("branch-list", ["branch", "--list"], ["branch", "1", "-", "-"],
               parse=lambda o: [l for l in o.split(b"\n") if l])


@_rec
def c_branch_rename(new):
    return Cmd("branch-rename", ["branch", b"--rename=" + B(new)], ["branch", "0", hx(B(new)), "-"])


@_rec
def c_branch_delete(name):
    return Cmd("branch-delete", ["branch", b"--delete=" + B(name)], ["branch", "0", "-", hx(B(name))])


@_rec
def c_branch_flags(names=(), lst=False, rename=b"", delete=b""):
    """branch with any combination of a positional name, --list, --rename and --delete (exactly one mode is valid)"""
    names = [B(n) for n in names]
    rename, delete = B(rename), B(delete)
    argv = ["branch"] + (["--list"] if lst else []) + ([b"--rename=" + rename] if rename else []) \
        + ([b"--delete=" + delete] if delete else []) + _pos(names)
    return Cmd("branch-flags", argv, ["branch", "1" if lst else "0", hx(rename), hx(delete)] + [hx(n) for n in names],
               parse=(lambda o: [l for l in o.split(b"\n") if l]) if lst and not names and not rename and not delete else None)


@_rec
def c_switch(name):
    return Cmd("switch", ["switch"] + _pos([name]), ["switch", "-", hx(B(name))])


@_rec
def c_switch_create(name):
    return Cmd("switch-c", ["switch", b"--create=" + B(name)], ["switch", hx(B(name))])


@_rec
def c_reset(mode, arg):
    flags = [] if mode is None else ["--" + mode]
    return Cmd("reset", ["reset"] + flags + _pos([arg]),
               ["reset", "1" if mode == "soft" else "0", "1", "1" if mode == "hard" else "0", hx(B(arg))])


@_rec
def c_reset_flags(soft, mixed, hard, args):
    """reset with any combination of mode flags (mixed: None = not given on the command line, i.e. the default true)"""
    argv = ["reset"] + (["--soft"] if soft else []) + ([] if mixed is None else ["--mixed=%s" % ("true" if mixed else "false")]) \
        + (["--hard"] if hard else []) + _pos(args)
    m = True if mixed is None else mixed          # the flag's default is true; the model applies reset.go's own rule
    return Cmd("reset-flags", argv, ["reset", "1" if soft else "0", "1" if m else "0", "1" if hard else "0"] + [hx(B(a)) for a in args])


@_rec
def c_switch_flags(names, create=b""):
    create = B(create)
    return Cmd("switch-flags", ["switch"] + ([b"--create=" + create] if create else []) + _pos(names),
               ["switch", hx(create)] + [hx(B(n)) for n in names])


@_rec
def c_cat_file_flags(t, p, args):
    return Cmd("cat-file-flags", ["cat-file"] + (["-t"] if t else []) + (["-p"] if p else []) + _pos(args),
               ["cat-file", "1" if t else "0", "1" if p else "0"] + [hx(B(a)) for a in args])


@_rec
def c_restore(paths, staged=False, decor=None):
    return Cmd("restore-staged" if staged else "restore",
               ["restore"] + (["--staged"] if staged else []) + _pos(paths),
               ["restore", "1" if staged else "0"] + [hx(B(p)) for p in paths],
               real=["restore"] + (["--staged"] if staged else []) + _pos(_decor(paths, decor)))


@_rec
def c_update_ref(ref, h):
    return Cmd("update-ref", ["update-ref"] + _pos([ref, h]), ["update-ref", hx(B(ref)), hx(B(h))])


@_rec
def c_log(n=None):
    return Cmd("log", ["log"] + ([] if n is None else ["-n", str(n)]), ["log", str(5 if n is None else n)],
               parse=parse_log)


@_rec
def c_reflog():
    return Cmd("reflog", ["reflog"], ["reflog"], parse=parse_reflog)


@_rec
def c_cat_file(flag, oid, tree=False):
    t, p = ("1" if flag == "-t" else "0"), ("1" if flag == "-p" else "0")
    if flag == "-p" and tree:
        prs = parse_cat_tree
    else:
        prs = lambda o: [o[:-1]] if o.endswith(b"\n") else [b"?? no trailing newline: " + o]
    return Cmd("cat-file", ["cat-file", flag, oid], ["cat-file", t, p, hx(B(oid))], parse=prs)


@_rec
def c_hash_object(paths):
    return Cmd("hash-object", ["hash-object"] + _pos(paths), ["hash-object"] + [hx(B(p)) for p in paths],
               parse=lambda o: [l for l in o.split(b"\n") if l])


@_rec
def c_ls_files(staged=False):
    return Cmd("ls-files", ["ls-files"] + (["-s"] if staged else []), ["ls-files", "1" if staged else "0"],
               parse=lambda o: parse_ls_files(o, staged))


@_rec
def c_rev_parse(names):
    return Cmd("rev-parse", ["rev-parse"] + _pos(names), ["rev-parse"] + [hx(B(n)) for n in names],
               parse=lambda o: [l for l in o.split(b"\n") if l])


@_rec
def c_write_tree():
    return Cmd("write-tree", ["write-tree"], ["write-tree"], parse=lambda o: [l for l in o.split(b"\n") if l])


@_rec
def c_raw(argv):
    """a command line the model does not cover (cobra-level): implementation only"""
    return Cmd("raw", argv, None, modelled=False)


# ---------------------------------------------------------------- real run
class StepRec:
    __slots__ = ("step", "before", "after", "res", "time", "off", "new_objs")


def tz_offset_of(sb):
    return getattr(sb, "tz_offset", 0)


def run_real(goit, steps, tz="UTC", tz_offset=0, base=None, keep=False, hook=None):
    """runs the history; returns (list of StepRec, sandbox or None)"""
    sb = Sandbox(goit, base=base, tz=tz)
    sb.tz_offset = tz_offset
    recs = []
    try:
        prev = Snap(sb)
        for st in steps:
            r = StepRec()
            r.step, r.before, r.time, r.off = st, prev, int(_time.time()), tz_offset
            if st.kind == "edit":
                getattr(sb, st.op)(*([st.path] + ([st.data] if st.op == "write" else [])))
                r.res = None
            else:
                if hook:
                    hook(sb, st)
                r.res = sb.run(st.real_argv)
            r.after = Snap(sb)
            r.new_objs = [k for k in r.after.objects if k not in prev.objects]
            for k in r.new_objs:
                p = r.after.objects[k]
                if p is not None and p.startswith(b"commit "):
                    try:
                        c = r.after.commit(k)
                        sg = parse_sign(c["author"]) if c["author"] else None
                        if sg:
                            r.time = sg["time"]
                    except ValueError:
                        pass
            prev = r.after
            recs.append(r)
    finally:
        if not keep:
            sb.close()
    return recs, (sb if keep else None)


# ---------------------------------------------------------------- model run
class MWorld:
    pass


def parse_model_output(text):
    """-> list of (outcome, out_lines, trace, MWorld)"""
    res, cur = [], None
    objs = {}
    for line in text.split("\n"):
        if not line:
            continue
        t = line.split(" ")
        tag = t[0]
        if tag == "STEP":
            cur = MWorld()
            cur.outcome, cur.out, cur.trace = t[2], [], []
            cur.loge = []
            cur.refs, cur.index, cur.idxraw, cur.blogs, cur.files, cur.dirs = {}, None, None, {}, {}, set()
            cur.lcfg, cur.gcfg = None, None
            cur.cfg = {"LCFG": None, "GCFG": None}
        elif tag == "OUT":
            cur.out.append(unhx(t[1]))
        elif tag == "LOGE":
            if t[1] == "none" or t[2] == "noauthor":
                cur.loge.append(None)
            else:
                cur.loge.append((t[1].encode() if t[1] != "-" else b"", unhx(t[2]), unhx(t[3]), int(t[4]), int(t[5]), unhx(t[6])))
        elif tag == "TR":
            cur.trace.append(" ".join(t[1:]))
        elif tag == "W":
            cur.inited = t[1] == "inited=1"
            cur.coll = t[2] == "coll=1"
        elif tag == "HEAD":
            cur.head = unhx(t[1])
        elif tag == "HEADRAW":
            cur.headraw = unhx(t[1])
        elif tag == "REF":
            cur.refs[unhx(t[1])] = unhx(t[2])
        elif tag == "IDX":
            cur.index = [] if t[1] == "present" else None
        elif tag == "IDXRAW":
            cur.idxraw = unhx(t[1])
        elif tag == "IE":
            cur.index.append((unhx(t[2]), unhx(t[1])))
        elif tag == "OBJ":
            objs[unhx(t[1])] = unhx(t[2])
        elif tag == "NOBJ":
            cur.nobj = int(t[1])
            cur.objs = dict(objs)
        elif tag == "HLOG":
            cur.hlog = None if t[1] == "absent" else unhx(t[1])
        elif tag == "BLOG":
            cur.blogs[unhx(t[1])] = unhx(t[2])
        elif tag in ("LCFG", "GCFG"):
            cur.cfg[tag] = {"absent": None, "bad": "bad", "ok": {}}[t[1]]
        elif tag in ("LCFGSEC", "GCFGSEC"):
            cur.cfg[tag[:4]].setdefault(unhx(t[1]), {})
        elif tag in ("LCFGKV", "GCFGKV"):
            cur.cfg[tag[:4]].setdefault(unhx(t[1]), {})[unhx(t[2])] = unhx(t[3])
        elif tag == "FILE":
            cur.files[unhx(t[1])] = unhx(t[2])
        elif tag == "DIR":
            cur.dirs.add(unhx(t[1]))
        elif tag == "END":
            res.append(cur)
            cur = None
    return res


def model_lines(recs):
    lines = []
    for r in recs:
        st = r.step
        if st.kind == "cmd" and not st.modelled:
            continue
        if st.kind == "edit":
            lines.append(st.mline())
        else:
            lines.append("C %d %d %s" % (r.time, r.off, " ".join(st.mtoks)))
    return lines


def run_model(lines):
    p = subprocess.run([MODELDRV], input=("\n".join(lines) + "\n").encode(), capture_output=True)
    if p.returncode != 0:
        raise RuntimeError("model driver failed: " + p.stderr.decode()[-400:])
    return parse_model_output(p.stdout.decode())


# ---------------------------------------------------------------- comparison
def parse_cfg_file(raw):
    """independent reading of a config file -> {section: {key: value}} or 'bad'"""
    if raw is None:
        return None
    out, cur = {}, None
    for line in raw.split(b"\n"):
        if line.endswith(b"\r"):
            line = line[:-1]
        if line.strip() == b"":
            continue
        if line.startswith(b"[") and line.endswith(b"]"):
            if len(line) <= 2:
                return "bad"
            cur = line[1:-1]
            out[cur] = {}
            continue
        k, eq, v = line.replace(b"\t", b"").partition(b"=")
        if not eq or cur is None:
            return "bad"
        out[cur][k.strip()] = v.strip()
    return out


def compare_step(r, m):
    """-> list of human-readable differences between implementation and model"""
    d = []
    st, s = r.step, r.after
    if st.kind == "cmd":
        want = {"ok": "ok", "err": "err", "panic": "panic"}[m.outcome]
        # the model's work tree does not contain Goit's own directory: whether `.goit/HEAD` "exists" as an
        # argument of add is outside it (Goit finds the file and skips it as excluded, the model refuses the
        # unknown path).  Either way nothing may be staged: the state comparison below still applies.
        meta_arg = st.name == "add" and any(a == b".goit" or a.startswith(b".goit/") for a in st.argv[1:] if isinstance(a, bytes))
        if meta_arg and r.res.cls in ("ok", "err") and want in ("ok", "err"):
            pass
        elif r.res.cls != want:
            d.append("exit class: goit=%s (code %s) model=%s; stderr=%r" %
                     (r.res.cls, r.res.code, want, r.res.err[-200:]))
        elif r.res.cls == "ok" and st.parse is not None:
            got, exp = st.parse(r.res.out), m.out
            if st.name == "status":
                exp = sorted(exp)
            if st.name == "reflog":
                def _m(lines):
                    out = []
                    for l in lines:
                        t = l.split(b" ", 3)
                        out.append(b" ".join(t[:3]) + (b" " + t[3] if len(t) > 3 and t[2] == b"commit" else b" *"))
                    return out
                got, exp = _m(got), _m(exp)
            if got != exp:
                d.append("output: goit=%r model=%r" % (got[:6], exp[:6]))
            elif st.name == "log" and None not in m.loge:
                # the remaining fields of every entry as the model's reader reads them back, rendered the way
                # Commit.String prints them
                full = render_log([(unhx_id(e[0]),) + e[1:] for e in m.loge])
                if full is not None and full != r.res.out:
                    d.append("log entries: goit=%r model=%r" % (_first_diff(r.res.out, full), _first_diff(full, r.res.out)))
    if s.inited != m.inited:
        d.append("inited: goit=%s model=%s" % (s.inited, m.inited))
        return d
    if not s.inited:
        if s.files != m.files:
            d.append("work tree files differ")
        return d
    if s.head_raw != m.headraw:
        d.append("HEAD: goit=%r model=%r" % (s.head_raw, m.head))
    refs = {k: (v or b"") for k, v in s.refs.items()}
    mrefs = {k: v.hex().encode() for k, v in m.refs.items()}
    if refs != mrefs:
        d.append("refs: goit=%r model=%r" % (refs, mrefs))
    if (s.index_raw is None) != (m.index is None):
        d.append("index presence: goit=%s model=%s" % (s.index_raw is not None, m.index is not None))
    elif s.index_raw is not None:
        if m.idxraw is not None and s.index_raw != m.idxraw:
            d.append("index bytes: goit=%s model=%s" % (s.index_raw.hex()[:120], m.idxraw.hex()[:120]))
        elif m.idxraw is None:
            try:
                if s.index_entries() != m.index:
                    d.append("index entries: goit=%r model=%r" % (s.index_entries()[:5], m.index[:5]))
            except ValueError as e:
                d.append("index undecodable: %s" % e)
    if set(s.objects) != set(m.objs):
        only_g = [k.hex() for k in s.objects if k not in m.objs][:3]
        only_m = [k.hex() for k in m.objs if k not in s.objects][:3]
        d.append("object ids: only goit=%s only model=%s" % (only_g, only_m))
    else:
        for k, v in s.objects.items():
            if v != m.objs[k]:
                d.append("object %s payload: goit=%r model=%r" % (k.hex(), (v or b"")[:60], m.objs[k][:60]))
                break
    if mask_log(s.hlog) != mask_log(m.hlog):
        d.append("logs/HEAD: goit=%r model=%r" % ((s.hlog or b"")[-160:], (m.hlog or b"")[-160:]))
    if {k: mask_log(v) for k, v in s.blogs.items()} != {k: mask_log(v) for k, v in m.blogs.items()}:
        d.append("branch logs: goit=%r model=%r" % (sorted(s.blogs), sorted(m.blogs)))
    for tag, raw in (("LCFG", s.lcfg), ("GCFG", s.gcfg)):
        if parse_cfg_file(raw) != m.cfg[tag]:
            d.append("%s: goit=%r model=%r" % (tag, parse_cfg_file(raw), m.cfg[tag]))
    if s.files != m.files:
        ks = [k for k in set(s.files) | set(m.files) if s.files.get(k) != m.files.get(k)][:4]
        d.append("work tree files differ at %r" % ks)
    if s.dirs != m.dirs:
        d.append("work tree dirs: only goit=%r only model=%r" %
                 (sorted(s.dirs - m.dirs)[:4], sorted(m.dirs - s.dirs)[:4]))
    if m.coll:
        d.append("model flagged a SHA-1 collision")
    return d


def correspond(recs):
    """replays on the model; returns list of (step index, [differences]) and the model worlds"""
    ms = run_model(model_lines(recs))
    diffs = []
    idx = [i for i, r in enumerate(recs) if not (r.step.kind == "cmd" and not r.step.modelled)]
    for i, m in zip(idx, ms):
        r = recs[i]
        dd = compare_step(r, m)
        if dd:
            diffs.append((i, dd))
            break          # later steps start from different states
    return diffs, ms
