"""coqeval.py — evaluate histories INSIDE Coq (vm_compute on the model itself) and compare a digest of
the final world with what the OCaml extraction printed: a cross-check of the extraction and of the
driver's glue (thorough tier)."""
import hashlib
import os
import re
import subprocess
import tempfile

from hist import unhx

COQ = os.path.join(os.path.dirname(os.path.dirname(os.path.abspath(__file__))), "coq")


def cbytes(b):
    return "[" + "; ".join("x%02x" % c for c in b) + "]"


def clist(toks):
    return "[" + "; ".join(cbytes(unhx(t)) for t in toks) + "]"


def cbool(t):
    return "true" if t == "1" else "false"


def ccmd(t):
    n = t[0]
    if n == "init":
        return "CInit"
    if n == "config":
        return "CConfig %s %s" % (cbool(t[1]), clist(t[2:]))
    if n in ("add", "rm", "update-ref", "hash-object", "rev-parse"):
        return {"add": "CAdd", "rm": "CRm", "update-ref": "CUpdateRef", "hash-object": "CHashObject",
                "rev-parse": "CRevParse"}[n] + " " + clist(t[1:])
    if n == "commit":
        return "CCommit " + cbytes(unhx(t[1]))
    if n == "status":
        return "CStatus"
    if n == "branch":
        return "CBranch %s %s %s %s" % (clist(t[4:]), cbool(t[1]), cbytes(unhx(t[2])), cbytes(unhx(t[3])))
    if n == "switch":
        return "CSwitch %s %s" % (clist(t[2:]), cbytes(unhx(t[1])))
    if n == "reset":
        return "CReset %s %s %s %s" % (cbool(t[1]), cbool(t[2]), cbool(t[3]), clist(t[4:]))
    if n == "restore":
        return "CRestore %s %s" % (cbool(t[1]), clist(t[2:]))
    if n == "log":
        return "CLog (%s)%%Z" % t[1]
    if n == "reflog":
        return "CReflog"
    if n == "cat-file":
        return "CCatFile %s %s %s" % (cbool(t[1]), cbool(t[2]), clist(t[3:]))
    if n == "ls-files":
        return "CLsFiles " + cbool(t[1])
    if n == "write-tree":
        return "CWriteTree"
    raise ValueError(n)


def caction(line):
    t = line.split(" ")
    if t[0] == "C":
        return "ACmd (mkEnv (%s)%%Z (%s)%%Z) (%s)" % (t[1], t[2], ccmd(t[3:]))
    op = t[1]
    if op == "write":
        return "AEdit (UWrite %s %s)" % (cbytes(unhx(t[2])), cbytes(unhx(t[3])))
    return "AEdit (%s %s)" % ({"delete": "UDelete", "rmtree": "URmTree", "mkdir": "UMkdir"}[op], cbytes(unhx(t[2])))


def digest_of_mworld(m):
    """the same digest the Coq side computes: SHA-1 over HEAD text, branch files, index bytes, object ids"""
    h = hashlib.sha1()
    h.update(m.headraw)
    for n in sorted(m.refs):
        h.update(n + m.refs[n].hex().encode())
    h.update(m.idxraw or b"")
    for k in sorted(m.objs):
        h.update(k)
    return h.hexdigest()


def coq_digests(histories):
    """histories: list of lists of model lines -> list of hex digests computed by vm_compute"""
    src = ["From Coq Require Import Strings.Byte.", "From Coq Require Import List NArith ZArith.",
           "From Goit Require Import Bytes Sha1 Obj Refs Tree Index World Repo.", "Import ListNotations.",
           "Definition srt (l : list bytes) : list bytes := fold_right (fun x acc => set_add acc x) [] l.",
           "Definition dig (w : world) : bytes := hex (sha1 (render_head (w_head w) ++ "
           "flat_map (fun kv => fst kv ++ hex (snd kv)) (w_refs w) ++ "
           "match w_index w with Some es => encode_index es | None => [] end ++ "
           "concat (srt (map fst (w_objs w))))).", "Transparent sha1."]
    for i, h in enumerate(histories):
        src.append("Definition h%d : list action := [%s]." % (i, ";\n  ".join(caction(l) for l in h)))
        src.append("Eval vm_compute in (dig (run h%d w_empty))." % i)
    d = tempfile.mkdtemp(prefix="coqeval-")
    f = os.path.join(d, "cases.v")
    open(f, "w").write("\n".join(src) + "\n")
    p = subprocess.run("timeout 1500 coqc -Q %s Goit %s" % (COQ, f), shell=True, capture_output=True, text=True)
    out = p.stdout + p.stderr
    import shutil
    shutil.rmtree(d, ignore_errors=True)
    if p.returncode != 0:
        raise RuntimeError("coqc on cases.v failed: " + out[-600:])
    res = []
    for m in re.finditer(r"=\s*\[([^\]]*)\]\s*:\s*bytes", out.replace("\n", " ")):
        bs = []
        for x in m.group(1).split(";"):
            x = x.strip()
            if not x:
                continue
            if x.startswith('"'):
                bs.append(ord(x[1]))
            else:
                bs.append(int(x.split(".")[-1][1:], 16))
        res.append(bytes(bs).decode())
    return res
