"""c15.py — crash points (C15) and injected I/O failures (C16).

A scratch copy of the current working tree is built in which every os.* /
(*os.File) call is redirected to a logging shim (tools/shim, build tag verif,
go build -overlay: /repo itself is not touched).  For each scenario the
command is first traced, then re-run from the same saved state once per
modification index (killed before it) and once per operation index (made to
fail).  The model's effect trace is compared with the implementation's."""
import json
import hashlib
import os
import random
import re
import shutil
import subprocess
import time

import core
import runner
from core import Snap, fsck
from hist import (Edit, c_add, c_branch, c_branch_delete, c_branch_rename, c_commit, c_config, c_init, c_reset,
                  c_restore, c_rm, c_switch, c_switch_create, c_update_ref, run_model, model_lines, StepRec)

VERIF = core.VERIF


def build_shim(tmp):
    """-> path of the shim binary built from /repo's current working tree"""
    src = os.path.join(tmp, "shimsrc")
    os.makedirs(src, exist_ok=True)
    rw = os.path.join(core.BUILD, "shimrewrite")
    if not os.path.exists(rw):
        p = subprocess.run(["go", "build", "-o", rw, "./rewrite"], cwd=os.path.join(VERIF, "tools", "shim"),
                           env=core.go_env(), capture_output=True, text=True)
        if p.returncode != 0:
            raise RuntimeError("cannot build the shim rewriter: " + p.stderr)
    p = subprocess.run([rw, core.REPO, src, os.path.join(VERIF, "tools", "shim", "vfs", "vfs.go")],
                       capture_output=True, text=True)
    if p.returncode != 0:
        raise RuntimeError("shim rewrite failed: " + p.stdout + p.stderr)
    return core.build_goit(os.path.join(tmp, "shimbin"), tags="verif", overlay=os.path.join(src, "overlay.json"))


# ------------------------------------------------------------------ scenarios
def base_setup():
    return [c_init(), c_config(b"user.name", b"Al Bo"), c_config(b"user.email", b"a@b.cc"),
            Edit("write", b"a.txt", b"one\n"), Edit("write", b"d/x", b"x1"), Edit("write", b"d/sub/y", b"y1"),
            c_add([b"."]), c_commit(b"first")]


def scenarios():
    b = base_setup()
    two = b + [Edit("write", b"a.txt", b"two\n"), c_add([b"a.txt"]), c_commit(b"second")]
    br = two + [c_branch(b"dev")]
    return [
        ("init", [], c_init()),
        ("config-local", [c_init()], c_config(b"user.name", b"N")),
        ("config-global", [c_init()], c_config(b"user.name", b"N", glob=True)),
        ("add-new", b[:6], c_add([b"."])),
        ("add-modified", b + [Edit("write", b"a.txt", b"changed")], c_add([b"a.txt"])),
        ("add-deleted", b + [Edit("delete", b"a.txt")], c_add([b"a.txt"])),
        ("add-unchanged-tree", b, c_add([b"."])),
        ("add-unchanged-file", two, c_add([b"a.txt"])),
        ("add-mixed", two + [Edit("write", b"d/x", b"x2"), Edit("write", b"new", b"n")], c_add([b"."])),
        ("rm-file", b, c_rm([b"a.txt"])),
        ("rm-dir", b, c_rm([b"d"])),
        ("commit-first", b[:7], c_commit(b"first")),
        ("commit-second", b + [Edit("write", b"a.txt", b"two\n"), c_add([b"a.txt"])], c_commit(b"second: keeps d/ unchanged")),
        ("branch", two, c_branch(b"dev")),
        ("branch-rename", br, c_branch_rename(b"trunk")),
        ("branch-delete", br, c_branch_delete(b"dev")),
        ("switch", br, c_switch(b"dev")),
        ("switch-c", two, c_switch_create(b"feat")),
        ("switch-long-name", br + [c_branch(b"release-candidate-2026")], c_switch(b"release-candidate-2026")),
        ("config-long-value", [c_init(), c_config(b"user.name", b"N")], c_config(b"user.name", b"A considerably longer name than before")),
        ("config-add-key", [c_init(), c_config(b"user.name", b"N"), c_config(b"user.email", b"n@x.yy")],
         c_config(b"core.editor", b"vi")),
        ("config-global-add-key", [c_init(), c_config(b"user.name", b"G", glob=True), c_config(b"user.email", b"g@x.yy", glob=True)],
         c_config(b"core.editor", b"vi", glob=True)),
        ("commit-two-identities", [c_config(b"user.name", b"Glo Bal", glob=True), c_config(b"user.email", b"g@x.yy", glob=True)] + b[:7],
         c_commit(b"first, local identity wins")),
        ("reset-soft", two, c_reset("soft", b"HEAD@{1}")),
        ("reset-mixed", two, c_reset("mixed", b"HEAD@{1}")),
        ("reset-hard", two + [Edit("rmtree", b"d")], c_reset("hard", b"HEAD@{1}")),
        ("restore", two + [Edit("write", b"a.txt", b"junk"), Edit("rmtree", b"d")], c_restore([b"a.txt", b"d"])),
        ("restore-staged", two + [Edit("write", b"a.txt", b"junk"), c_add([b"a.txt"])], c_restore([b"a.txt"], staged=True)),
        ("update-ref", br + [Edit("write", b"n", b"n"), c_add([b"n"]), c_commit(b"third")], None),   # target filled in
    ]


# ------------------------------------------------------------------ machinery
def parse_trace(path):
    ops = []
    if not os.path.exists(path):
        return ops
    for line in open(path, encoding="utf-8", errors="surrogateescape"):
        t = line.rstrip("\n").split("\t")
        if len(t) < 4:
            continue
        args = []
        for a in t[4:]:
            try:
                args.append(json.loads(a))
            except ValueError:
                args.append(a.strip('"'))
        ops.append({"tag": t[0], "op": int(t[1]), "mod": int(t[2]), "what": t[3], "args": args})
    return ops


def classify_path(p, sb_root):
    work = os.path.join(sb_root, "work")
    if not os.path.isabs(p):
        p = os.path.normpath(os.path.join(work, p))
    home = os.path.join(sb_root, "home")
    if p.startswith(os.path.join(work, ".goit") + "/"):
        rel = p[len(os.path.join(work, ".goit")) + 1:]
        if rel == "HEAD":
            return "HEAD", rel
        if rel == "index":
            return "index", rel
        if rel == "config":
            return "config", rel
        if rel.startswith("refs/heads/"):
            return "ref", rel[len("refs/heads/"):]
        if rel.startswith("objects/"):
            return "object", rel[len("objects/"):].replace("/", "")
        if rel == "logs/HEAD":
            return "hlog", rel
        if rel.startswith("logs/refs/heads/"):
            return "blog", rel[len("logs/refs/heads/"):]
        return "meta", rel
    if p == os.path.join(work, ".goit"):
        return "meta", ""
    if p.startswith(home):
        return "gconfig", p[len(home) + 1:]
    if p.startswith(work + "/"):
        return "wt", p[len(work) + 1:]
    return "other", p


def hxs(s):
    b = s.encode("utf-8", "surrogateescape")
    return b.hex() if b else "-"


def _is_tmp(cls, rel):
    """the temporary file of an atomic replacement (written beside the repository files, then renamed)"""
    return rel.endswith(".tmp") and cls in ("meta", "gconfig")


def impl_effects(ops, sb_root):
    """coalesce the implementation's modifying operations into the model's effect vocabulary"""
    out = []
    tokens = lambda cls, rel: {"HEAD": "head", "index": "index", "config": "lcfg", "gconfig": "gcfg", "hlog": "hlog",
                               "ref": "ref " + hxs(rel), "object": "obj " + rel, "blog": "blog " + hxs(rel),
                               "wt": "write " + hxs(rel)}.get(cls, "? " + cls)
    for o in ops:
        if not o["mod"] or o["tag"] != "MOD":
            continue
        what, args = o["what"], o["args"]
        cls, rel = classify_path(args[0], sb_root)
        if what in ("mkdir", "mkdirall"):
            continue
        if what in ("create", "openfile"):
            if _is_tmp(cls, rel):
                continue                      # becomes an effect when it is renamed into place
            out.append(tokens(cls, rel))
        elif what == "write":
            continue
        elif what == "remove":
            if _is_tmp(cls, rel):
                continue
            out.append({"ref": "delref " + hxs(rel), "blog": "delblog " + hxs(rel), "wt": "remove " + hxs(rel)}.get(cls, "? rm " + cls))
        elif what == "rename":
            if _is_tmp(cls, rel) and len(args) > 1:
                out.append(tokens(*classify_path(args[1], sb_root)))
            else:
                out.append("renameref")
    return out


def model_effects(trace):
    out = []
    for t in trace:
        k = t.split(" ")
        if k[0] == "mkdirall":
            continue
        if k[0] == "ref":
            out.append("ref " + k[1])
        elif k[0] == "head":
            out.append("head")
        elif k[0] == "renameref":
            out.append("renameref")
        elif k[0] in ("lcfg", "gcfg", "index", "hlog", "init"):
            out.append(k[0])
        else:
            out.append(" ".join(k[:2]))
    return out


class Saved:
    """a sandbox whose state can be copied for repeated trials"""

    def __init__(self, sb):
        self.sb = sb
        self.save = sb.root + ".saved"
        shutil.copytree(sb.root, self.save, symlinks=True)

    def fresh(self):
        shutil.rmtree(self.sb.root)
        shutil.copytree(self.save, self.sb.root, symlinks=True)

    def close(self):
        shutil.rmtree(self.save, ignore_errors=True)
        self.sb.close()


def window(ops_done, next_op, sb_root):
    """which file was created (truncated) and not yet written when the process stopped"""
    if next_op is not None and next_op["what"] == "write":
        return classify_path(next_op["args"][0], sb_root)[0]
    return None


# Call sites of recorded findings.  The truncate-then-write windows of HEAD, branch files, the index, object
# files and the config files were repaired (temporary file + rename), so a window there is a violation again.
KNOWN_SITES = {}


_SIGN_TIME = re.compile(rb"(?m)^((?:author|committer) .*) \d+ ([+-]\d{4})$")


def result_canon(s, before):
    """The observable result of a command for 'exactly the result it would have produced without the
    failure' (C16): every region of the repository, the work tree and both configuration files, where the
    one thing two runs may legitimately differ in -- the second on the clock -- is masked: a commit created
    by the command is named by its content with the time stamps blanked, and journal time stamps are T."""
    def mpay(p):
        return _SIGN_TIME.sub(rb"\1 T \2", p) if p is not None and p.startswith(b"commit ") else p
    names = {}
    for k, p in s.objects.items():
        if k in before.objects or not isinstance(k, bytes) or len(k) != 20:
            continue
        names[k.hex().encode()] = b"<new:" + hashlib.sha1(mpay(p) or b"<none>").hexdigest().encode() + b">"
    def ren(raw):
        if raw is None:
            return None
        return re.sub(rb"[0-9a-f]{40}", lambda m: names.get(m.group(0), m.group(0)), raw)
    objs = sorted((names.get(k.hex().encode(), k) if isinstance(k, bytes) and len(k) == 20 else k, ren(mpay(p)) or b"<none>")
                  for k, p in s.objects.items())
    return {"files": s.files, "dirs": sorted(s.dirs), "head": s.head_raw,
            "refs": {n: ren(v) for n, v in s.refs.items()}, "index": s.index_raw, "objects": objs,
            "hlog": ren(core.mask_log(s.hlog)), "blogs": {n: ren(core.mask_log(v)) for n, v in s.blogs.items()},
            "lcfg": s.lcfg, "gcfg": s.gcfg}


def reach_fsck(s):
    """fsck restricted to what is reachable from the branches and the staging area: a half-written
    object file nothing refers to yet is not a broken repository (a reachable one is reported through
    the reference that leads to it)"""
    return [x for x in fsck(s) if not (x.startswith("object ") and ("does not inflate" in x or "does not hash" in x))]


def usable(shim, sb, before, intended):
    """the C15 oracle on the state left by a kill: list of problems"""
    probs = []
    s = Snap(sb)
    probs += reach_fsck(s)
    for argv in (["ls-files"], ["status"], ["log"], ["branch", "--list"], ["reflog"]):
        r = sb.run(argv)
        if r.cls in ("panic", "timeout"):
            probs.append("%s crashes: %r" % (argv[0], r.err[:120]))
        elif argv[0] == "ls-files" and r.cls != "ok":
            probs.append("the repository no longer loads: %r" % r.err[:120])
    old, new = before.refs, (intended.refs if intended is not None else {})
    for n, v in s.refs.items():
        if v in (old.get(n), new.get(n)) or (v in old.values() and n in new):
            continue
        # a commit made in another second has another id: compare what it records
        try:
            c1 = s.commit(bytes.fromhex(v.decode()))
            c2 = intended.commit(bytes.fromhex(new[n].decode()))
            if c1["tree"] == c2["tree"] and c1["parents"] == c2["parents"] and c1["message"] == c2["message"]:
                continue
        except Exception:
            pass
        probs.append("branch %r points to %r: neither its old (%r) nor its intended (%r) commit" %
                     (n, v, old.get(n), new.get(n)))
    return probs


def run_scenario(shim, sbase, name, setup, target, mode, stats, rng, model_ok, thorough):
    """mode: 'crash' (C15) or 'fault' (C16)"""
    recs = []
    sb = core.Sandbox(shim, base=sbase)
    saved = None
    viol = stats["oracle_failures"]
    try:
        prev = Snap(sb)
        for st in setup:
            r = StepRec()
            r.step, r.before, r.time, r.off = st, prev, int(time.time()), 0
            if st.kind == "edit":
                getattr(sb, st.op)(*([st.path] + ([st.data] if st.op == "write" else [])))
                r.res = None
            else:
                r.res = sb.run(st.real_argv)
            r.after = Snap(sb)
            r.new_objs = [k for k in r.after.objects if k not in prev.objects]
            for k in r.new_objs:
                p = r.after.objects[k]
                if p and p.startswith(b"commit "):
                    sg = core.parse_sign(r.after.commit(k)["author"])
                    if sg:
                        r.time = sg["time"]
            prev = r.after
            recs.append(r)
        if target is None:       # update-ref: move main to the first commit
            ids = [bytes.fromhex(l.split(b" ")[1].decode()) for l in (prev.hlog or b"").split(b"\n") if l]
            target = c_update_ref(b"refs/heads/dev", ids[-1].hex())
        before = prev
        saved = Saved(sb)
        # ---- reference (fault-free) run with trace
        tr = os.path.join(sb.root, "trace")
        sb.extra_env = {"VERIF_TRACE": tr}
        ref = sb.run(target.real_argv)
        sb.extra_env = {}
        ops = parse_trace(tr)
        after = Snap(sb)
        nmod = max([o["mod"] for o in ops] + [0])
        nops = max([o["op"] for o in ops] + [0])
        stats["distribution"]["commands"][name] += 1
        # ---- model trace agreement
        if model_ok:
            r = StepRec()
            r.step, r.before, r.after, r.res, r.time, r.off = target, before, after, ref, int(time.time()), 0
            for k in [k for k in after.objects if k not in before.objects]:
                p = after.objects[k]
                if p and p.startswith(b"commit "):
                    sg = core.parse_sign(after.commit(k)["author"])
                    if sg:
                        r.time = sg["time"]
            ms = run_model(model_lines(recs + [r]))
            me = model_effects(ms[-1].trace)
            ie = impl_effects(ops, sb.root)
            if name == "init":
                ie = ["init"] if ie else []
            # the journals are append-only side records: where exactly their writes sit among the other
            # effects matters to no property (their content is compared by the C11 correspondence)
            nolog = lambda l: [t for t in l if not (t == "hlog" or t.startswith("blog ") or t.startswith("delblog "))]
            me, ie = nolog(me), nolog(ie)
            if me != ie:
                stats["corr_failures"].append({"seed": None, "steps": setup + [target], "i": len(setup), "step_name": target.name,
                                               "diffs": ["effect order: goit=%s model=%s" % (ie, me)]})
            else:
                stats["validated"] += 1
        # ---- trials
        if mode == "crash":
            ks = list(range(1, nmod + 1))
        else:
            ks = list(range(1, nops + 1))
            if not thorough and len(ks) > 48:
                ks = sorted(set(ks[:8] + rng.sample(ks, 36) + [o["op"] for o in ops if o["mod"]]))
        for k in ks:
            saved.fresh()
            tr2 = os.path.join(sb.root, "trace")
            sb.extra_env = {"VERIF_TRACE": tr2, ("VERIF_CRASH" if mode == "crash" else "VERIF_FAULT"): str(k)}
            res = sb.run(target.real_argv)
            sb.extra_env = {}
            stats["evaluations"] += 1
            t2 = parse_trace(tr2)
            hit = [o for o in t2 if o["tag"] in ("CRASH", "FAULT")]
            if not hit:
                continue                  # the k-th operation was not reached in this run
            stats["distinct_nontrivial"] += 1
            op = hit[0]
            cls, rel = classify_path(op["args"][0], sb.root) if op["args"] else ("other", "")
            win = cls if op["what"] == "write" else None
            label = "%s %s %s#%d (%s %s)" % (name, mode, "mod" if mode == "crash" else "op", k, op["what"], cls)
            extra = {"kind": "c15", "scenario": name, "mode": mode, "k": k, "op": op["what"], "file_class": cls,
                     "window": win, "command": target.argv[0].decode()}
            if mode == "crash":
                if res.code != 137:
                    continue
                if name == "init" and not Snap(sb).inited:
                    # nothing was installed: the state before init.  It must still be possible to initialise.
                    again = sb.run(target.real_argv)
                    probs = [] if again.cls == "ok" else ["init interrupted, and a second init fails: %r" % again.err[:120]]
                    probs += usable(shim, sb, before, after) if again.cls == "ok" else []
                else:
                    probs = usable(shim, sb, before, after)
                if name == "init" and probs:
                    extra["site"] = "init"
                elif target.name == "branch-rename" and probs and any("does not exist while other" in p for p in probs):
                    extra["site"] = "rename"
                elif win in KNOWN_SITES:
                    extra["site"] = KNOWN_SITES[win]
                for p in probs[:2]:
                    viol.append({"seed": None, "steps": setup + [target], "i": len(setup), "shrinkable": False,
                                 "msg": "%s: %s" % (label, p), "step_name": target.name, "extra": extra})
                # ---- life goes on after the crash: the interrupted command again, then a few short writing
                # commands (a leftover of the killed process — a temporary file, say — must not leak into them)
                if not probs and name != "init":
                    later = []
                    s_now = Snap(sb)
                    follow = [target.real_argv]
                    if s_now.refs:
                        follow.append(["switch", sorted(s_now.refs, key=len)[0]])
                    follow += [["config", "user.name", "q"], ["config", "user.email", "q@b.cc"], ["add", "."],
                               ["commit", "-m", "after the crash"]]
                    for argv in follow:
                        rr = sb.run(argv)
                        if rr.cls in ("panic", "timeout"):
                            later.append("%r %s: %r" % (argv[0], rr.cls, rr.err[:120]))
                    s4 = Snap(sb)
                    later += reach_fsck(s4)
                    if s4.refs and s4.head_branch not in s4.refs:
                        later.append("HEAD %r names no existing branch" % (s4.head_raw,))
                    for argv in (["status"], ["log"], ["ls-files"]):
                        rr = sb.run(argv)
                        if rr.cls != "ok" and not (argv[0] == "log" and not s4.refs):
                            later.append("%s fails: %r" % (argv[0], rr.err[:120]))
                    for p in later[:2]:
                        viol.append({"seed": None, "steps": setup + [target], "i": len(setup), "shrinkable": False,
                                     "msg": "%s, then the command again and switch/config/add/commit: %s" % (label, p),
                                     "step_name": target.name, "extra": extra})
            else:
                s2 = Snap(sb)
                probs = []
                if res.cls in ("panic", "timeout"):
                    probs.append("%s under an injected failure: %r" % (res.cls, res.err[:160]))
                if res.cls == "ok":
                    same = result_canon(s2, before) == result_canon(after, before)
                    if not same and op["what"] not in ("mkdir",):
                        probs.append("exit 0 although %s of %s failed and the result differs from the fault-free run" % (op["what"], cls))
                f = reach_fsck(s2)
                if f:
                    probs += ["after the failure: " + x for x in f[:2]]
                    if name == "init":
                        extra["site"] = "init"
                    elif target.name == "branch-rename" and any("does not exist while other" in x for x in f):
                        extra["site"] = "rename"
                    elif win in KNOWN_SITES:
                        extra["site"] = KNOWN_SITES[win]
                for n, v in s2.refs.items():
                    if v != before.refs.get(n) and v and re.fullmatch(rb"[0-9a-f]{40}", v):
                        try:
                            c = s2.commit(bytes.fromhex(v.decode()))
                            old = before.refs.get(n)
                            if target.name == "commit" and old and bytes.fromhex(old.decode()) not in c["parents"]:
                                probs.append("branch %r advanced to a commit that lacks its parent link" % n)
                        except Exception:
                            pass
                for p in probs[:2]:
                    viol.append({"seed": None, "steps": setup + [target], "i": len(setup), "shrinkable": False,
                                 "msg": "%s: %s" % (label, p), "step_name": target.name, "extra": extra})
                # ---- the history goes on: the same command again, now without a failure, then a commit.
                # Whatever the failed run left behind (a partial object file, say) must not be taken for good
                # data by the commands that follow: the repository stays connected and no branch advances to a
                # commit whose snapshot or blobs are damaged.
                if not probs and res.cls == "err":
                    r2 = sb.run(target.real_argv)
                    r3 = sb.run(["commit", "-m", "after the failure"])
                    s3 = Snap(sb)
                    later = []
                    for rr, what in ((r2, target.argv[0].decode() if isinstance(target.argv[0], bytes) else target.argv[0]), (r3, "commit")):
                        if rr.cls in ("panic", "timeout"):
                            later.append("%s %s: %r" % (what, rr.cls, rr.err[:120]))
                    later += reach_fsck(s3)
                    if later:
                        ex2 = dict(extra)
                        if name == "init":
                            ex2["site"] = "init"
                        elif target.name == "branch-rename":
                            ex2["site"] = "rename"
                        for p in later[:2]:
                            viol.append({"seed": None, "steps": setup + [target], "i": len(setup), "shrinkable": False,
                                         "msg": "%s, then the same command and a commit without failure: %s" % (label, p),
                                         "step_name": target.name, "extra": ex2})
    finally:
        if saved:
            saved.close()
        else:
            sb.close()


def run(prop, goit_plain, sbase, seed, tier, model_ok, stats):
    rng = random.Random(seed)
    tmp = os.path.join(sbase, "shim")
    os.makedirs(tmp, exist_ok=True)
    shim = build_shim(tmp)
    mode = "crash" if prop == "C15" else "fault"
    thorough = tier == "thorough"
    for name, setup, target in scenarios():
        try:
            run_scenario(shim, sbase, name, setup, target, mode, stats, rng, model_ok, thorough)
        except Exception:
            import traceback
            stats["notes"].append("scenario %s: %s" % (name, traceback.format_exc()[-400:]))
            stats["oracle_failures"].append({"seed": None, "steps": [], "i": 0, "shrinkable": False, "step_name": name,
                                             "msg": "harness error in scenario %s: %s" % (name, traceback.format_exc()[-200:])})
    # random histories: the last modifying command of a generated prefix is the target
    n = 6 if not thorough else 60
    for j in range(n):
        s = rng.randrange(1 << 40)
        recs = runner.run_steps(shim, runner.gen_history(s, "C03", 14 + rng.randrange(10)), 30, base=sbase)
        steps = [r.step for r in recs]
        idx = [i for i, r in enumerate(recs) if r.step.kind == "cmd" and r.res.cls == "ok" and r.after.world_key() != r.before.world_key()]
        if len(idx) < 2:
            continue
        t = idx[-1]
        try:
            run_scenario(shim, sbase, "random-%d:%s" % (j, steps[t].name), steps[:t], steps[t], mode, stats, rng, model_ok, thorough)
        except Exception:
            import traceback
            stats["notes"].append("random scenario: %s" % traceback.format_exc()[-300:])
    stats["samples"].append({"scenarios": [n for n, _, _ in scenarios()][:8], "mode": mode})
    stats["rule"] = ("every scenario (all modifying commands on hand-picked states, plus generated histories) is traced on a "
                     "build whose os.* calls go through a logging shim, then re-run from the saved state once per "
                     + ("modification, killed before it" if mode == "crash" else "operation, which is made to fail")
                     + "; a trial is non-trivial when the injection point was reached; all are distinct (scenario, index)")
