"""core.py — building goit from /repo's working tree, private sandboxes,
independent readers of everything Goit keeps on disk, parsers of its output.

Nothing here imports or calls the model: these readers are the "independent
reader of the Git object formats" the properties speak about.
"""
import hashlib
import os
import re
import shutil
import struct
import subprocess
import tempfile
import zlib

REPO = os.environ.get("VERIF_REPO", "/repo")
VERIF = os.path.dirname(os.path.dirname(os.path.abspath(__file__)))
BUILD = os.path.join(VERIF, "build")

GOENV = dict(GOFLAGS="-mod=mod", GOPROXY="off", GOSUMDB="off", GOTOOLCHAIN="local",
             CGO_ENABLED="0")


def go_env():
    e = dict(os.environ)
    e.update(GOENV)
    e.setdefault("GOCACHE", os.path.join(BUILD, "gocache"))
    return e


def build_goit(outdir, tags=None, overlay=None, repo=REPO):
    """go build of the current working tree; returns path of the binary."""
    os.makedirs(outdir, exist_ok=True)
    out = os.path.join(outdir, "goit")
    cmd = ["go", "build", "-o", out]
    if tags:
        cmd += ["-tags", tags]
    if overlay:
        cmd += ["-overlay", overlay]
    cmd += ["."]
    p = subprocess.run(cmd, cwd=repo, env=go_env(), capture_output=True, text=True)
    if p.returncode != 0:
        raise RuntimeError("go build failed:\n" + p.stdout + p.stderr)
    return out


# ---------------------------------------------------------------- sandbox
class Result:
    __slots__ = ("code", "out", "err", "cls")

    def __init__(self, code, out, err, timeout=False):
        self.code, self.out, self.err = code, out, err
        if timeout:
            self.cls = "timeout"
        elif code == 0:
            self.cls = "ok"
        elif code == 1 and b"panic:" not in err and b"goroutine " not in err:
            self.cls = "err"
        else:
            self.cls = "panic"


class Sandbox:
    """A private directory with its own HOME and work tree."""

    def __init__(self, goit, base=None, tz="UTC"):
        self.goit = goit
        self.root = tempfile.mkdtemp(prefix="gv-", dir=base)
        self.home = os.path.join(self.root, "home")
        self.work = os.path.join(self.root, "work")
        os.mkdir(self.home)
        os.mkdir(self.work)
        self.tz = tz
        self.extra_env = {}

    def env(self):
        e = {"HOME": self.home, "PATH": "/usr/bin:/bin", "TZ": self.tz, "LANG": "C"}
        e.update(self.extra_env)
        return e

    def run(self, argv, timeout=10):
        try:
            p = subprocess.run([self.goit] + list(argv), cwd=self.work, env=self.env(),
                               stdin=subprocess.DEVNULL, capture_output=True, timeout=timeout)
            return Result(p.returncode, p.stdout, p.stderr)
        except subprocess.TimeoutExpired as t:
            return Result(-1, t.stdout or b"", t.stderr or b"", timeout=True)

    # user edits (paths are bytes, relative, clean)
    def write(self, path, data):
        full = os.path.join(os.fsencode(self.work), path)
        os.makedirs(os.path.dirname(full), exist_ok=True)
        with open(full, "wb") as f:
            f.write(data)

    def delete(self, path):
        os.remove(os.path.join(os.fsencode(self.work), path))

    def rmtree(self, path):
        shutil.rmtree(os.path.join(os.fsencode(self.work), path))

    def mkdir(self, path):
        os.makedirs(os.path.join(os.fsencode(self.work), path), exist_ok=True)

    def close(self):
        shutil.rmtree(self.root, ignore_errors=True)


# ---------------------------------------------------------------- readers
def read_file(p):
    try:
        with open(p, "rb") as f:
            return f.read()
    except (FileNotFoundError, NotADirectoryError, IsADirectoryError):
        return None


def decode_index(raw):
    """DIRC, version, count; then 20-byte id | u16 len | path.  Independent of Goit."""
    if raw is None:
        return None
    if len(raw) < 12:
        raise ValueError("short index")
    sig, ver, cnt = raw[:4], struct.unpack(">I", raw[4:8])[0], struct.unpack(">I", raw[8:12])[0]
    pos, out = 12, []
    for _ in range(cnt):
        if pos + 22 > len(raw):
            raise ValueError("truncated index")
        oid = raw[pos:pos + 20]
        (ln,) = struct.unpack(">H", raw[pos + 20:pos + 22])
        pos += 22
        if pos + ln > len(raw):
            raise ValueError("truncated index path")
        out.append((raw[pos:pos + ln], oid))
        pos += ln
    return {"sig": sig, "version": ver, "count": cnt, "entries": out, "trailing": len(raw) - pos}


def parse_object(payload):
    """'<kind> <len>\\0<data>' strictly (Git's own format)."""
    nul = payload.find(b"\0")
    if nul < 0:
        raise ValueError("no NUL in object header")
    m = re.fullmatch(rb"(blob|tree|commit|tag) (0|[1-9][0-9]*)", payload[:nul])
    if not m:
        raise ValueError("bad object header %r" % payload[:nul])
    data = payload[nul + 1:]
    if int(m.group(2)) != len(data):
        raise ValueError("object length mismatch")
    return m.group(1), data


def parse_tree(data):
    """-> list of (mode, name, id)"""
    out, pos = [], 0
    while pos < len(data):
        sp = data.index(b" ", pos)
        nul = data.index(b"\0", sp)
        if nul + 21 > len(data):
            raise ValueError("truncated tree entry")
        out.append((data[pos:sp], data[sp + 1:nul], data[nul + 1:nul + 21]))
        pos = nul + 21
    return out


def parse_commit(data):
    """-> dict(tree, parents, author, committer, message) by Git's format."""
    head, sep, msg = data.partition(b"\n\n")
    c = {"tree": None, "parents": [], "author": None, "committer": None,
         "message": msg if sep else b""}
    for line in head.split(b"\n"):
        k, _, v = line.partition(b" ")
        if k == b"tree":
            c["tree"] = bytes.fromhex(v.decode())
        elif k == b"parent":
            c["parents"].append(bytes.fromhex(v.decode()))
        elif k in (b"author", b"committer"):
            c[k.decode()] = v
    return c


SIGN_RE = re.compile(rb"^(.*) <(.*)> (-?\d+) ([+-])(\d\d)(\d\d)$", re.S)


def parse_sign(line):
    m = SIGN_RE.match(line)
    if not m:
        return None
    off = int(m.group(5)) * 3600 + int(m.group(6)) * 60
    if m.group(4) == b"-":
        off = -off
    return {"name": m.group(1), "email": m.group(2), "time": int(m.group(3)), "off": off}


class Snap:
    """Everything on disk, read independently."""

    def __init__(self, sb):
        goit = os.path.join(sb.work, ".goit")
        self.inited = os.path.isdir(goit)
        self.head_raw = read_file(os.path.join(goit, "HEAD"))
        self.refs = {}
        hd = os.path.join(goit, "refs", "heads")
        if os.path.isdir(hd):
            for n in sorted(os.listdir(os.fsencode(hd))):
                self.refs[n] = read_file(os.path.join(os.fsencode(hd), n))
        self.index_raw = read_file(os.path.join(goit, "index"))
        self.objects = {}        # 20-byte id -> inflated payload (None if not inflatable)
        od = os.path.join(goit, "objects")
        if os.path.isdir(od):
            for d in sorted(os.listdir(od)):
                dd = os.path.join(od, d)
                if not os.path.isdir(dd):
                    continue
                for f in sorted(os.listdir(dd)):
                    raw = read_file(os.path.join(dd, f))
                    try:
                        key = bytes.fromhex(d + f)
                    except ValueError:
                        key = (d + "/" + f).encode()
                    try:
                        self.objects[key] = zlib.decompress(raw)
                    except zlib.error:
                        self.objects[key] = None
        self.hlog = read_file(os.path.join(goit, "logs", "HEAD"))
        self.blogs = {}
        bd = os.path.join(goit, "logs", "refs", "heads")
        if os.path.isdir(bd):
            for n in sorted(os.listdir(os.fsencode(bd))):
                self.blogs[n] = read_file(os.path.join(os.fsencode(bd), n))
        self.lcfg = read_file(os.path.join(goit, "config"))
        self.gcfg = read_file(os.path.join(sb.home, ".goitconfig"))
        self.files, self.dirs = {}, set()
        wb = os.fsencode(sb.work)
        for dp, dns, fns in os.walk(wb):
            rel = os.path.relpath(dp, wb)
            if rel == b".":
                dns[:] = [d for d in dns if d != b".goit"]
                pre = b""
            else:
                pre = rel + b"/"
                self.dirs.add(rel)
            for fn in fns:
                self.files[pre + fn] = read_file(os.path.join(dp, fn))
        # everything else under .goit (byte snapshot, for "nothing else changed")
        self.meta = {}
        if self.inited:
            gb = os.fsencode(goit)
            for dp, dns, fns in os.walk(gb):
                rel = os.path.relpath(dp, gb)
                for fn in fns:
                    p = fn if rel == b"." else rel + b"/" + fn
                    if p.startswith(b"objects/"):
                        continue
                    self.meta[p] = read_file(os.path.join(dp, fn))

    # decoded views -------------------------------------------------
    @property
    def head_branch(self):
        if self.head_raw is None:
            return None
        pre = b"ref: refs/heads/"
        return self.head_raw[len(pre):] if self.head_raw.startswith(pre) else None

    def index_entries(self):
        if self.index_raw is None:
            return []
        return decode_index(self.index_raw)["entries"]

    def branch_ids(self):
        out = {}
        for n, raw in self.refs.items():
            out[n] = bytes.fromhex(raw.decode()) if raw is not None and re.fullmatch(rb"[0-9a-f]{40}", raw) else None
        return out

    def obj(self, oid):
        p = self.objects.get(oid)
        if p is None:
            return None
        return parse_object(p)

    def flatten(self, tree_id, pre=b""):
        """independent flatten of a stored tree -> list of (path, blob id)"""
        kind, data = self.obj(tree_id)
        if kind != b"tree":
            raise ValueError("not a tree")
        out = []
        for mode, name, oid in parse_tree(data):
            full = pre + name
            if mode == b"040000":
                out += self.flatten(oid, full + b"/")
            else:
                out.append((full, oid))
        return out

    def commit(self, cid):
        kind, data = self.obj(cid)
        if kind != b"commit":
            raise ValueError("not a commit")
        return parse_commit(data)

    def world_key(self):
        """whole-disk fingerprint for 'refused => unchanged'"""
        h = hashlib.sha1()
        for part in (self.meta, self.files, {k: (v or b"") for k, v in self.objects.items()}):
            for k in sorted(part):
                h.update(k + b"\0" + (part[k] if part[k] is not None else b"<none>") + b"\1")
        h.update(b"|".join(sorted(self.dirs)))
        h.update(self.gcfg or b"<nogcfg>")
        return h.hexdigest()


def fsck(s):
    """Independent connectivity check (property C03).  Returns list of problems."""
    bad = []
    if not s.inited:
        return bad
    hb = s.head_branch
    if hb is None or hb == b"" or b"/" in hb:
        bad.append("HEAD does not name a branch: %r" % (s.head_raw,))
    todo_trees, seen = [], set()
    commits = []
    for n, raw in s.refs.items():
        if raw is None or not re.fullmatch(rb"[0-9a-f]{40}", raw):
            bad.append("branch %r does not hold a full id: %r" % (n, raw))
            continue
        commits.append((b"branch " + n, bytes.fromhex(raw.decode())))
    if s.refs and hb is not None and hb not in s.refs:
        bad.append("HEAD names %r which does not exist while other branches do" % hb)
    for oid, payload in s.objects.items():
        if payload is None:
            bad.append("object %s does not inflate" % oid.hex())
        elif hashlib.sha1(payload).digest() != oid:
            bad.append("object file %s does not hash to its name" % oid.hex())
    seen_commits = set()
    while commits:
        why, cid = commits.pop()
        if cid in seen_commits:
            continue
        seen_commits.add(cid)
        try:
            o = s.obj(cid)
        except ValueError as e:
            bad.append("%s: %s undecodable: %s" % (why.decode("latin1"), cid.hex(), e))
            continue
        if o is None:
            bad.append("%s: commit %s missing" % (why.decode("latin1"), cid.hex()))
            continue
        if o[0] != b"commit":
            bad.append("%s: %s is a %s, not a commit" % (why.decode("latin1"), cid.hex(), o[0].decode()))
            continue
        c = parse_commit(o[1])
        if c["tree"] is None:
            bad.append("commit %s has no tree" % cid.hex())
        else:
            todo_trees.append((b"commit " + cid.hex().encode(), c["tree"]))
        for p in c["parents"]:
            commits.append((b"parent of " + cid.hex().encode(), p))
    while todo_trees:
        why, tid = todo_trees.pop()
        if tid in seen:
            continue
        seen.add(tid)
        try:
            o = s.obj(tid)
        except ValueError as e:
            bad.append("tree %s undecodable: %s" % (tid.hex(), e))
            continue
        if o is None:
            bad.append("%s: tree %s missing" % (why.decode("latin1"), tid.hex()))
            continue
        if o[0] != b"tree":
            bad.append("%s: %s is a %s, not a tree" % (why.decode("latin1"), tid.hex(), o[0].decode()))
            continue
        try:
            items = parse_tree(o[1])
        except ValueError as e:
            bad.append("tree %s malformed: %s" % (tid.hex(), e))
            continue
        for mode, name, oid in items:
            if mode == b"040000":
                todo_trees.append((b"tree " + tid.hex().encode(), oid))
            else:
                try:
                    b = s.obj(oid)
                except ValueError:
                    b = None
                if b is None or b[0] != b"blob":
                    bad.append("tree %s entry %r -> %s is not a stored blob" % (tid.hex(), name, oid.hex()))
    try:
        for path, oid in s.index_entries():
            try:
                b = s.obj(oid)
            except ValueError:
                b = None
            if b is None or b[0] != b"blob":
                bad.append("staged %r -> %s is not a stored blob" % (path, oid.hex()))
    except ValueError as e:
        bad.append("index undecodable: %s" % e)
    return bad


# ---------------------------------------------------------------- output parsers
def parse_status(out):
    """-> sorted list of canonical lines (bytes) as the model prints them"""
    sec, res = None, []
    for line in out.split(b"\n"):
        if line.startswith(b"Changes to be committed"):
            sec = "staged"
        elif line.startswith(b"Changes not staged"):
            sec = "wt"
        elif line.startswith(b"Untracked files"):
            sec = "untracked"
        elif line.startswith(b"\t") and sec:
            body = line[1:]
            if sec == "untracked":
                res.append(b"untracked " + body)
            else:
                kind, path = body[:13].rstrip(), body[13:]
                tag = {b"new file:": b"new", b"modified:": b"modified", b"deleted:": b"deleted"}.get(kind)
                if tag is None:
                    res.append(b"?? " + body)
                elif sec == "staged":
                    res.append(b"staged-" + tag + b" " + path)
                else:
                    res.append(tag + b" " + path)
    return sorted(res)


REFLOG_RE = re.compile(rb"^([0-9a-f]{7}) (?:\(.*?\) )?HEAD@\{(\d+)\}: ([a-z]+): (.*)$")


def parse_reflog(out):
    res = []
    for line in out.split(b"\n"):
        if not line:
            continue
        m = REFLOG_RE.match(line)
        if m:
            res.append(m.group(1) + b" " + m.group(2) + b" " + m.group(3) + b" " + m.group(4))
        else:
            res.append(b"?? " + line)
    return res


def parse_log(out):
    return [l[7:] for l in out.split(b"\n") if re.fullmatch(rb"commit [0-9a-f]{40}", l)]


def go_time_string(secs, off):
    """what fmt's %s prints for time.Unix(secs, 0).In(time.FixedZone(" ", off)); None outside datetime's range"""
    import datetime
    try:
        t = datetime.datetime(1970, 1, 1) + datetime.timedelta(seconds=secs + off)
    except OverflowError:
        return None
    if t.year < 1000 or t.year > 9999:
        return None
    a = abs(off) // 60
    return ("%s %s%02d%02d  " % (t.strftime("%Y-%m-%d %H:%M:%S"), "-" if off < 0 else "+", a // 60, a % 60)).encode()


def render_log(entries):
    """the bytes `goit log` prints for [(hex id, name, email, secs, off, message)]: Commit.String + Println"""
    out = []
    for hid, name, email, secs, off, msg in entries:
        date = go_time_string(secs, off)
        if date is None:
            return None
        out.append(b"commit " + hid + b"\nAuthor: " + name + b" <" + email + b">\nDate: " + date + b"\n\n\t" + msg + b"\n\n")
    return b"".join(out)


def parse_ls_files(out, staged):
    res = []
    for line in out.split(b"\n"):
        if not line:
            continue
        if staged:
            h, _, p = line.partition(b"    ")
            res.append(h + b" " + p)
        else:
            res.append(line)
    return res


def parse_cat_tree(out):
    res = []
    for line in out.split(b"\n"):
        if not line:
            continue
        m = re.match(rb"^(\d{6}) (blob|tree) ([0-9a-f]{40})\t(.*)$", line)
        res.append(m.group(2) + b" " + m.group(3) + b" " + m.group(4) if m else b"?? " + line)
    return res


def mask_log(raw):
    """replace the time stamp of every log line by T (two clock reads may differ)"""
    if raw is None:
        return None
    out = []
    for line in raw.split(b"\n"):
        left, tab, right = line.partition(b"\t")
        toks = left.split(b" ")
        if tab and len(toks) >= 4:
            toks[-2] = b"T"
            left = b" ".join(toks)
            # the wording of checkout / branch / reset records is free text: only the record type is compared
            kind, sep, _ = right.partition(b": ")
            if sep and kind != b"commit":
                right = kind + b": *"
        out.append(left + tab + right)
    return b"\n".join(out)


def make_tzif(path, offset, abbr=b"VRF"):
    """a minimal TZif v1 file with one fixed offset (seconds east of UTC)"""
    hdr = b"TZif" + b"\0" + b"\0" * 15 + struct.pack(">6l", 0, 0, 0, 0, 1, len(abbr) + 1)
    body = struct.pack(">lBB", offset, 0, 0) + abbr + b"\0"
    with open(path, "wb") as f:
        f.write(hdr + body)
