#!/bin/sh
# mutrun.sh <repo-with-mutation> <prop>... : run the quick checks of a scratch COPY of /verif against a
# mutated source tree (dev tool for evaluating seeded changes without touching /repo or /verif/coq)
repo=$1; shift
copy=${COPY:-/tmp/verif-mut-copy}
mkdir -p $copy
rsync -a --delete --exclude .git --exclude replays --exclude evidence /verif/ $copy/
mkdir -p $copy/replays $copy/evidence
cd $copy
for p in "$@"; do
  out=$(VERIF_REPO=$repo timeout 1500 ./check $p 2>&1)
  rc=$?
  echo "== $p rc=$rc: $(echo "$out" | grep -c '^VIOLATION') violation line(s)"
  echo "$out" | grep -v '^KNOWN-FINDING' | grep -B1 '^VIOLATION' | head -6 | cut -c1-260
done
