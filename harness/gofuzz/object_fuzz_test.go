//go:build verif

package object

// Fuzz targets for the decoders of package object (added virtually with -overlay; property C19).
import (
	"bytes"
	"compress/zlib"
	"crypto/sha1"
	"encoding/hex"
	"os"
	"path/filepath"
	"testing"
)

// addVariants seeds the corpus with every truncation of a valid input, every single-byte deletion, and every
// byte replaced by 'x', a blank, a line feed and a NUL: the quick tier runs the seed corpus only, so the
// boundary cases of each hand-written parser are always exercised
func addVariants(f *testing.F, valid []byte) {
	f.Add(valid)
	for i := 0; i <= len(valid); i++ {
		f.Add(append([]byte{}, valid[:i]...))
	}
	for i := 0; i < len(valid); i++ {
		f.Add(append(append([]byte{}, valid[:i]...), valid[i+1:]...))
		for _, c := range []byte{'x', ' ', '\n', 0} {
			if valid[i] != c {
				v := append([]byte{}, valid...)
				v[i] = c
				f.Add(v)
			}
		}
	}
}

func storeRaw(t testing.TB, root string, id []byte, file []byte) {
	h := hex.EncodeToString(id)
	dir := filepath.Join(root, "objects", h[:2])
	if err := os.MkdirAll(dir, 0o755); err != nil {
		t.Fatal(err)
	}
	if err := os.WriteFile(filepath.Join(dir, h[2:]), file, 0o644); err != nil {
		t.Fatal(err)
	}
}

func deflate(p []byte) []byte {
	var b bytes.Buffer
	w := zlib.NewWriter(&b)
	w.Write(p)
	w.Close()
	return b.Bytes()
}

// arbitrary bytes as an object FILE (not even zlib)
func FuzzGetObjectRawFile(f *testing.F) {
	f.Add([]byte{})
	f.Add(deflate([]byte("blob 3\x00abc")))
	f.Add(deflate([]byte("tree 0\x00")))
	f.Fuzz(func(t *testing.T, file []byte) {
		root := t.TempDir()
		id := sha1.Sum(file)
		storeRaw(t, root, id[:], file)
		obj, err := GetObject(root, id[:])
		if err == nil && obj == nil {
			t.Fatal("nil object without error")
		}
	})
}

// arbitrary bytes as an INFLATED payload stored under its own SHA-1: header decoder, then the
// kind-specific decoders
func FuzzGetObjectPayload(f *testing.F) {
	f.Add([]byte("blob 3\x00abc"))
	f.Add([]byte("blob -1\x00"))
	f.Add([]byte("blob 4611686018427387904\x00x"))
	f.Add([]byte("tree 27\x00100644 a\x00" + "\x11\x11\x11\x11\x11\x11\x11\x11\x11\x11\x11\x11\x11\x11\x11\x11\x11\x11\x11\x11"))
	f.Add([]byte("commit 10\x00tree zzzz\n"))
	addVariants(f, []byte("commit 60\x00tree "+"0123456789012345678901234567890123456789"+"\nauthor a <a@b.cc>"))
	f.Fuzz(func(t *testing.T, payload []byte) {
		root := t.TempDir()
		id := sha1.Sum(payload)
		storeRaw(t, root, id[:], deflate(payload))
		obj, err := GetObject(root, id[:])
		if err != nil {
			return
		}
		if !bytes.Equal(obj.Hash, id[:]) {
			t.Fatalf("returned an object with another id")
		}
		switch obj.Type {
		case TreeObject:
			_, _ = NewTree(root, obj)
		case CommitObject:
			_, _ = NewCommit(obj)
		}
	})
}

func FuzzNewCommitData(f *testing.F) {
	f.Add([]byte("tree " + "0123456789012345678901234567890123456789" + "\nauthor a <a@b.cc> 1 +0000\ncommitter a <a@b.cc> 1 -0330\n\nmsg\n"))
	f.Add([]byte("author x"))
	addVariants(f, []byte("tree "+"0123456789012345678901234567890123456789"+"\nparent "+"abcdefabcdefabcdefabcdefabcdefabcdefabcd"+"\nauthor a b <a@b.cc> 1 +0000\ncommitter a b <a@b.cc> 1 -0330\n\nm\n\nx\n"))
	f.Fuzz(func(t *testing.T, data []byte) {
		o, err := NewObject(CommitObject, data)
		if err != nil {
			return
		}
		_, _ = NewCommit(o)
	})
}

func FuzzTreeData(f *testing.F) {
	f.Add([]byte("100644 a\x00" + "\x11\x11\x11\x11\x11\x11\x11\x11\x11\x11\x11\x11\x11\x11\x11\x11\x11\x11\x11\x11"))
	f.Add([]byte("040000 d\x00" + "\x11\x11\x11\x11\x11\x11\x11\x11\x11\x11\x11\x11\x11\x11\x11\x11\x11\x11\x11\x11"))
	f.Add([]byte("100644"))
	addVariants(f, []byte("040000 d\x00"+"\x11\x11\x11\x11\x11\x11\x11\x11\x11\x11\x11\x11\x11\x11\x11\x11\x11\x11\x11\x11"+"100644 a b\x00"+"\x22\x22\x22\x22\x22\x22\x22\x22\x22\x22\x22\x22\x22\x22\x22\x22\x22\x22\x22\x22"))
	f.Fuzz(func(t *testing.T, data []byte) {
		root := t.TempDir()
		o, err := NewObject(TreeObject, data)
		if err != nil {
			return
		}
		_, _ = NewTree(root, o)
	})
}
