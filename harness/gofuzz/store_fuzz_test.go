//go:build verif

package store

// Fuzz targets for the loaders of package store (added virtually with -overlay; property C19).
import (
	"os"
	"path/filepath"
	"testing"
)

func mkRoot(t testing.TB) string {
	root := filepath.Join(t.TempDir(), ".goit")
	for _, d := range []string{"objects", "refs/heads", "logs"} {
		if err := os.MkdirAll(filepath.Join(root, d), 0o755); err != nil {
			t.Fatal(err)
		}
	}
	return root
}

func FuzzIndexRead(f *testing.F) {
	f.Add([]byte("DIRC\x00\x00\x00\x01\x00\x00\x00\x00"))
	f.Add([]byte("DIRC\x00\x00\x00\x01\xff\xff\xff\xff"))
	f.Add([]byte{})
	f.Fuzz(func(t *testing.T, b []byte) {
		root := mkRoot(t)
		if err := os.WriteFile(filepath.Join(root, "index"), b, 0o644); err != nil {
			t.Fatal(err)
		}
		idx, err := NewIndex(root)
		if err != nil {
			return
		}
		if int(idx.EntryNum) != len(idx.Entries) {
			t.Fatalf("count %d but %d entries", idx.EntryNum, len(idx.Entries))
		}
		if len(b) < 12+22*len(idx.Entries) {
			t.Fatalf("%d entries out of %d bytes", len(idx.Entries), len(b))
		}
		// the look-ups must be total on whatever was decoded
		idx.GetEntry([]byte("a"))
		idx.IsRegisteredAsDirectory("a")
		idx.GetEntriesByDirectory(".")
	})
}

func FuzzNewHead(f *testing.F) {
	f.Add([]byte("ref: refs/heads/main"))
	f.Add([]byte("ref: "))
	f.Add([]byte("ref: refs/heads/"))
	f.Fuzz(func(t *testing.T, b []byte) {
		root := mkRoot(t)
		if err := os.WriteFile(filepath.Join(root, "HEAD"), b, 0o644); err != nil {
			t.Fatal(err)
		}
		_, _ = NewHead(root)
	})
}

func FuzzBranchFile(f *testing.F) {
	f.Add([]byte("0123456789012345678901234567890123456789"))
	f.Add([]byte(""))
	f.Fuzz(func(t *testing.T, b []byte) {
		root := mkRoot(t)
		if err := os.WriteFile(filepath.Join(root, "refs", "heads", "main"), b, 0o644); err != nil {
			t.Fatal(err)
		}
		if err := os.WriteFile(filepath.Join(root, "HEAD"), []byte("ref: refs/heads/main"), 0o644); err != nil {
			t.Fatal(err)
		}
		_, _ = NewRefs(root)
		_, _ = NewHead(root)
	})
}

func FuzzConfigLoad(f *testing.F) {
	f.Add([]byte("[user]\n\tname = a\n"))
	f.Add([]byte("\n"))
	f.Add([]byte("k = v\n"))
	f.Add([]byte("[]\n"))
	f.Fuzz(func(t *testing.T, b []byte) {
		root := mkRoot(t)
		t.Setenv("HOME", t.TempDir())
		if err := os.WriteFile(filepath.Join(root, "config"), b, 0o644); err != nil {
			t.Fatal(err)
		}
		c, err := NewConfig(root)
		if err != nil {
			return
		}
		c.IsUserSet()
		c.GetUserName()
		c.GetEmail()
	})
}

func FuzzReflogLoad(f *testing.F) {
	z := "0000000000000000000000000000000000000000"
	f.Add([]byte(z + " " + z + " n <e> 1 +0000\tcommit: m\n"))
	f.Add([]byte("x y z"))
	f.Fuzz(func(t *testing.T, b []byte) {
		root := mkRoot(t)
		if err := os.WriteFile(filepath.Join(root, "logs", "HEAD"), b, 0o644); err != nil {
			t.Fatal(err)
		}
		head := newHead()
		head.Reference = "main"
		rl, err := NewReflog(root, head, newRefs())
		if err != nil {
			return
		}
		for i := 0; i < 3; i++ {
			_, _ = rl.GetRecord(i)
		}
		devnull, _ := os.Open(os.DevNull)
		_ = devnull
		rl.Show()
	})
}
