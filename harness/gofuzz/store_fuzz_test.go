//go:build verif

package store

// Fuzz targets for the loaders of package store (added virtually with -overlay; property C19).
import (
	"os"
	"path/filepath"
	"testing"
)

// addVariants seeds the corpus with every truncation of a valid input, every single-byte deletion, and every
// byte replaced by 'x', a blank, a line feed and a NUL: the quick tier runs the seed corpus only, so the
// boundary cases of each hand-written parser are always exercised
func addVariants(f *testing.F, valid []byte) {
	f.Add(valid)
	for i := 0; i <= len(valid); i++ {
		f.Add(append([]byte{}, valid[:i]...))
	}
	for i := 0; i < len(valid); i++ {
		f.Add(append(append([]byte{}, valid[:i]...), valid[i+1:]...))
		for _, c := range []byte{'x', ' ', '\n', 0} {
			if valid[i] != c {
				v := append([]byte{}, valid...)
				v[i] = c
				f.Add(v)
			}
		}
	}
}

func mkRoot(t testing.TB) string {
	root := filepath.Join(t.TempDir(), ".goit")
	for _, d := range []string{"objects", "refs/heads", "logs"} {
		if err := os.MkdirAll(filepath.Join(root, d), 0o755); err != nil {
			t.Fatal(err)
		}
	}
	return root
}

func FuzzIndexRead(f *testing.F) {
	f.Add([]byte("DIRC\x00\x00\x00\x01\x00\x00\x00\x00"))
	f.Add([]byte("DIRC\x00\x00\x00\x01\xff\xff\xff\xff"))
	f.Add([]byte{})
	addVariants(f, []byte("DIRC\x00\x00\x00\x01\x00\x00\x00\x02"+"\x11\x11\x11\x11\x11\x11\x11\x11\x11\x11\x11\x11\x11\x11\x11\x11\x11\x11\x11\x11"+"\x00\x01a"+"\x22\x22\x22\x22\x22\x22\x22\x22\x22\x22\x22\x22\x22\x22\x22\x22\x22\x22\x22\x22"+"\x00\x03d/x"))
	f.Fuzz(func(t *testing.T, b []byte) {
		root := mkRoot(t)
		if err := os.WriteFile(filepath.Join(root, "index"), b, 0o644); err != nil {
			t.Fatal(err)
		}
		idx, err := NewIndex(root)
		if err != nil {
			return
		}
		if int(idx.EntryNum) != len(idx.Entries) {
			t.Fatalf("count %d but %d entries", idx.EntryNum, len(idx.Entries))
		}
		if len(b) < 12+22*len(idx.Entries) {
			t.Fatalf("%d entries out of %d bytes", len(idx.Entries), len(b))
		}
		// the look-ups must be total on whatever was decoded
		idx.GetEntry([]byte("a"))
		idx.IsRegisteredAsDirectory("a")
		idx.GetEntriesByDirectory(".")
	})
}

func FuzzNewHead(f *testing.F) {
	f.Add([]byte("ref: refs/heads/main"))
	f.Add([]byte("ref: "))
	f.Add([]byte("ref: refs/heads/"))
	addVariants(f, []byte("ref: refs/heads/main"))
	f.Fuzz(func(t *testing.T, b []byte) {
		root := mkRoot(t)
		if err := os.WriteFile(filepath.Join(root, "HEAD"), b, 0o644); err != nil {
			t.Fatal(err)
		}
		_, _ = NewHead(root)
	})
}

func FuzzBranchFile(f *testing.F) {
	f.Add([]byte("0123456789012345678901234567890123456789"))
	f.Add([]byte(""))
	addVariants(f, []byte("0123456789abcdef0123456789abcdef01234567"))
	f.Fuzz(func(t *testing.T, b []byte) {
		root := mkRoot(t)
		if err := os.WriteFile(filepath.Join(root, "refs", "heads", "main"), b, 0o644); err != nil {
			t.Fatal(err)
		}
		if err := os.WriteFile(filepath.Join(root, "HEAD"), []byte("ref: refs/heads/main"), 0o644); err != nil {
			t.Fatal(err)
		}
		_, _ = NewRefs(root)
		_, _ = NewHead(root)
	})
}

func FuzzConfigLoad(f *testing.F) {
	f.Add([]byte("[user]\n\tname = a\n"))
	f.Add([]byte("\n"))
	f.Add([]byte("k = v\n"))
	f.Add([]byte("[]\n"))
	addVariants(f, []byte("[user]\n\tname = a b\n\temail = a@b.cc\n[core]\n\tk = v\n"))
	f.Fuzz(func(t *testing.T, b []byte) {
		root := mkRoot(t)
		t.Setenv("HOME", t.TempDir())
		if err := os.WriteFile(filepath.Join(root, "config"), b, 0o644); err != nil {
			t.Fatal(err)
		}
		c, err := NewConfig(root)
		if err != nil {
			return
		}
		c.IsUserSet()
		c.GetUserName()
		c.GetEmail()
	})
}

func FuzzReflogLoad(f *testing.F) {
	z := "0000000000000000000000000000000000000000"
	f.Add([]byte(z + " " + z + " n <e> 1 +0000\tcommit: m\n"))
	f.Add([]byte("x y z"))
	addVariants(f, []byte(z+" "+"0123456789abcdef0123456789abcdef01234567"+" a b <a@b.cc> 1 +0000\tcommit: m n\n"+"0123456789abcdef0123456789abcdef01234567"+" "+z+" a b <a@b.cc> 2 -0330\tcheckout: moving from main to dev\n"))
	f.Fuzz(func(t *testing.T, b []byte) {
		root := mkRoot(t)
		if err := os.WriteFile(filepath.Join(root, "logs", "HEAD"), b, 0o644); err != nil {
			t.Fatal(err)
		}
		head := newHead()
		head.Reference = "main"
		rl, err := NewReflog(root, head, newRefs())
		if err != nil {
			return
		}
		for i := 0; i < 3; i++ {
			_, _ = rl.GetRecord(i)
		}
		devnull, _ := os.Open(os.DevNull)
		_ = devnull
		rl.Show()
	})
}
