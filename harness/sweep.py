#!/usr/bin/env python3
"""dev tool: sweep.py <repo> <ncases> [props...] — oracle + correspondence sweep without the Coq steps"""
import sys, os, collections, re, tempfile, shutil, json
sys.path.insert(0, os.path.dirname(os.path.abspath(__file__)))
import core, runner, special
repo, n = sys.argv[1], int(sys.argv[2])
props = sys.argv[3:] or [p for p in sorted(runner.PROFILES) if p not in ("C15", "C16", "C19")]
tmp = tempfile.mkdtemp(prefix="sweep-")
goit = core.build_goit(os.path.join(tmp, "bin"), repo=repo)
sb = os.path.join(tmp, "sb"); os.makedirs(sb)
save = os.environ.get("SWEEP_SAVE")
for p in props:
    st = special.new_stats("")
    special.generic(p, goit, sb, 12345 + int(p[1:]), n, 36, True, st)
    msgs = collections.Counter()
    first = {}
    for f in st["oracle_failures"]:
        k = re.sub(r"[0-9a-f]{7,40}", "H", f["msg"])
        k = re.sub(r"b'[^']*'", "B", k)[:110]
        msgs[k] += 1
        first.setdefault(k, f)
    cm = collections.Counter()
    cfirst = {}
    for f in st["corr_failures"]:
        k = (f["step_name"] + ": " + re.sub(r"[0-9a-f]{7,}", "H", f["diffs"][0]))[:150]
        cm[k] += 1
        cfirst.setdefault(k, f)
    print("== %s: histories=%d validated=%d other-div=%d oracle=%d corr=%d notes=%s" % (p, st["evaluations"], st["validated"], st["corr_other"], len(st["oracle_failures"]), len(st["corr_failures"]), st["notes"][:1]))
    for k, c in msgs.most_common(12):
        print("   O %4d %s" % (c, k))
    for k, c in cm.most_common(8):
        print("   C %4d %s" % (c, k))
    if save:
        os.makedirs(os.path.join(save, p), exist_ok=True)
        for idx, (k, f) in enumerate(list(first.items())[:12]):
            try:
                steps = runner.shrink(goit, p, f["steps"], "oracle", base=sb, budget=60, want=runner._sig(f["msg"]))
            except Exception as e:
                steps = f["steps"]
            runner.write_replay(os.path.join(save, p, "o%02d.json" % idx), p, steps, {"kind": "oracle", "message": f["msg"]})
shutil.rmtree(tmp, ignore_errors=True)
