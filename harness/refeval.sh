#!/bin/sh
# refeval.sh <id> <worktree>: run all quick checks against a behaviour-preserving change (expected: no alarm)
id=$1; wt=$2
copy=/tmp/verif-ref-$id; mkdir -p $copy
rsync -a --delete --exclude .git --exclude replays --exclude evidence --exclude seeded /verif/ $copy/
mkdir -p $copy/replays $copy/evidence /verif/build/refeval; cd $copy
out=/verif/build/refeval/$id.txt; : > $out
for p in C01 C02 C03 C04 C05 C06 C07 C08 C09 C10 C11 C12 C13 C14 C15 C16 C17 C18 C19 C20; do
  o=$(VERIF_REPO=$wt timeout 1500 ./check $p 2>&1); rc=$?
  echo "--- check $p exit=$rc violations=$(echo "$o" | grep -c '^VIOLATION')" >> $out
  echo "$o" | grep -v '^KNOWN-FINDING' | grep -B2 '^VIOLATION' | head -8 | cut -c1-400 >> $out
done
rm -rf $copy
echo "$id: $(grep -c 'violations=[1-9]' $out) checks raise an alarm"
