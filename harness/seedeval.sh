#!/bin/sh
# seedeval.sh <id> <worktree> [props...] : confirm a seeded change (tests pass, demo passes on the unchanged
# build and fails on the changed one), store it under /verif/seeded/<id>/ and run the quick checks against it
# on a scratch copy of /verif.  Writes /verif/seeded/<id>/detect.txt
id=$1; wt=$2; shift; shift
props=${*:-"C01 C02 C03 C04 C05 C06 C07 C08 C09 C10 C11 C12 C13 C14 C15 C16 C17 C18 C19 C20"}
export GOFLAGS=-mod=mod GOPROXY=off GOSUMDB=off GOTOOLCHAIN=local CGO_ENABLED=0
out=/verif/seeded/$id; mkdir -p $out
cd $wt || exit 2
git diff -- . ':!demo.sh' ':!patch.diff' ':!meta.json' > $out/patch.diff
cp demo.sh $out/demo.sh 2>/dev/null; cp meta.json $out/meta.agent.json 2>/dev/null
{
echo "seeded change $id (worktree $wt)"
echo "--- go build + unit tests with the change"
export GOCACHE=$(go env GOCACHE) GOMODCACHE=$(go env GOMODCACHE) GOPATH=$(go env GOPATH)
mkdir -p /tmp/home-$id
go build -o $wt/goit-mut . && HOME=/tmp/home-$id go test -vet=off -count=1 ./... 2>&1 | grep -v "no test files"
rm -rf /tmp/home-$id
echo "--- demo on the unchanged build / the changed build"
(cd /repo && go build -o /tmp/goit-orig-$id .)
SH=sh; head -1 demo.sh | grep -q bash && SH=bash
$SH demo.sh /tmp/goit-orig-$id >/dev/null 2>&1; echo "demo(orig) exit=$?"; rm -f /tmp/goit-orig-$id
$SH demo.sh $wt/goit-mut >/dev/null 2>&1; echo "demo(mut) exit=$?"
copy=/tmp/verif-seed-$id
mkdir -p $copy; rsync -a --delete --exclude .git --exclude replays --exclude evidence --exclude seeded /verif/ $copy/
mkdir -p $copy/replays $copy/evidence
cd $copy
for p in $props; do
  o=$(VERIF_REPO=$wt timeout 1500 ./check $p 2>&1); rc=$?
  n=$(echo "$o" | grep -c '^VIOLATION')
  echo "--- check $p exit=$rc violations=$n"
  echo "$o" | grep -v '^KNOWN-FINDING' | grep -B1 '^VIOLATION' | head -4 | cut -c1-240
done
rm -rf $copy
} > $out/detect.txt 2>&1
echo "$id done: $(grep -c 'violations=[1-9]' $out/detect.txt) checks flag it"
