#!/bin/sh
# item 6: invalid branch names refused; branch name containing ": " read back whole from HEAD
G=$(readlink -f "$1"); T=$(mktemp -d /tmp/gf-scratch-XXXXXX); export HOME="$T/home"; mkdir -p "$HOME" "$T/r"; cd "$T/r" || exit 2
$G init >/dev/null; $G config user.name x; $G config user.email a@b.cc
echo a > a; $G add a || exit 2
$G commit -m first >/dev/null 2>&1 || exit 2
rc=0
$G branch ../../HEAD >/dev/null 2>&1 && rc=1
[ "$(cat .goit/HEAD)" = "ref: refs/heads/main" ] || rc=1
if [ $rc -eq 1 ]; then printf 'ref: refs/heads/main' > .goit/HEAD; fi
for n in . .. x/y 'x\y'; do
  $G branch "$n" >/dev/null 2>&1 && rc=1
  $G branch -r "$n" >/dev/null 2>&1 && rc=1
  $G switch -c "$n" >/dev/null 2>&1 && rc=1
done
[ "$(ls .goit/refs/heads)" = "main" ] || rc=1
[ "$(cat .goit/HEAD)" = "ref: refs/heads/main" ] || rc=1
$G switch -c "a: b" >/dev/null 2>&1 || rc=1
$G status 2>&1 | grep -q "^On branch a: b$" || rc=1
rm -rf "$T"; exit $rc
