#!/bin/sh
# item 3: names with spaces round-trip through tree objects; empty tree does not panic
G=$(readlink -f "$1"); T=$(mktemp -d /tmp/gf-scratch-XXXXXX); export HOME="$T/home"; mkdir -p "$HOME" "$T/r"; cd "$T/r" || exit 2
$G init >/dev/null; $G config user.name x; $G config user.email a@b.cc
echo 1 > "a b.txt"; echo 2 > c
$G add "a b.txt" c || exit 2
$G commit -m first >/dev/null 2>&1 || exit 2
rc=0
out=$($G status 2>&1); echo "$out" | grep -Eq "new file:|deleted:|panic" && rc=1
tree=$($G write-tree)
$G cat-file -p "$tree" 2>&1 | grep -q "	a b.txt$" || rc=1
$G commit -m again >/dev/null 2>&1 && rc=1     # nothing to commit expected
# empty tree
$G rm "a b.txt" c || rc=1
$G commit -m empty >/dev/null 2>&1 || rc=1
for c in "status" "commit -m x" "reset --hard HEAD@{0}" "reset --mixed HEAD@{1}"; do
  out=$($G $c 2>&1); e=$?
  if [ $e -gt 1 ] || echo "$out" | grep -q "panic"; then rc=1; fi
done
rm -rf "$T"; exit $rc
