#!/bin/sh
# item 8: restore --staged must never stage a tree id for a path that is a directory in HEAD
G=$(readlink -f "$1"); T=$(mktemp -d /tmp/gf-scratch-XXXXXX); export HOME="$T/home"; mkdir -p "$HOME" "$T/r"; cd "$T/r" || exit 2
$G init >/dev/null; $G config user.name x; $G config user.email a@b.cc
mkdir d; echo x > d/x; $G add d/x || exit 2
$G commit -m first >/dev/null 2>&1 || exit 2
rm -rf d; echo f > d
$G restore --staged d >/dev/null 2>&1
rc=0
[ "$($G ls-files)" = "d/x" ] || rc=1
rm -rf "$T"; exit $rc
