#!/bin/sh
# item 20: a read error (other than "not exist") on the branch file must not be taken for "first commit".
# The condition is not reachable with plain file-system states (NewHead/NewRefs fail first), so the error
# is injected with strace: the 3rd open of refs/heads/main (the one in commit()) fails with EIO.
G=$(readlink -f "$1"); T=$(mktemp -d /tmp/gf-scratch-XXXXXX); export HOME="$T/home"; mkdir -p "$HOME" "$T/r"; cd "$T/r" || exit 2
command -v strace >/dev/null 2>&1 || { echo "strace needed" >&2; exit 2; }
$G init >/dev/null; $G config user.name x; $G config user.email a@b.cc
echo a > a; $G add a || exit 2
$G commit -m first >/dev/null 2>&1 || exit 2
first=$(cat .goit/refs/heads/main)
echo b > a; $G add a || exit 2
rc=0
strace -f -qq -o "$T/trace" -P "$PWD/.goit/refs/heads/main" -e trace=openat -e inject=openat:error=EIO:when=3 "$G" commit -m second >/dev/null 2>&1 && rc=1
grep -q INJECTED "$T/trace" || { rm -rf "$T"; exit 2; }
[ "$(cat .goit/refs/heads/main)" = "$first" ] || rc=1
# without the injected error the commit works and has a parent
$G commit -m second >/dev/null 2>&1 || rc=1
$G cat-file -p "$(cat .goit/refs/heads/main)" | grep -q "^parent $first$" || rc=1
rm -rf "$T"; exit $rc
