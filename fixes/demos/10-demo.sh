#!/bin/sh
# item 10: reset argument must be exactly HEAD@{N}, N may have several digits
G=$(readlink -f "$1"); T=$(mktemp -d /tmp/gf-scratch-XXXXXX); export HOME="$T/home"; mkdir -p "$HOME" "$T/r"; cd "$T/r" || exit 2
$G init >/dev/null; $G config user.name x; $G config user.email a@b.cc
i=0
while [ $i -le 10 ]; do echo $i > a; $G add a || exit 2; $G commit -m "c$i" >/dev/null 2>&1 || exit 2; eval "h$i=\$(cat .goit/refs/heads/main)"; i=$((i+1)); done
rc=0
$G reset --soft "xHEAD@{1}" >/dev/null 2>&1 && rc=1
$G reset --soft "HEAD@{1}HEAD@{2}" >/dev/null 2>&1 && rc=1
$G reset --soft "HEAD@{1}x" >/dev/null 2>&1 && rc=1
[ "$(cat .goit/refs/heads/main)" = "$h10" ] || rc=1
$G reset --soft "HEAD@{10}" >/dev/null 2>&1 || rc=1
[ "$(cat .goit/refs/heads/main)" = "$h0" ] || rc=1
rm -rf "$T"; exit $rc
