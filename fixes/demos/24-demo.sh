#!/bin/sh
# item 24: config values may contain "="; blank lines are skipped; malformed lines give an error, not a panic
G=$(readlink -f "$1"); T=$(mktemp -d /tmp/gf-scratch-XXXXXX); export HOME="$T/home"; mkdir -p "$HOME" "$T/r"; cd "$T/r" || exit 2
$G init >/dev/null; $G config user.name "a=b c"; $G config user.email a@b.cc
echo a > a; $G add a || exit 2
rc=0
$G commit -m first >/dev/null 2>&1 || rc=1
$G cat-file -p "$(cat .goit/refs/heads/main 2>/dev/null)" 2>/dev/null | grep -q "^author a=b c <a@b.cc> " || rc=1
cp .goit/config "$T/config.ok"
# blank line
printf '\n' >> .goit/config
out=$($G status 2>&1); e=$?
[ $e -eq 0 ] || rc=1
echo "$out" | grep -q panic && rc=1
# line without "="
cp "$T/config.ok" .goit/config; printf 'garbage\n' >> .goit/config
out=$($G status 2>&1); e=$?
[ $e -eq 1 ] || rc=1
echo "$out" | grep -q panic && rc=1
# key/value before any section
printf '\tname = x\n' > .goit/config
out=$($G status 2>&1); e=$?
[ $e -eq 1 ] || rc=1
echo "$out" | grep -q panic && rc=1
rm -rf "$T"; exit $rc
