#!/bin/sh
# item 13: restore validates all args first; directory forms select tracked paths
G=$(readlink -f "$1"); T=$(mktemp -d /tmp/gf-scratch-XXXXXX); export HOME="$T/home"; mkdir -p "$HOME" "$T/r"; cd "$T/r" || exit 2
$G init >/dev/null; $G config user.name x; $G config user.email a@b.cc
mkdir -p d e a/b; echo a > a.txt; echo x > d/x; echo z > d/z; echo x > e/x; echo z > e/z; echo x > a/b/x
$G add a.txt d/x d/z e/x e/z a/b/x || exit 2
$G commit -m first >/dev/null 2>&1 || exit 2
head=$($G ls-files -s)
rc=0
# (a) all args validated before any effect
echo changed > a.txt
$G restore a.txt nope >/dev/null 2>&1 && rc=1
[ "$(cat a.txt)" = "changed" ] || rc=1
$G restore a.txt >/dev/null 2>&1 || rc=1
[ "$(cat a.txt)" = "a" ] || rc=1
# (b) directory form restores tracked paths only
echo y > d/y; rm d/z; echo mod > d/x
$G restore d >/dev/null 2>&1 || rc=1
[ "$(cat d/z 2>/dev/null)" = "z" ] || rc=1
[ "$(cat d/x)" = "x" ] || rc=1
[ "$(cat d/y)" = "y" ] || rc=1
# (c) --staged: all args validated before any effect
echo a2 > a.txt; $G add a.txt || exit 2
staged=$($G ls-files -s)
$G restore --staged a.txt nope >/dev/null 2>&1 && rc=1
[ "$($G ls-files -s)" = "$staged" ] || rc=1
$G restore --staged a.txt >/dev/null 2>&1 || rc=1
[ "$($G ls-files -s)" = "$head" ] || rc=1
# (d) --staged directory: union of index entries and HEAD paths
$G rm e/z >/dev/null 2>&1 || exit 2
echo n > e/n; $G add e/n || exit 2
echo u > e/untracked
$G restore --staged e >/dev/null 2>&1 || rc=1
[ "$($G ls-files -s)" = "$head" ] || rc=1
# (e) --staged nested directory that no longer exists
$G rm a/b/x >/dev/null 2>&1 || exit 2
rm -rf a
$G restore --staged a/b >/dev/null 2>&1 || rc=1
[ "$($G ls-files -s)" = "$head" ] || rc=1
rm -rf "$T"; exit $rc
