#!/bin/sh
# item 16: reflog does not panic on zero-id records nor when HEAD has no commit
G=$(readlink -f "$1"); T=$(mktemp -d /tmp/gf-scratch-XXXXXX); export HOME="$T/home"; mkdir -p "$HOME" "$T/r"; cd "$T/r" || exit 2
$G init >/dev/null; $G config user.name x; $G config user.email a@b.cc
echo a > a; $G add a || exit 2
$G commit -m first >/dev/null 2>&1 || exit 2
$G branch -r x >/dev/null 2>&1 || exit 2
rc=0
out=$($G reflog 2>&1); e=$?
[ $e -eq 0 ] || rc=1
echo "$out" | grep -q panic && rc=1
echo "$out" | grep -q "^0000000 HEAD@{1}: branch: renamed" || rc=1
# HEAD points at a branch without commit while logs/HEAD exists
printf 'ref: refs/heads/unborn' > .goit/HEAD
out=$($G reflog 2>&1); e=$?
[ $e -eq 0 ] || rc=1
echo "$out" | grep -q panic && rc=1
echo "$out" | grep -q "HEAD@{2}: commit: first" || rc=1
rm -rf "$T"; exit $rc
