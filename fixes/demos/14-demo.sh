#!/bin/sh
# item 14: a commit message containing ": " (or a tab) stays visible in reflog
G=$(readlink -f "$1"); T=$(mktemp -d /tmp/gf-scratch-XXXXXX); export HOME="$T/home"; mkdir -p "$HOME" "$T/r"; cd "$T/r" || exit 2
$G init >/dev/null; $G config user.name x; $G config user.email a@b.cc
echo a > a; $G add a || exit 2
$G commit -m "fix: x" >/dev/null 2>&1 || exit 2
echo b > a; $G add a || exit 2
$G commit -m "tab	bed: y" >/dev/null 2>&1 || exit 2
rc=0
out=$($G reflog 2>&1) || rc=1
echo "$out" | grep -q "HEAD@{1}: commit: fix: x$" || rc=1
echo "$out" | grep -q "HEAD@{0}: commit: tab	bed: y$" || rc=1
rm -rf "$T"; exit $rc
