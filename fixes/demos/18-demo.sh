#!/bin/sh
# item 18: an object whose content does not hash to its name is rejected
G=$(readlink -f "$1"); T=$(mktemp -d /tmp/gf-scratch-XXXXXX); export HOME="$T/home"; mkdir -p "$HOME" "$T/r"; cd "$T/r" || exit 2
$G init >/dev/null; $G config user.name x; $G config user.email a@b.cc
echo a > a; echo b > b; $G add a b || exit 2
ha=$($G ls-files -s | awk '$2=="a"{print $1}'); hb=$($G ls-files -s | awk '$2=="b"{print $1}')
pa=.goit/objects/$(echo $ha | cut -c1-2)/$(echo $ha | cut -c3-); pb=.goit/objects/$(echo $hb | cut -c1-2)/$(echo $hb | cut -c3-)
rc=0
$G cat-file -p "$hb" >/dev/null 2>&1 || rc=1
cp "$pa" "$pb"
$G cat-file -p "$hb" >/dev/null 2>&1 && rc=1
$G cat-file -p "$ha" >/dev/null 2>&1 || rc=1
rm -rf "$T"; exit $rc
