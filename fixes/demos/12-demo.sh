#!/bin/sh
# item 12: restore --staged of an entry already equal to HEAD is not an error
G=$(readlink -f "$1"); T=$(mktemp -d /tmp/gf-scratch-XXXXXX); export HOME="$T/home"; mkdir -p "$HOME" "$T/r"; cd "$T/r" || exit 2
$G init >/dev/null; $G config user.name x; $G config user.email a@b.cc
echo a > a; echo b > b; $G add a b || exit 2
$G commit -m first >/dev/null 2>&1 || exit 2
before=$($G ls-files -s)
rc=0
$G restore --staged a >/dev/null 2>&1 || rc=1
echo b2 > b; $G add b || exit 2
$G restore --staged a b >/dev/null 2>&1 || rc=1
[ "$($G ls-files -s)" = "$before" ] || rc=1
rm -rf "$T"; exit $rc
