#!/bin/sh
# item 1: GetNode must find test/a when tree children are not name-sorted
G=$(readlink -f "$1"); T=$(mktemp -d /tmp/gf-scratch-XXXXXX); export HOME="$T/home"; mkdir -p "$HOME" "$T/r"; cd "$T/r" || exit 2
$G init >/dev/null; $G config user.name x; $G config user.email a@b.cc
mkdir test; echo a > test/a; echo c > test.c; echo d > test-data
$G add test/a test.c test-data || exit 2
$G commit -m first >/dev/null 2>&1 || exit 2
rc=0
$G status 2>&1 | grep -q "new file:" && rc=1
$G commit -m second >/dev/null 2>&1 && rc=1
rm -rf "$T"; exit $rc
