#!/bin/sh
# item 23: commands on a repository without any commit must not panic
G=$(readlink -f "$1"); T=$(mktemp -d /tmp/gf-scratch-XXXXXX); export HOME="$T/home"; mkdir -p "$HOME" "$T/r"; cd "$T/r" || exit 2
$G init >/dev/null; $G config user.name x; $G config user.email a@b.cc
echo a > a; echo u > u; $G add a || exit 2
rc=0
out=$($G status 2>&1); e=$?
[ $e -eq 0 ] || rc=1
echo "$out" | grep -Eq "new file: +a$" || rc=1
echo "$out" | grep -q "^	u$" || rc=1
for c in "branch x" "switch -c x" "branch -r y" "switch x"; do
  out=$($G $c 2>&1); e=$?
  [ $e -eq 1 ] || rc=1
  echo "$out" | grep -q panic && rc=1
done
[ -z "$(ls .goit/refs/heads)" ] || rc=1
[ "$(cat .goit/HEAD)" = "ref: refs/heads/main" ] || rc=1
$G commit -m first >/dev/null 2>&1 || rc=1
$G branch x >/dev/null 2>&1 || rc=1
$G switch x >/dev/null 2>&1 || rc=1
rm -rf "$T"; exit $rc
