#!/bin/sh
# item 11: reset --hard recreates tracked directories removed on disk
G=$(readlink -f "$1"); T=$(mktemp -d /tmp/gf-scratch-XXXXXX); export HOME="$T/home"; mkdir -p "$HOME" "$T/r"; cd "$T/r" || exit 2
$G init >/dev/null; $G config user.name x; $G config user.email a@b.cc
mkdir -p d/e; echo x > d/e/x; $G add d/e/x || exit 2
$G commit -m first >/dev/null 2>&1 || exit 2
rm -rf d
rc=0
$G reset --hard "HEAD@{0}" >/dev/null 2>&1 || rc=1
[ "$(cat d/e/x 2>/dev/null)" = "x" ] || rc=1
rm -rf "$T"; exit $rc
