#!/bin/sh
# item 19: add writes the blob before the index; a failed object write leaves the index untouched
G=$(readlink -f "$1"); T=$(mktemp -d /tmp/gf-scratch-XXXXXX); export HOME="$T/home"; mkdir -p "$HOME" "$T/r"; cd "$T/r" || exit 2
$G init >/dev/null; $G config user.name x; $G config user.email a@b.cc
echo a > a
h=$($G hash-object a)
# block the fan-out directory of the blob with a regular file so that the object write fails
: > .goit/objects/$(echo $h | cut -c1-2)
rc=0
$G add a >/dev/null 2>&1 && rc=1
[ -z "$($G ls-files)" ] || rc=1
rm .goit/objects/$(echo $h | cut -c1-2)
$G add a >/dev/null 2>&1 || rc=1
[ "$($G ls-files -s)" = "$h    a" ] || rc=1
$G cat-file -p "$h" >/dev/null 2>&1 || rc=1
$G add a >/dev/null 2>&1 || rc=1
rm -rf "$T"; exit $rc
