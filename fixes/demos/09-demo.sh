#!/bin/sh
# item 9: rm classifies its arguments by the index, not by the file system
G=$(readlink -f "$1"); T=$(mktemp -d /tmp/gf-scratch-XXXXXX); export HOME="$T/home"; mkdir -p "$HOME" "$T/r"; cd "$T/r" || exit 2
$G init >/dev/null; $G config user.name x; $G config user.email a@b.cc
rc=0
echo k > keep; $G add keep || exit 2
# (a) untracked d/y survives
mkdir d; echo x > d/x; echo y > d/y; $G add d/x || exit 2
$G rm d >/dev/null 2>&1 || rc=1
[ -f d/y ] || rc=1
[ -e d/x ] && rc=1
[ "$($G ls-files)" = "keep" ] || rc=1
rm -rf d
# (b) directory deleted on disk is accepted
mkdir e; echo x > e/x; $G add e/x || exit 2
rm -rf e
$G rm e >/dev/null 2>&1 || rc=1
[ "$($G ls-files)" = "keep" ] || rc=1
# (c) tracked-but-missing file under the directory is unstaged too
mkdir f; echo x > f/x; echo y > f/y; $G add f/x f/y || exit 2
rm f/y
$G rm f >/dev/null 2>&1 || rc=1
[ "$($G ls-files)" = "keep" ] || rc=1
# unknown argument: error before any effect
$G rm keep nope >/dev/null 2>&1 && rc=1
[ -f keep ] || rc=1
rm -rf "$T"; exit $rc
