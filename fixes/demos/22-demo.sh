#!/bin/sh
# item 22: ignore patterns are anchored at a path-component boundary and at the end
G=$(readlink -f "$1"); T=$(mktemp -d /tmp/gf-scratch-XXXXXX); export HOME="$T/home"; mkdir -p "$HOME" "$T/r"; cd "$T/r" || exit 2
$G init >/dev/null; $G config user.name x; $G config user.email a@b.cc
printf 'out/\n*.log\n' > .goitignore
$G add .goitignore || exit 2
$G commit -m first >/dev/null 2>&1 || exit 2
mkdir -p x.goit about out src/out d
echo 1 > x.goit/f; echo 1 > about/b; echo 1 > a.logx; echo 1 > out/x; echo 1 > src/out/c; echo 1 > a.log; echo 1 > d/a.log; echo 1 > src/keep
rc=0
out=$($G status 2>&1) || rc=1
for p in x.goit/f about/b a.logx src/keep; do echo "$out" | grep -q "^	$p$" || rc=1; done
for p in out/x src/out/c a.log d/a.log; do echo "$out" | grep -q "^	$p$" && rc=1; done
# add of single paths follows the same rule
$G add x.goit/f about/b a.logx out/x src/out/c a.log d/a.log >/dev/null 2>&1 || rc=1
[ "$($G ls-files | tr '\n' ' ')" = ".goitignore a.logx about/b x.goit/f " ] || rc=1
rm -rf "$T"; exit $rc
