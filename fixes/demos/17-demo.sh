#!/bin/sh
# item 17: negative (and half-hour) time zone offsets are written and read back correctly
G=$(readlink -f "$1"); T=$(mktemp -d /tmp/gf-scratch-XXXXXX); export HOME="$T/home"; mkdir -p "$HOME" "$T/r"; cd "$T/r" || exit 2
# hand-made TZif v1 file: one zone type, UTC offset -03:30 (-12600 s), abbreviation XXX
printf 'TZif\0\0\0\0\0\0\0\0\0\0\0\0\0\0\0\0\0\0\0\0\0\0\0\0\0\0\0\0\0\0\0\0\0\0\0\1\0\0\0\4\377\377\316\310\0\0XXX\0' > "$T/tz"
$G init >/dev/null; $G config user.name x; $G config user.email a@b.cc
echo a > a; $G add a || exit 2
rc=0
TZ="$T/tz" $G commit -m first >/dev/null 2>&1 || rc=1
if [ -f .goit/refs/heads/main ]; then
  $G cat-file -p "$(cat .goit/refs/heads/main)" | grep -Eq "^author x <a@b.cc> [0-9]+ -0330$" || rc=1
  TZ=UTC $G log 2>&1 | grep -Eq "^Date: .* -0330" || rc=1
else rc=1; fi
rm -rf "$T"; exit $rc
