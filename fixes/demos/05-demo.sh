#!/bin/sh
# item 5: update-ref must refuse a non-commit object and change nothing
G=$(readlink -f "$1"); T=$(mktemp -d /tmp/gf-scratch-XXXXXX); export HOME="$T/home"; mkdir -p "$HOME" "$T/r"; cd "$T/r" || exit 2
$G init >/dev/null; $G config user.name x; $G config user.email a@b.cc
echo a > a; $G add a || exit 2
$G commit -m first >/dev/null 2>&1 || exit 2
$G branch b || exit 2
blob=$($G ls-files -s | awk '{print $1}')
commit=$(cat .goit/refs/heads/main)
rc=0
$G update-ref refs/heads/b "$blob" >/dev/null 2>&1 && rc=1
[ "$(cat .goit/refs/heads/b)" = "$commit" ] || rc=1
[ "$(cat .goit/HEAD)" = "ref: refs/heads/main" ] || rc=1
$G status >/dev/null 2>&1 || rc=1
# a commit id is still accepted
$G update-ref refs/heads/b "$commit" >/dev/null 2>&1 || rc=1
rm -rf "$T"; exit $rc
