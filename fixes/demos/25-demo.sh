#!/bin/sh
# item 25: a tracked file stays visible to status even if the ignore list matches it
G=$(readlink -f "$1"); T=$(mktemp -d /tmp/gf-scratch-XXXXXX); export HOME="$T/home"; mkdir -p "$HOME" "$T/r"; cd "$T/r" || exit 2
$G init >/dev/null; $G config user.name x; $G config user.email a@b.cc
echo 1 > a.log; $G add a.log || exit 2
$G commit -m first >/dev/null 2>&1 || exit 2
echo "*.log" > .goitignore
echo 2 > a.log; echo 3 > b.log
rc=0
out=$($G status 2>&1) || rc=1
echo "$out" | grep -Eq "modified: +a.log$" || rc=1
echo "$out" | grep -q "b.log" && rc=1
rm -rf "$T"; exit $rc
