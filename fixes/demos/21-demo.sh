#!/bin/sh
# item 21: add <directory> skips ignored files (.goit itself and .goitignore patterns)
G=$(readlink -f "$1"); T=$(mktemp -d /tmp/gf-scratch-XXXXXX); export HOME="$T/home"; mkdir -p "$HOME" "$T/r"; cd "$T/r" || exit 2
$G init >/dev/null; $G config user.name x; $G config user.email a@b.cc
echo "out/" > .goitignore
mkdir -p src/out; echo a > src/a; echo c > src/out/c; echo t > top
rc=0
$G add src >/dev/null 2>&1 || rc=1
[ "$($G ls-files)" = "src/a" ] || rc=1
$G add . >/dev/null 2>&1 || rc=1
$G ls-files | grep -q "^\.goit/" && rc=1
[ "$($G ls-files | tr '\n' ' ')" = ".goitignore src/a top " ] || rc=1
rm -rf "$T"; exit $rc
