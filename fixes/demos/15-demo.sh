#!/bin/sh
# item 15: reflog records only the first line of a multi-line commit message
G=$(readlink -f "$1"); T=$(mktemp -d /tmp/gf-scratch-XXXXXX); export HOME="$T/home"; mkdir -p "$HOME" "$T/r"; cd "$T/r" || exit 2
$G init >/dev/null; $G config user.name x; $G config user.email a@b.cc
echo a > a; $G add a || exit 2
$G commit -m "first line
second line has words" >/dev/null 2>&1 || exit 2
rc=0
out=$($G reflog 2>&1) || rc=1
echo "$out" | grep -q "HEAD@{0}: commit: first line$" || rc=1
[ "$(wc -l < .goit/logs/HEAD)" -eq 1 ] || rc=1
[ "$(wc -l < .goit/logs/refs/heads/main)" -eq 1 ] || rc=1
$G cat-file -p "$(cat .goit/refs/heads/main)" | grep -q "^second line has words$" || rc=1
rm -rf "$T"; exit $rc
