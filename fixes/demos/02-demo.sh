#!/bin/sh
# item 2: index file `d` vs HEAD directory `d` must be reported as new file
G=$(readlink -f "$1"); T=$(mktemp -d /tmp/gf-scratch-XXXXXX); export HOME="$T/home"; mkdir -p "$HOME" "$T/r"; cd "$T/r" || exit 2
$G init >/dev/null; $G config user.name x; $G config user.email a@b.cc
mkdir d; echo x > d/x
$G add d/x || exit 2
$G commit -m first >/dev/null 2>&1 || exit 2
$G rm d/x || exit 2
rmdir d; echo f > d
$G add d || exit 2
rc=1
$G status 2>&1 | grep -Eq "new file: +d$" && rc=0
rm -rf "$T"; exit $rc
