#!/bin/sh
# item 7: reset to a zero-id reflog record is refused before anything changes
G=$(readlink -f "$1"); T=$(mktemp -d /tmp/gf-scratch-XXXXXX); export HOME="$T/home"; mkdir -p "$HOME" "$T/r"; cd "$T/r" || exit 2
$G init >/dev/null; $G config user.name x; $G config user.email a@b.cc
echo a > a; $G add a || exit 2
$G commit -m first >/dev/null 2>&1 || exit 2
commit=$(cat .goit/refs/heads/main)
$G branch -r new >/dev/null 2>&1 || exit 2
rc=0
out=$($G reset --soft "HEAD@{1}" 2>&1); e=$?
[ $e -eq 1 ] || rc=1
echo "$out" | grep -q panic && rc=1
[ "$(cat .goit/refs/heads/new)" = "$commit" ] || rc=1
rm -rf "$T"; exit $rc
