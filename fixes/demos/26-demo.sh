#!/bin/sh
# item 26: a tracked file replaced by a directory is reported as deleted
G=$(readlink -f "$1"); T=$(mktemp -d /tmp/gf-scratch-XXXXXX); export HOME="$T/home"; mkdir -p "$HOME" "$T/r"; cd "$T/r" || exit 2
$G init >/dev/null; $G config user.name x; $G config user.email a@b.cc
echo 1 > d; echo 2 > e; $G add d e || exit 2
$G commit -m first >/dev/null 2>&1 || exit 2
rm d; mkdir d; echo y > d/y; rm e
rc=0
out=$($G status 2>&1) || rc=1
echo "$out" | grep -Eq "deleted: +d$" || rc=1
echo "$out" | grep -Eq "deleted: +e$" || rc=1
echo "$out" | grep -q "^	d/y$" || rc=1
rm -rf "$T"; exit $rc
