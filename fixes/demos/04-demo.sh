#!/bin/sh
# item 4: directory selection in the index is by exact "dir/" prefix, without regexp
G=$(readlink -f "$1"); T=$(mktemp -d /tmp/gf-scratch-XXXXXX); export HOME="$T/home"; mkdir -p "$HOME" "$T/r"; cd "$T/r" || exit 2
$G init >/dev/null; $G config user.name x; $G config user.email a@b.cc
rc=0
# (a) `d` must not select ad/x
mkdir ad; echo x > ad/x; $G add ad/x || exit 2
$G restore d >/dev/null 2>&1 && rc=1
# (b) restore d with siblings d-a d-b d-c
mkdir d; echo x > d/x; echo 1 > d-a; echo 2 > d-b; echo 3 > d-c
$G add d/x d-a d-b d-c || exit 2
rm -rf d
$G restore d >/dev/null 2>&1 || rc=1
[ -f d/x ] || rc=1
# (c) name with "(" must not panic
echo p > "a(b"; $G add "a(b" || exit 2
out=$($G rm "a(b" 2>&1); e=$?
[ $e -eq 0 ] || rc=1
echo "$out" | grep -q panic && rc=1
[ -e "a(b" ] && rc=1
rm -rf "$T"; exit $rc
