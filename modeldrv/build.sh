#!/bin/sh
# build the extracted model + driver into /verif/build/modeldrv
set -e
here=$(cd "$(dirname "$0")" && pwd)
mkdir -p "$here/extracted" "$here/../build"
cd "$here/extracted"
coqc -Q ../../coq Goit ../../coq/Extract.v > extract.log 2>&1 || { cat extract.log; exit 1; }
cp ../driver.ml .
ocamlfind ocamlopt -O3 -w -a -package str model.mli model.ml driver.ml -o ../../build/modeldrv 2>/dev/null \
  || ocamlfind ocamlopt -w -a model.mli model.ml driver.ml -o ../../build/modeldrv
