(* driver.ml — replays a history on the extracted Coq model and prints the
   model's world and outputs in a canonical line format (all byte strings in
   hex).  Only parsing and printing glue lives here. *)
open Model

(* ---- conversions ---- *)
let byte_tab : byte array = Array.of_list all_bytes

let rec pos_to_int (p : positive) : int =
  match p with XH -> 1 | XO q -> 2 * pos_to_int q | XI q -> 2 * pos_to_int q + 1
let n_to_int (n : n) : int = match n with N0 -> 0 | Npos p -> pos_to_int p
let rec pos_of_int (i : int) : positive =
  if i = 1 then XH else if i land 1 = 0 then XO (pos_of_int (i lsr 1)) else XI (pos_of_int (i lsr 1))
let z_of_int (i : int) : z = if i = 0 then Z0 else if i > 0 then Zpos (pos_of_int i) else Zneg (pos_of_int (- i))
(* decimal string of any size (a count given to log -n may exceed OCaml's 63-bit int) *)
let z_of_dec (s : Stdlib.String.t) : z =
  let neg = Stdlib.String.length s > 0 && s.[0] = '-' in
  let times10 x = let x2 = Z.add x x in let x4 = Z.add x2 x2 in Z.add (Z.add x4 x4) x2 in
  let acc = ref Z0 in
  Stdlib.String.iteri (fun i ch ->
    if i = 0 && (ch = '-' || ch = '+') then ()
    else if ch >= '0' && ch <= '9' then acc := Z.add (times10 !acc) (z_of_int (Stdlib.Char.code ch - 48))
    else failwith ("driver: bad number: " ^ s)) s;
  if neg then Z.opp !acc else !acc
let z_to_int (x : z) : int = match x with Z0 -> 0 | Zpos p -> pos_to_int p | Zneg p -> - (pos_to_int p)
let rec nat_to_int (n : nat) : int = match n with O -> 0 | S k -> 1 + nat_to_int k
let rec nat_of_int (i : int) : nat = if i <= 0 then O else S (nat_of_int (i - 1))

let int_of_byte (b : byte) : int = n_to_int (bN b)

let bytes_of_string (s : Stdlib.String.t) : bytes =
  let rec go i acc = if i < 0 then acc else go (i - 1) (byte_tab.(Stdlib.Char.code s.[i]) :: acc) in
  go (Stdlib.String.length s - 1) []
let string_of_bytes (b : bytes) : Stdlib.String.t =
  let buf = Stdlib.Buffer.create 64 in
  Stdlib.List.iter (fun c -> Stdlib.Buffer.add_char buf (Stdlib.Char.chr (int_of_byte c))) b;
  Stdlib.Buffer.contents buf

let hexs (s : Stdlib.String.t) : Stdlib.String.t =
  if s = "" then "-" else begin
    let buf = Stdlib.Buffer.create (2 * Stdlib.String.length s) in
    Stdlib.String.iter (fun c -> Stdlib.Buffer.add_string buf (Printf.sprintf "%02x" (Stdlib.Char.code c))) s;
    Stdlib.Buffer.contents buf
  end
let hx (b : bytes) : Stdlib.String.t = hexs (string_of_bytes b)
let unhexs (s : Stdlib.String.t) : Stdlib.String.t =
  if s = "-" then "" else begin
    let n = Stdlib.String.length s / 2 in
    Stdlib.String.init n (fun i -> Stdlib.Char.chr (int_of_string ("0x" ^ Stdlib.String.sub s (2 * i) 2)))
  end
let ub (s : Stdlib.String.t) : bytes = bytes_of_string (unhexs s)

let split_ws (s : Stdlib.String.t) : Stdlib.String.t list =
  Stdlib.List.filter (fun x -> x <> "") (Stdlib.String.split_on_char ' ' s)

let flag (s : Stdlib.String.t) : bool = s = "1"

(* ---- printing the world ---- *)
let printed : (Stdlib.String.t, Stdlib.String.t) Hashtbl.t = Hashtbl.create 1024

let print_cfg tag (c : cfgst) =
  match c with
  | CfgAbsent -> Printf.printf "%s absent\n" tag
  | CfgFile None -> Printf.printf "%s bad\n" tag
  | CfgFile (Some secs) ->
      Printf.printf "%s ok\n" tag;
      Stdlib.List.iter (fun (s, kvs) ->
        Printf.printf "%sSEC %s\n" tag (hx s);
        Stdlib.List.iter (fun (k, v) -> Printf.printf "%sKV %s %s %s\n" tag (hx s) (hx k) (hx v)) kvs) secs

let print_world (w : world) =
  Printf.printf "W inited=%d coll=%d\n" (if w.w_inited then 1 else 0) (if w.w_coll then 1 else 0);
  Printf.printf "HEAD %s\n" (hx w.w_head);
  Printf.printf "HEADRAW %s\n" (hx (render_head w.w_head));
  Stdlib.List.iter (fun (n, id) -> Printf.printf "REF %s %s\n" (hx n) (hx id)) w.w_refs;
  (match w.w_index with
   | None -> Printf.printf "IDX absent\n"
   | Some es ->
       Printf.printf "IDX present\n";
       Printf.printf "IDXRAW %s\n" (hx (encode_index es));
       Stdlib.List.iter (fun e -> Printf.printf "IE %s %s\n" (hx e.e_id) (hx e.e_path)) es);
  Stdlib.List.iter (fun (id, p) ->
    let k = string_of_bytes id and v = string_of_bytes p in
    match Hashtbl.find_opt printed k with
    | Some v0 when v0 = v -> ()
    | _ -> Hashtbl.replace printed k v; Printf.printf "OBJ %s %s\n" (hexs k) (hexs v)) w.w_objs;
  Printf.printf "NOBJ %d\n" (Stdlib.List.length w.w_objs);
  (match w.w_hlog with
   | None -> Printf.printf "HLOG absent\n"
   | Some b -> Printf.printf "HLOG %s\n" (hx b));
  Stdlib.List.iter (fun (n, b) -> Printf.printf "BLOG %s %s\n" (hx n) (hx b)) w.w_blogs;
  print_cfg "LCFG" w.w_lcfg;
  print_cfg "GCFG" w.w_gcfg;
  Stdlib.List.iter (fun (p, d) -> Printf.printf "FILE %s %s\n" (hx p) (hx d)) w.w_files;
  Stdlib.List.iter (fun d -> Printf.printf "DIR %s\n" (hx d)) w.w_dirs

let effect_name (e : effect) : Stdlib.String.t =
  match e with
  | EInit -> "init"
  | EPutObj (id, _) -> "obj " ^ hx id
  | ESetRef (n, id) -> "ref " ^ hx n ^ " " ^ hx id
  | EDelRef n -> "delref " ^ hx n
  | ERenameRef (o, n) -> "renameref " ^ hx o ^ " " ^ hx n
  | ESetHead n -> "head " ^ hx n
  | ESetIndex _ -> "index"
  | EAppendHlog _ -> "hlog"
  | EAppendBlog (n, _) -> "blog " ^ hx n
  | EDelBlog n -> "delblog " ^ hx n
  | ESetLcfg _ -> "lcfg"
  | ESetGcfg _ -> "gcfg"
  | EWriteFile (p, _) -> "write " ^ hx p
  | ERemovePath p -> "remove " ^ hx p
  | EMkdirAll p -> "mkdirall " ^ hx p

(* ---- parsing actions ---- *)
let parse_cmd (toks : Stdlib.String.t list) : cmd =
  let args l = Stdlib.List.map ub l in
  match toks with
  | ["init"] -> CInit
  | "config" :: g :: r -> CConfig (flag g, args r)
  | "add" :: r -> CAdd (args r)
  | "rm" :: r -> CRm (args r)
  | ["commit"; m] -> CCommit (ub m)
  | ["status"] -> CStatus
  | "branch" :: l :: rn :: dl :: r -> CBranch (args r, flag l, ub rn, ub dl)
  | "switch" :: cr :: r -> CSwitch (args r, ub cr)
  | "reset" :: s :: m :: h :: r -> CReset (flag s, flag m, flag h, args r)
  | "restore" :: st :: r -> CRestore (flag st, args r)
  | "update-ref" :: r -> CUpdateRef (args r)
  | ["log"; n] -> CLog (z_of_dec n)
  | ["reflog"] -> CReflog
  | "cat-file" :: t :: p :: r -> CCatFile (flag t, flag p, args r)
  | "hash-object" :: r -> CHashObject (args r)
  | ["ls-files"; s] -> CLsFiles (flag s)
  | "rev-parse" :: r -> CRevParse (args r)
  | ["write-tree"] -> CWriteTree
  | _ -> failwith ("driver: bad command: " ^ Stdlib.String.concat " " toks)

let parse_action (toks : Stdlib.String.t list) : action =
  match toks with
  | "C" :: t :: off :: r ->
      ACmd ({ e_time = z_of_int (int_of_string t); e_off = z_of_int (int_of_string off) }, parse_cmd r)
  | ["E"; "write"; p; d] -> AEdit (UWrite (ub p, ub d))
  | ["E"; "delete"; p] -> AEdit (UDelete (ub p))
  | ["E"; "rmtree"; p] -> AEdit (URmTree (ub p))
  | ["E"; "mkdir"; p] -> AEdit (UMkdir (ub p))
  | _ -> failwith ("driver: bad action: " ^ Stdlib.String.concat " " toks)

(* ---- queries on the pure decoders (correspondence of decoders, C19) ---- *)
let opt_bytes o = match o with None -> "none" | Some b -> "some " ^ hx b
let query (toks : Stdlib.String.t list) : Stdlib.String.t =
  match toks with
  | ["parse_payload"; p] ->
      (match parse_payload (ub p) with
       | None -> "none"
       | Some (k, d) -> "some " ^ string_of_bytes (kind_s k) ^ " " ^ hx d)
  | ["get_obj"; id; p] ->
      (match get_obj [(ub id, ub p)] (ub id) with
       | None -> "none"
       | Some (k, d) -> "some " ^ string_of_bytes (kind_s k) ^ " " ^ hx d)
  | ["decode_index"; b] ->
      (match decode_index (ub b) with
       | None -> "none"
       | Some es -> "some " ^ Stdlib.String.concat "," (Stdlib.List.map (fun e -> hx e.e_id ^ ":" ^ hx e.e_path) es))
  | ["cfg_load"; b] ->
      (match cfg_load (ub b) with
       | None -> "none"
       | Some c -> "some " ^ Stdlib.String.concat ";" (Stdlib.List.map (fun (s, kvs) ->
            hx s ^ "=" ^ Stdlib.String.concat "," (Stdlib.List.map (fun (k, v) -> hx k ^ ":" ^ hx v) kvs)) c))
  | ["parse_reflog"; b] ->
      (match parse_reflog (ub b) with
       | None -> "none"
       | Some rs -> "some " ^ Stdlib.String.concat "," (Stdlib.List.map (fun r ->
            (match r.r_id with None -> "0" | Some h -> hx h) ^ ":" ^ hx r.r_msg) rs))
  | ["parse_commit"; d] ->
      (match parse_commit (ub d) with
       | None -> "none"
       | Some c -> "some " ^ hx c.c_tree ^ " " ^ Stdlib.String.concat "," (Stdlib.List.map hx c.c_parents) ^ " " ^ hx c.c_msg)
  | ["parse_head"; b] -> opt_bytes (parse_head (ub b))
  | ["parse_ref"; b] -> opt_bytes (parse_ref (ub b))
  | ["read_sign"; b] ->
      (match read_sign (ub b) with
       | None -> "none"
       | Some s -> "some " ^ hx s.s_name ^ " " ^ hx s.s_email)
  | ["reset_arg"; b] -> (match reset_arg (ub b) with None -> "none" | Some n -> "some " ^ string_of_int (n_to_int n))
  | ["sha1"; b] -> hx (sha1 (ub b))
  | ["walk_tree"; d] ->
      (match walk_tree (nat_of_int 3) [] (ub d) with
       | None -> "none"
       | Some ns -> "some " ^ Stdlib.String.concat "," (Stdlib.List.map (fun ((isd, i), n) -> (if isd then "t" else "b") ^ hx i ^ ":" ^ hx n) (tree_listing ns)))
  | _ -> "badquery"

let () =
  let w = ref w_empty in
  let n = ref 0 in
  (try
     while true do
       let line = input_line stdin in
       let toks = split_ws line in
       match toks with
       | [] -> ()
       | ["RESET"] -> w := w_empty; Hashtbl.reset printed; n := 0; print_string "RESETOK\n"
       | "Q" :: q -> print_string ("QR " ^ query q ^ "\n"); flush stdout
       | _ ->
           let a = parse_action toks in
           let ((w', out), tr) = step a !w in
           w := w';
           incr n;
           (match out with
            | OOk ls ->
                Printf.printf "STEP %d ok\n" !n;
                Stdlib.List.iter (fun l -> Printf.printf "OUT %s\n" (hx l)) ls;
                (* the remaining fields of each log entry, as the model's reader reads them back *)
                (match a with
                 | ACmd (_, CLog _) ->
                     Stdlib.List.iter (fun v ->
                       match v with
                       | None -> Printf.printf "LOGE none\n"
                       | Some ((h, None), m) -> Printf.printf "LOGE %s noauthor %s\n" (hx h) (hx m)
                       | Some ((h, Some sg), m) ->
                           Printf.printf "LOGE %s %s %s %d %d %s\n" (hx h) (hx sg.s_name) (hx sg.s_email)
                             (z_to_int sg.s_time) (z_to_int sg.s_off) (hx m)) (log_view w'.w_objs ls)
                 | _ -> ())
            | OErr -> Printf.printf "STEP %d err\n" !n
            | OPanic -> Printf.printf "STEP %d panic\n" !n);
           Stdlib.List.iter (fun e -> Printf.printf "TR %s\n" (effect_name e)) tr;
           print_world w';
           print_string "END\n";
           flush stdout
     done
   with End_of_file -> ())
