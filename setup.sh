#!/bin/sh
# setup: build the translator, regenerate the source-derived Coq file, build every
# .vo (full build, no -vos), extract the model and build the OCaml driver.  Offline.
set -e
here=$(cd "$(dirname "$0")" && pwd)
cd "$here"
export GOFLAGS=-mod=mod GOPROXY=off GOSUMDB=off GOTOOLCHAIN=local CGO_ENABLED=0
mkdir -p build evidence replays
export GOCACHE="$here/build/gocache"
(cd tools/srcfacts && go build -o "$here/build/srcfacts" .)
build/srcfacts "${VERIF_REPO:-/repo}" coq/SrcRegex.v || echo "setup: translator failed on the current tree (the checks will report it)"
(cd coq && coq_makefile -f _CoqProject -o Makefile >/dev/null && timeout 3000 make -j16 -k > ../build/coq-build.log 2>&1) || echo "setup: some Coq files did not build (the checks will report which)"
modeldrv/build.sh
echo "setup done"
