(* DiffFacts.v — C07: the staged-changes report ([diff_with_tree]) is exact, and
   it is empty exactly when the staging area equals the HEAD snapshot (the
   condition under which [cmd_commit] refuses with "nothing to commit").

   Hypothesis chosen for the HEAD forest [its] (a list of [item]s, the decoded
   tree is [map node_of its]):

       Forall wf_item its   /\   Canonical (flat_items [] its)

   i.e. the names are valid components and the snapshot, flattened in tree
   order, is strictly ascending by path.  Nothing else is needed: no
   sibling-uniqueness condition, no [adj_ok].  Reason: [get_node] returns the
   FIRST node (in depth-first order, with back-tracking over same-named
   directories) that sits at the path; in a sorted snapshot a file [p] precedes
   every entry [p/...], so whenever [p] is a file in the snapshot the first hit
   is that file.  The trees Goit writes from a sorted staging area satisfy the
   hypothesis by [group_wf] / [group_flat] ([group_head_ok]).
   The hypothesis cannot be dropped: see [ex_dir_before_file].

   Main results
     get_node_fuel_enough       any fuel > path_depth p is enough
     get_node_leaf_iff          get_node finds a leaf at p  <->  p is in the snapshot
     get_node_leaf_id           ... and the id is the id recorded in the snapshot
     diff_exact                 membership in the report, exactly
     diff_nil_iff, diff_nil_eq  empty report <-> same set <-> es = snapshot
     diff_after_commit          the report is empty right after a commit
     diff_nil_after_commit_inv  an empty report means the staging area is the committed one
     ex_c07_*                   non-vacuity (test-data / test.c / test/a) *)
From Coq Require Import Strings.Byte.
From Coq Require Import List Bool NArith Arith Lia.
From Goit Require Import Bytes Sha1 Obj Tree Index BytesFacts IndexFacts TreeFacts.
Import ListNotations.

#[local] Arguments sha1 : simpl never.
#[local] Arguments obj_id : simpl never.

(* ================================================================== *)
(** * Order facts *)

Lemma df_blt_app_head : forall q a b, blt (q ++ a) (q ++ b) = blt a b.
Proof.
  induction q as [|c q IH]; intros a b; [reflexivity|].
  rewrite <- !app_comm_cons, blt_cons, N.ltb_irrefl. apply IH.
Qed.

Lemma df_blt_push : forall n c a b, blt (n ++ c :: a) (n ++ c :: b) = blt a b.
Proof.
  intros n c a b. rewrite df_blt_app_head, blt_cons, N.ltb_irrefl. reflexivity.
Qed.

(* a proper extension is never smaller than its prefix *)
Lemma df_blt_app_self : forall a b, blt (a ++ b) a = false.
Proof.
  induction a as [|c a IH]; intros b.
  - destruct b; reflexivity.
  - rewrite <- app_comm_cons, blt_cons, N.ltb_irrefl. apply IH.
Qed.

Lemma Canonical_app_inv : forall a b : list entry,
  Canonical (a ++ b) ->
  Canonical a /\ Canonical b /\
  forall x y, In x a -> In y b -> blt (e_path x) (e_path y) = true.
Proof.
  induction a as [|x a IH]; intros b Hc.
  - split; [apply Canonical_nil|]. split; [exact Hc|]. intros u v Hu. contradiction.
  - rewrite <- app_comm_cons in Hc.
    destruct (Canonical_cons_inv _ _ Hc) as [Hc' Hall].
    destruct (IH b Hc') as [Ha [Hb Hlt]]. rewrite Forall_forall in Hall.
    split; [|split; [exact Hb|]].
    + apply Canonical_cons; [exact Ha|]. intros u Hu. apply Hall. apply in_or_app. left. exact Hu.
    + intros u v [Hu|Hu] Hv.
      * subst u. apply Hall. apply in_or_app. right. exact Hv.
      * apply Hlt; assumption.
Qed.

Lemma Canonical_push_inv : forall n l, Canonical (map (push n) l) -> Canonical l.
Proof.
  intros n. induction l as [|a l IH]; intros Hc; [apply Canonical_nil|].
  cbn [map] in Hc. destruct (Canonical_cons_inv _ _ Hc) as [Hc' Hall].
  rewrite Forall_forall in Hall.
  apply Canonical_cons; [apply IH; exact Hc'|].
  intros b Hb. specialize (Hall (push n b) (in_map _ _ _ Hb)).
  unfold push in Hall. cbn [e_path] in Hall. rewrite df_blt_push in Hall. exact Hall.
Qed.

(* two strictly ascending lists with the same elements are equal *)
Lemma Canonical_ext : forall a b : list entry,
  Canonical a -> Canonical b -> (forall e, In e a <-> In e b) -> a = b.
Proof.
  induction a as [|x a IH]; intros b Ha Hb H.
  - destruct b as [|y b]; [reflexivity|]. exfalso.
    apply (proj2 (H y)). left. reflexivity.
  - destruct b as [|y b].
    { exfalso. apply (proj1 (H x)). left. reflexivity. }
    destruct (Canonical_cons_inv _ _ Ha) as [Ha' Hax].
    destruct (Canonical_cons_inv _ _ Hb) as [Hb' Hby].
    rewrite Forall_forall in Hax, Hby.
    assert (Hxy : x = y).
    { destruct (proj1 (H x) (or_introl eq_refl)) as [Hyx|Hxb]; [symmetry; exact Hyx|].
      destruct (proj2 (H y) (or_introl eq_refl)) as [Hxy|Hya]; [exact Hxy|].
      pose proof (Hby x Hxb) as L1. pose proof (Hax y Hya) as L2.
      rewrite (ix_blt_asym _ _ L1) in L2. discriminate. }
    subst y. f_equal. apply IH; [exact Ha'|exact Hb'|].
    intros e. split; intros He.
    + destruct (proj1 (H e) (or_intror He)) as [Hex|Heb]; [|exact Heb].
      subst e. pose proof (Hax x He) as L. rewrite ix_blt_irrefl in L. discriminate.
    + destruct (proj2 (H e) (or_intror He)) as [Hex|Hea]; [|exact Hea].
      subst e. pose proof (Hby x He) as L. rewrite ix_blt_irrefl in L. discriminate.
Qed.

Lemma entry_eta : forall e : entry, e = mkE (e_id e) (e_path e).
Proof. intros [i p]. reflexivity. Qed.

(* ================================================================== *)
(** * Items: induction, flattening *)

Lemma item_ind' : forall P : item -> Prop,
  (forall n id, P (IFile n id)) ->
  (forall n sub, Forall P sub -> P (IDir n sub)) ->
  forall i, P i.
Proof.
  intros P Hf Hd. fix IH 1. intros [n id | n sub].
  - apply Hf.
  - apply Hd. induction sub as [|x sub IHs]; constructor; [apply IH|exact IHs].
Qed.

Lemma flat_items_cons : forall pre i its,
  flat_items pre (i :: its) = flat_item pre i ++ flat_items pre its.
Proof. reflexivity. Qed.

Lemma wf_flat_item_nonempty : forall i, wf_item i -> forall pre, flat_item pre i <> [].
Proof.
  induction i as [n id | n sub IHsub] using item_ind'; intros Hwf pre.
  - discriminate.
  - inversion Hwf as [|? ? Hn Hne Hsub]; subst.
    destruct sub as [|x sub]; [contradiction|].
    inversion IHsub as [|? ? Hx _]; subst. inversion Hsub as [|? ? Hwx _]; subst.
    rewrite flat_item_dir, flat_items_cons. intros X. apply app_eq_nil in X.
    destruct X as [X _]. exact (Hx Hwx _ X).
Qed.

Lemma wf_dir_entry : forall n sub, wf_item (IDir n sub) ->
  exists e, In e (flat_items [] sub).
Proof.
  intros n sub Hwf. inversion Hwf as [|? ? Hn Hne Hsub]; subst.
  destruct sub as [|x sub]; [contradiction|]. inversion Hsub as [|? ? Hwx _]; subst.
  rewrite flat_items_cons. pose proof (wf_flat_item_nonempty x Hwx []) as Hx.
  destruct (flat_item [] x) as [|e l]; [contradiction|]. exists e. left. reflexivity.
Qed.

Lemma wf_dir_not_leaf : forall n sub, wf_item (IDir n sub) ->
  is_leaf (node_of (IDir n sub)) = false.
Proof.
  intros n sub Hwf. inversion Hwf as [|? ? Hn Hne Hsub]; subst.
  rewrite node_of_dir. destruct sub; [contradiction|reflexivity].
Qed.

(* ================================================================== *)
(** * Unfolding equation for the scan inside [get_node_fuel] *)

Section GnScan.
  Variable rec : list node -> bytes -> option node.
  Variable name : bytes.
  Variable rest : option bytes.
  Fixpoint gn_scan (l : list node) : option node :=
    match l with
    | [] => None
    | c :: r =>
        if bytes_eqb (n_name c) name then
          match rest with
          | None => Some c
          | Some p' =>
              if is_leaf c then gn_scan r
              else match rec (n_children c) p' with
                   | Some x => Some x
                   | None => gn_scan r
                   end
          end
        else gn_scan r
    end.
End GnScan.

Lemma get_node_fuel_S : forall f ns path,
  get_node_fuel (S f) ns path =
  gn_scan (get_node_fuel f) (fst (split1 c_slash path)) (snd (split1 c_slash path)) ns.
Proof.
  intros f ns path.
  change (get_node_fuel (S f) ns path)
    with (let '(name, rest) := split1 c_slash path in gn_scan (get_node_fuel f) name rest ns).
  destruct (split1 c_slash path) as [name rest]. reflexivity.
Qed.

(* ================================================================== *)
(** * 1. [get_node] on a well-formed, sorted forest *)

Definition paths_of (its : list item) : list bytes := map e_path (flat_items [] its).

(* what a node found at [p] witnesses about the flattened forest *)
Definition hit (its : list item) (p : bytes) (x : node) : Prop :=
  (is_leaf x = true /\ In (mkE (n_id x) p) (flat_items [] its)) \/
  (is_leaf x = false /\
   exists e s, In e (flat_items [] its) /\ e_path e = p ++ c_slash :: s).

Lemma hit_tail : forall i its p x, hit its p x -> hit (i :: its) p x.
Proof.
  intros i its p x [[Hl Hin]|[Hl [e [s [Hin Hp]]]]].
  - left. split; [exact Hl|]. rewrite flat_items_cons. apply in_or_app. right. exact Hin.
  - right. split; [exact Hl|]. exists e, s. split; [|exact Hp].
    rewrite flat_items_cons. apply in_or_app. right. exact Hin.
Qed.

Lemma hit_sub : forall n sub its p' x,
  wf_item (IDir n sub) -> hit sub p' x -> hit (IDir n sub :: its) (n ++ c_slash :: p') x.
Proof.
  intros n sub its p' x Hwf [[Hl Hin]|[Hl [e [s [Hin Hp]]]]].
  - left. split; [exact Hl|]. rewrite flat_items_cons, (flat_item_dir_push n sub Hwf).
    apply in_or_app. left.
    change (mkE (n_id x) (n ++ c_slash :: p')) with (push n (mkE (n_id x) p')).
    apply in_map. exact Hin.
  - right. split; [exact Hl|]. exists (push n e), s. split.
    + rewrite flat_items_cons, (flat_item_dir_push n sub Hwf).
      apply in_or_app. left. apply in_map. exact Hin.
    + unfold push. cbn [e_path]. rewrite Hp, <- app_assoc. reflexivity.
Qed.

(* soundness: any fuel, no order needed *)
Lemma gn_sound : forall f its p x,
  Forall wf_item its ->
  get_node_fuel f (map node_of its) p = Some x -> hit its p x.
Proof.
  induction f as [|f IH]; intros its p x Hwf H; [discriminate|].
  rewrite get_node_fuel_S in H.
  destruct (split1 c_slash p) as [name rest] eqn:E. cbn [fst snd] in H.
  revert Hwf H. induction its as [|i its IHl]; intros Hwf H; [discriminate|].
  inversion Hwf as [|? ? Hi Hwf']; subst.
  cbn [map gn_scan] in H.
  destruct (bytes_eqb (n_name (node_of i)) name) eqn:En.
  2:{ apply hit_tail. apply IHl; assumption. }
  apply bytes_eqb_eq in En.
  destruct rest as [p'|].
  - destruct (tf_split1_some_inv _ _ _ _ E) as [Hp _].
    destruct (is_leaf (node_of i)) eqn:El.
    + apply hit_tail. apply IHl; assumption.
    + destruct (get_node_fuel f (n_children (node_of i)) p') as [y|] eqn:R.
      * inversion H; subst y. destruct i as [n id | n sub]; [discriminate El|].
        rewrite node_of_dir in En, R. cbn [n_name n_children] in En, R.
        rewrite Hp, <- En. apply hit_sub; [exact Hi|].
        apply (IH sub p' x); [|exact R]. inversion Hi; assumption.
      * apply hit_tail. apply IHl; assumption.
  - destruct (tf_split1_none_inv _ _ _ E) as [Hp _]. inversion H; subst x.
    destruct i as [n id | n sub].
    + left. split; [reflexivity|]. cbn [node_of n_name n_id] in *.
      rewrite flat_items_cons. apply in_or_app. left. left.
      cbn [join_path]. congruence.
    + right. split; [exact (wf_dir_not_leaf n sub Hi)|].
      destruct (wf_dir_entry n sub Hi) as [e He].
      rewrite node_of_dir in En. cbn [n_name] in En.
      exists (push n e), (e_path e). split.
      * rewrite flat_items_cons, (flat_item_dir_push n sub Hi).
        apply in_or_app. left. apply in_map. exact He.
      * unfold push. cbn [e_path]. congruence.
Qed.

(* completeness: fuel above the depth of the path, sorted snapshot *)
Lemma gn_complete : forall f its p,
  path_depth p < f -> Forall wf_item its ->
  Canonical (flat_items [] its) -> In p (paths_of its) ->
  exists x, get_node_fuel f (map node_of its) p = Some x /\ is_leaf x = true.
Proof.
  unfold paths_of.
  induction f as [|f IH]; intros its p Hf Hwf Hc Hin; [lia|].
  rewrite get_node_fuel_S.
  destruct (split1 c_slash p) as [name rest] eqn:E. cbn [fst snd].
  revert Hwf Hc Hin. induction its as [|i its IHl]; intros Hwf Hc Hin; [contradiction|].
  inversion Hwf as [|? ? Hi Hwf']; subst.
  rewrite flat_items_cons in Hc, Hin.
  destruct (Canonical_app_inv _ _ Hc) as [Hc1 [Hc2 Hlt]].
  rewrite map_app in Hin. apply in_app_or in Hin.
  cbn [map gn_scan].
  destruct i as [n id | n sub].
  - (* a file item *)
    inversion Hi as [? ? Hn Hid|]; subst. cbn [node_of n_name].
    change (is_leaf (Node id n [])) with true.
    destruct (ix_bytes_dec p n) as [Hpn|Hpn].
    + subst p. rewrite (tf_split1_none _ _ (proj1 (proj2 Hn))) in E.
      inversion E; subst. rewrite bytes_eqb_refl.
      exists (Node id name []). split; reflexivity.
    + assert (Hin' : In p (map e_path (flat_items [] its))).
      { destruct Hin as [Hin|Hin]; [|exact Hin]. cbn in Hin.
        destruct Hin as [Hin|[]]. congruence. }
      specialize (IHl Hwf' Hc2 Hin').
      destruct (bytes_eqb n name) eqn:En; [|exact IHl].
      destruct rest as [p'|]; [exact IHl|].
      apply bytes_eqb_eq in En. apply tf_split1_none_inv in E. destruct E as [E _].
      congruence.
  - (* a directory item *)
    pose proof Hi as Hi0. inversion Hi as [|? ? Hn Hne Hsub]; subst.
    rewrite (flat_item_dir_push n sub Hi0) in Hc1, Hlt, Hin.
    pose proof (wf_dir_not_leaf n sub Hi0) as Hleaf.
    rewrite node_of_dir in *. cbn [n_name n_children]. rewrite Hleaf.
    destruct (bytes_eqb n name) eqn:En.
    2:{ apply IHl; try assumption. destruct Hin as [Hin|Hin]; [|exact Hin]. exfalso.
        rewrite map_map in Hin. apply in_map_iff in Hin. destruct Hin as [e [He _]].
        unfold push in He. cbn [e_path] in He. subst p.
        rewrite (tf_split1_app_sep c_slash n (e_path e) (proj1 (proj2 Hn))) in E.
        inversion E; subst. rewrite bytes_eqb_refl in En. discriminate. }
    apply bytes_eqb_eq in En. subst name.
    destruct rest as [p'|].
    + destruct (tf_split1_some_inv _ _ _ _ E) as [Hp _].
      assert (Hd : path_depth p' < f).
      { rewrite (tf_path_depth_split _ _ _ E) in Hf. lia. }
      destruct Hin as [Hin|Hin].
      * assert (Hin' : In p' (map e_path (flat_items [] sub))).
        { rewrite map_map in Hin. apply in_map_iff in Hin. destruct Hin as [e [He Hein]].
          unfold push in He. cbn [e_path] in He. rewrite Hp in He.
          apply app_inv_head in He. inversion He as [He']. apply in_map. exact Hein. }
        destruct (IH sub p' Hd Hsub (Canonical_push_inv _ _ Hc1) Hin') as [x [Hx Hl]].
        rewrite Hx. exists x. split; [reflexivity|exact Hl].
      * destruct (get_node_fuel f (map node_of sub) p') as [y|] eqn:R.
        -- exists y. split; [reflexivity|].
           destruct (gn_sound f sub p' y Hsub R) as [[Hl _]|[Hl [e [s [He Hpe]]]]]; [exact Hl|].
           exfalso. apply in_map_iff in Hin. destruct Hin as [h [Hh Hhin]].
           pose proof (Hlt (push n e) h (in_map _ _ _ He) Hhin) as Hb.
           unfold push in Hb. cbn [e_path] in Hb. rewrite Hpe, Hh, Hp in Hb.
           replace (n ++ c_slash :: p' ++ c_slash :: s)
             with ((n ++ c_slash :: p') ++ c_slash :: s) in Hb
             by (rewrite <- app_assoc; reflexivity).
           rewrite df_blt_app_self in Hb. discriminate.
        -- apply IHl; assumption.
    + (* the path is the bare directory name: impossible in a sorted snapshot *)
      exfalso. apply tf_split1_none_inv in E. destruct E as [E _]. subst p.
      destruct Hin as [Hin|Hin].
      * rewrite map_map in Hin. apply in_map_iff in Hin. destruct Hin as [e [He _]].
        unfold push in He. cbn [e_path] in He.
        apply (f_equal (@length byte)) in He. rewrite app_length in He. cbn [length] in He. lia.
      * destruct (wf_dir_entry n sub Hi0) as [e He].
        apply in_map_iff in Hin. destruct Hin as [h [Hh Hhin]].
        pose proof (Hlt (push n e) h (in_map _ _ _ He) Hhin) as Hb.
        unfold push in Hb. cbn [e_path] in Hb. rewrite Hh, df_blt_app_self in Hb.
        discriminate.
Qed.

(** the fuel [get_node] passes is enough (any fuel above the depth is) *)
Theorem get_node_fuel_enough : forall its p f,
  Forall wf_item its -> Canonical (flat_items [] its) ->
  In p (paths_of its) -> path_depth p < f ->
  exists x, get_node_fuel f (map node_of its) p = Some x /\ is_leaf x = true /\
            In (mkE (n_id x) p) (flat_items [] its).
Proof.
  intros its p f Hwf Hc Hin Hf.
  destruct (gn_complete f its p Hf Hwf Hc Hin) as [x [Hx Hl]].
  exists x. split; [exact Hx|]. split; [exact Hl|].
  destruct (gn_sound f its p x Hwf Hx) as [[_ H]|[Hl' _]]; [exact H|congruence].
Qed.

Theorem get_node_leaf_id : forall its p n,
  Forall wf_item its ->
  get_node (map node_of its) p = Some n -> is_leaf n = true ->
  In (mkE (n_id n) p) (flat_items [] its).
Proof.
  intros its p n Hwf Hg Hl. unfold get_node in Hg.
  destruct (gn_sound _ its p n Hwf Hg) as [[_ H]|[Hl' _]]; [exact H|congruence].
Qed.

Theorem get_node_leaf_iff : forall its,
  Forall wf_item its -> Canonical (flat_items [] its) ->
  forall p,
  (exists n, get_node (map node_of its) p = Some n /\ is_leaf n = true) <-> In p (paths_of its).
Proof.
  intros its Hwf Hc p. split.
  - intros [n [Hg Hl]]. pose proof (get_node_leaf_id its p n Hwf Hg Hl) as Hin.
    unfold paths_of. apply in_map_iff. exists (mkE (n_id n) p). split; [reflexivity|exact Hin].
  - intros Hin. unfold get_node. apply gn_complete; [lia|assumption..].
Qed.

(* the leaf found carries the id of THE entry with that path *)
Corollary get_node_leaf_entry : forall its p n e,
  Forall wf_item its -> Canonical (flat_items [] its) ->
  get_node (map node_of its) p = Some n -> is_leaf n = true ->
  In e (flat_items [] its) -> e_path e = p -> e_id e = n_id n.
Proof.
  intros its p n e Hwf Hc Hg Hl He Hp.
  pose proof (get_node_leaf_id its p n Hwf Hg Hl) as Hin.
  rewrite (Canonical_path_inj _ e (mkE (n_id n) p) Hc He Hin Hp). reflexivity.
Qed.

(* ================================================================== *)
(** * 2. The report is exact *)

Definition gone_of (es : list entry) (g : entry) : list (dkind * bytes) :=
  match get_entry es (e_path g) with
  | None => [(DDeleted, e_path g)]
  | Some (_, e) => if bytes_eqb (e_id e) (e_id g) then [] else [(DModified, e_path e)]
  end.

Definition fresh_of (ns : list node) (e : entry) : list (dkind * bytes) :=
  match get_node ns (e_path e) with
  | Some n => if is_leaf n then [] else [(DNew, e_path e)]
  | None => [(DNew, e_path e)]
  end.

Lemma diff_with_tree_eq : forall es ns,
  diff_with_tree es ns = flat_map (gone_of es) (flatten [] ns) ++ flat_map (fresh_of ns) es.
Proof. reflexivity. Qed.

Lemma gone_of_spec : forall es g k p,
  Canonical es ->
  (In (k, p) (gone_of es g) <->
   (k = DDeleted /\ p = e_path g /\ ~ In p (map e_path es)) \/
   (k = DModified /\ p = e_path g /\
    exists e, In e es /\ e_path e = p /\ e_id e <> e_id g)).
Proof.
  intros es g k p Hc. unfold gone_of.
  destruct (get_entry es (e_path g)) as [[i e]|] eqn:G.
  - destruct (get_entry_sound es _ i e G) as [Hnth Hpe].
    pose proof (nth_error_In es i Hnth) as Hin.
    destruct (bytes_eqb (e_id e) (e_id g)) eqn:B.
    + apply bytes_eqb_eq in B. split; [intros []|].
      intros [[_ [Hp Hn]]|[_ [Hp [e' [He' [Hpe' Hne]]]]]].
      * apply Hn. subst p. rewrite <- Hpe. apply in_map. exact Hin.
      * assert (e' = e) by (apply (Canonical_path_inj es e' e Hc He' Hin); congruence).
        subst e'. contradiction.
    + apply bytes_eqb_neq in B. split.
      * intros [H|[]]. inversion H; subst. right. split; [reflexivity|]. split; [exact Hpe|].
        exists e. split; [exact Hin|]. split; [reflexivity|exact B].
      * intros [[_ [Hp Hn]]|[Hk [Hp _]]].
        -- exfalso. apply Hn. subst p. rewrite <- Hpe. apply in_map. exact Hin.
        -- left. subst. rewrite Hpe. reflexivity.
  - apply (get_entry_none_iff es _ Hc) in G. unfold paths in G. split.
    + intros [H|[]]. inversion H; subst. left. split; [reflexivity|]. split; [reflexivity|exact G].
    + intros [[Hk [Hp _]]|[_ [Hp [e [He [Hpe _]]]]]].
      * left. subst. reflexivity.
      * exfalso. apply G. subst p. rewrite <- Hpe. apply in_map. exact He.
Qed.

Lemma fresh_of_spec : forall its e k p,
  Forall wf_item its -> Canonical (flat_items [] its) ->
  (In (k, p) (fresh_of (map node_of its) e) <->
   k = DNew /\ p = e_path e /\ ~ In p (paths_of its)).
Proof.
  intros its e k p Hwf Hc. unfold fresh_of.
  pose proof (get_node_leaf_iff its Hwf Hc (e_path e)) as Hiff.
  destruct (get_node (map node_of its) (e_path e)) as [n|] eqn:G.
  - destruct (is_leaf n) eqn:L.
    + split; [intros []|]. intros [_ [Hp Hn]]. apply Hn. subst p.
      apply Hiff. exists n. split; [reflexivity|exact L].
    + split.
      * intros [H|[]]. inversion H; subst. split; [reflexivity|]. split; [reflexivity|].
        intros Hin. apply Hiff in Hin. destruct Hin as [n' [Hn' L']].
        inversion Hn'; subst n'. congruence.
      * intros [Hk [Hp _]]. left. subst. reflexivity.
  - split.
    + intros [H|[]]. inversion H; subst. split; [reflexivity|]. split; [reflexivity|].
      intros Hin. apply Hiff in Hin. destruct Hin as [n' [Hn' _]]. discriminate.
    + intros [Hk [Hp _]]. left. subst. reflexivity.
Qed.

Theorem diff_exact : forall es its,
  Canonical es -> Forall wf_item its -> Canonical (flat_items [] its) ->
  forall k p,
  In (k, p) (diff_with_tree es (map node_of its)) <->
  (k = DDeleted /\ In p (map e_path (flat_items [] its)) /\ ~ In p (map e_path es)) \/
  (k = DModified /\ exists e h, In e es /\ In h (flat_items [] its) /\
                                e_path e = p /\ e_path h = p /\ e_id e <> e_id h) \/
  (k = DNew /\ In p (map e_path es) /\ ~ In p (map e_path (flat_items [] its))).
Proof.
  intros es its Hes Hwf Hhs k p.
  rewrite diff_with_tree_eq,
          (flatten_nodes (S (ldepth its)) its [] (Nat.lt_succ_diag_r _) Hwf).
  rewrite in_app_iff, !in_flat_map. split.
  - intros [[g [Hg Hin]]|[e [He Hin]]].
    + apply (gone_of_spec es g k p Hes) in Hin.
      destruct Hin as [[Hk [Hp Hn]]|[Hk [Hp [e [He [Hpe Hne]]]]]].
      * left. split; [exact Hk|]. split; [|exact Hn]. subst p. apply in_map. exact Hg.
      * right. left. split; [exact Hk|]. exists e, g.
        split; [exact He|]. split; [exact Hg|]. split; [exact Hpe|]. split; [symmetry; exact Hp|exact Hne].
    + apply (fresh_of_spec its e k p Hwf Hhs) in Hin. destruct Hin as [Hk [Hp Hn]].
      right. right. split; [exact Hk|]. split; [|exact Hn]. subst p. apply in_map. exact He.
  - intros [[Hk [Hin Hn]]|[[Hk [e [h [He [Hh [Hpe [Hph Hne]]]]]]]|[Hk [Hin Hn]]]].
    + left. apply in_map_iff in Hin. destruct Hin as [g [Hg Hgin]]. exists g.
      split; [exact Hgin|]. apply (gone_of_spec es g k p Hes). left.
      split; [exact Hk|]. split; [symmetry; exact Hg|exact Hn].
    + left. exists h. split; [exact Hh|]. apply (gone_of_spec es h k p Hes). right.
      split; [exact Hk|]. split; [symmetry; exact Hph|]. exists e.
      split; [exact He|]. split; [exact Hpe|exact Hne].
    + right. apply in_map_iff in Hin. destruct Hin as [e [He Hein]]. exists e.
      split; [exact Hein|]. apply (fresh_of_spec its e k p Hwf Hhs).
      split; [exact Hk|]. split; [symmetry; exact He|exact Hn].
Qed.

(* ================================================================== *)
(** * 3. The report is empty iff the staging area is the HEAD snapshot *)

Theorem diff_nil_iff : forall es its,
  Canonical es -> Forall wf_item its -> Canonical (flat_items [] its) ->
  (diff_with_tree es (map node_of its) = [] <->
   forall p id, In (mkE id p) es <-> In (mkE id p) (flat_items [] its)).
Proof.
  intros es its Hes Hwf Hhs. pose proof (diff_exact es its Hes Hwf Hhs) as Hex. split.
  - intros Hnil. rewrite Hnil in Hex.
    assert (Hno : forall k p,
      ((k = DDeleted /\ In p (map e_path (flat_items [] its)) /\ ~ In p (map e_path es)) \/
       (k = DModified /\ exists e h, In e es /\ In h (flat_items [] its) /\
                                     e_path e = p /\ e_path h = p /\ e_id e <> e_id h) \/
       (k = DNew /\ In p (map e_path es) /\ ~ In p (map e_path (flat_items [] its)))) -> False).
    { intros k p H. apply (Hex k p) in H. exact H. }
    intros p id. split; intros Hin.
    + destruct (in_dec bytes_eq_dec p (map e_path (flat_items [] its))) as [Hi|Hn].
      * apply in_map_iff in Hi. destruct Hi as [h [Hph Hh]].
        destruct (bytes_eq_dec id (e_id h)) as [Hid|Hid].
        -- rewrite (entry_eta h) in Hh. rewrite Hid, <- Hph. exact Hh.
        -- exfalso. apply (Hno DModified p). right. left. split; [reflexivity|].
           exists (mkE id p), h. repeat split; try assumption.
      * exfalso. apply (Hno DNew p). right. right. split; [reflexivity|].
        split; [|exact Hn]. apply in_map_iff. exists (mkE id p). split; [reflexivity|exact Hin].
    + destruct (in_dec bytes_eq_dec p (map e_path es)) as [Hi|Hn].
      * apply in_map_iff in Hi. destruct Hi as [e [Hpe He]].
        destruct (bytes_eq_dec (e_id e) id) as [Hid|Hid].
        -- rewrite (entry_eta e) in He. rewrite <- Hid, <- Hpe. exact He.
        -- exfalso. apply (Hno DModified p). right. left. split; [reflexivity|].
           exists e, (mkE id p). repeat split; try assumption.
      * exfalso. apply (Hno DDeleted p). left. split; [reflexivity|].
        split; [|exact Hn]. apply in_map_iff. exists (mkE id p). split; [reflexivity|exact Hin].
  - intros Hset.
    destruct (diff_with_tree es (map node_of its)) as [|[k p] l] eqn:D; [reflexivity|].
    exfalso. destruct (proj1 (Hex k p) (or_introl eq_refl))
      as [[_ [Hin Hn]]|[[_ [e [h [He [Hh [Hpe [Hph Hne]]]]]]]|[_ [Hin Hn]]]].
    + apply Hn. apply in_map_iff in Hin. destruct Hin as [h [Hph Hh]].
      rewrite (entry_eta h) in Hh. apply Hset in Hh.
      apply in_map_iff. exists (mkE (e_id h) (e_path h)). split; [exact Hph|exact Hh].
    + apply Hne. rewrite (entry_eta e) in He. apply Hset in He.
      assert (X : mkE (e_id e) (e_path e) = h).
      { apply (Canonical_path_inj _ _ _ Hhs He Hh). cbn [e_path]. congruence. }
      rewrite <- X. reflexivity.
    + apply Hn. apply in_map_iff in Hin. destruct Hin as [e [Hpe He]].
      rewrite (entry_eta e) in He. apply Hset in He.
      apply in_map_iff. exists (mkE (e_id e) (e_path e)). split; [exact Hpe|exact He].
Qed.

(** stronger: both sides are sorted, so they are the same LIST *)
Theorem diff_nil_eq : forall es its,
  Canonical es -> Forall wf_item its -> Canonical (flat_items [] its) ->
  (diff_with_tree es (map node_of its) = [] <-> es = flat_items [] its).
Proof.
  intros es its Hes Hwf Hhs. rewrite (diff_nil_iff es its Hes Hwf Hhs). split.
  - intros Hset. apply Canonical_ext; [exact Hes|exact Hhs|].
    intros e. rewrite (entry_eta e). apply Hset.
  - intros ->. intros p id. reflexivity.
Qed.

(* ================================================================== *)
(** * 4. The trees Goit writes from the staging area *)

Lemma group_head_ok : forall es0 its,
  Canonical es0 -> Forall valid_entry es0 -> group_top es0 = Some its ->
  Forall wf_item its /\ flat_items [] its = es0 /\ Canonical (flat_items [] its).
Proof.
  intros es0 its Hc Hv Hg. unfold group_top in Hg.
  pose proof (group_wf bytes_eqb_eq _ es0 its Hv Hg) as Hwf.
  pose proof (group_flat bytes_eqb_eq _ es0 its Hv Hg) as Hfl.
  split; [exact Hwf|]. split; [exact Hfl|]. rewrite Hfl. exact Hc.
Qed.

(** right after a commit nothing is reported as staged *)
Theorem diff_after_commit : forall es0 its,
  Canonical es0 -> Forall valid_entry es0 -> group_top es0 = Some its ->
  diff_with_tree es0 (map node_of its) = [].
Proof.
  intros es0 its Hc Hv Hg. destruct (group_head_ok es0 its Hc Hv Hg) as [Hwf [Hfl Hhs]].
  apply (diff_nil_eq es0 its Hc Hwf Hhs). symmetry. exact Hfl.
Qed.

(** and an empty report means the staging area is exactly the committed one *)
Theorem diff_nil_after_commit_inv : forall es0 its es,
  Canonical es0 -> Forall valid_entry es0 -> group_top es0 = Some its ->
  Canonical es -> diff_with_tree es (map node_of its) = [] -> es = es0.
Proof.
  intros es0 its es Hc Hv Hg Hes Hnil.
  destruct (group_head_ok es0 its Hc Hv Hg) as [Hwf [Hfl Hhs]].
  rewrite <- Hfl. apply (diff_nil_eq es its Hes Hwf Hhs). exact Hnil.
Qed.

(** the report against the committed tree, in terms of the committed entries *)
Theorem diff_exact_commit : forall es0 its es,
  Canonical es0 -> Forall valid_entry es0 -> group_top es0 = Some its ->
  Canonical es ->
  forall k p,
  In (k, p) (diff_with_tree es (map node_of its)) <->
  (k = DDeleted /\ In p (map e_path es0) /\ ~ In p (map e_path es)) \/
  (k = DModified /\ exists e h, In e es /\ In h es0 /\
                                e_path e = p /\ e_path h = p /\ e_id e <> e_id h) \/
  (k = DNew /\ In p (map e_path es) /\ ~ In p (map e_path es0)).
Proof.
  intros es0 its es Hc Hv Hg Hes k p.
  destruct (group_head_ok es0 its Hc Hv Hg) as [Hwf [Hfl Hhs]].
  rewrite (diff_exact es its Hes Hwf Hhs k p), Hfl. reflexivity.
Qed.

(* ================================================================== *)
(** * 5. Non-vacuity *)

From Coq Require Import Strings.String.

Definition c07_id1 : bytes := repeat x01 20.
Definition c07_id2 : bytes := repeat x02 20.
Definition c07_id3 : bytes := repeat x00 20.
Definition c07_id4 : bytes := repeat x0a 10 ++ repeat x20 10.

(* byte order: '-' (2d) < '.' (2e) < '/' (2f) *)
Definition c07_head : list entry :=
  [ mkE c07_id1 (str "test-data"%string);
    mkE c07_id2 (str "test.c"%string);
    mkE c07_id3 (str "test/a"%string) ].

Definition c07_stage : list entry :=
  [ mkE c07_id1 (str "test-data"%string);
    mkE c07_id4 (str "test.c"%string);
    mkE c07_id3 (str "test/a"%string);
    mkE c07_id2 (str "test/b"%string) ].

Definition c07_its : list item :=
  match group_top c07_head with Some its => its | None => [] end.

Example ex_c07_group : group_top c07_head = Some c07_its.
Proof. vm_compute. reflexivity. Qed.

Example ex_c07_shape :
  map (fun i => match i with IFile n _ => (false, n) | IDir n _ => (true, n) end) c07_its
  = [(false, str "test-data"%string); (false, str "test.c"%string); (true, str "test"%string)].
Proof. vm_compute. reflexivity. Qed.

Example ex_c07_head_canonical : Canonical c07_head.
Proof. repeat constructor. Qed.

Example ex_c07_stage_canonical : Canonical c07_stage.
Proof. repeat constructor. Qed.

Example ex_c07_head_valid : Forall valid_entry c07_head.
Proof. unfold c07_head, valid_entry, valid_path. simpl. tf_valid. Qed.

Example ex_c07_diff :
  diff_with_tree c07_stage (map node_of c07_its)
  = [(DModified, str "test.c"%string); (DNew, str "test/b"%string)].
Proof. vm_compute. reflexivity. Qed.

Example ex_c07_diff_self : diff_with_tree c07_head (map node_of c07_its) = [].
Proof. vm_compute. reflexivity. Qed.

(* the general theorems apply to this instance *)
Example ex_c07_by_theorem : diff_with_tree c07_head (map node_of c07_its) = [].
Proof.
  exact (diff_after_commit c07_head c07_its ex_c07_head_canonical ex_c07_head_valid ex_c07_group).
Qed.

Example ex_c07_stage_differs : diff_with_tree c07_stage (map node_of c07_its) <> [].
Proof.
  intros H.
  pose proof (diff_nil_after_commit_inv c07_head c07_its c07_stage
                ex_c07_head_canonical ex_c07_head_valid ex_c07_group
                ex_c07_stage_canonical H) as X.
  discriminate X.
Qed.

(* a file [d] and a directory [d] side by side (entries d, d-x, d/x) *)
Definition c07_clash : list entry :=
  [ mkE c07_id1 (str "d"%string); mkE c07_id2 (str "d-x"%string); mkE c07_id3 (str "d/x"%string) ].
Definition c07_clash_its : list item :=
  match group_top c07_clash with Some its => its | None => [] end.

Example ex_c07_clash_shape :
  map (fun i => match i with IFile n _ => (false, n) | IDir n _ => (true, n) end) c07_clash_its
  = [(false, str "d"%string); (false, str "d-x"%string); (true, str "d"%string)].
Proof. vm_compute. reflexivity. Qed.

Example ex_c07_clash_diff : diff_with_tree c07_clash (map node_of c07_clash_its) = [].
Proof. vm_compute. reflexivity. Qed.

(* The order hypothesis on the HEAD forest cannot be dropped: with the directory
   [d] BEFORE the file [d] (a forest no sorted staging area produces), the look-up
   of "d" stops at the directory, and a staged, unchanged "d" would be reported
   as new. *)
Definition c07_bad_its : list item :=
  [ IDir (str "d"%string) [IFile (str "x"%string) c07_id3]; IFile (str "d"%string) c07_id1 ].

Example ex_dir_before_file :
  In (str "d"%string) (paths_of c07_bad_its) /\
  (match get_node (map node_of c07_bad_its) (str "d"%string) with
   | Some n => is_leaf n
   | None => true
   end) = false.
Proof. split; vm_compute; [right; left; reflexivity|reflexivity]. Qed.

Example ex_dir_before_file_not_sorted : ~ Canonical (flat_items [] c07_bad_its).
Proof.
  intros H. apply Canonical_cons_inv in H. destruct H as [_ H].
  inversion H as [|? ? X _]; subst. vm_compute in X. discriminate X.
Qed.

Print Assumptions get_node_fuel_enough.
Print Assumptions get_node_leaf_iff.
Print Assumptions get_node_leaf_id.
Print Assumptions get_node_leaf_entry.
Print Assumptions diff_exact.
Print Assumptions diff_nil_iff.
Print Assumptions diff_nil_eq.
Print Assumptions diff_after_commit.
Print Assumptions diff_nil_after_commit_inv.
Print Assumptions diff_exact_commit.
