(* Extract.v — extraction of the executable model for the correspondence
   driver.  ExtrOcamlBasic only; N, Z, positive, nat and byte stay the
   extracted inductives (no Extract Constant). *)
From Coq Require Extraction.
From Coq Require Import ExtrOcamlBasic.
From Coq Require Import Strings.Byte.
From Coq Require Import List NArith ZArith.
From Goit Require Import Bytes Sha1 Regex GoRegex Obj Refs Tree Index Commit Reflog Config Ignore World Repo LogView.

Definition all_bytes : list byte := map Nb (map N.of_nat (seq 0 256)).

Extraction Language OCaml.
Extraction "model.ml"
  all_bytes bN step w_empty mkEnv
  sha1 hex unhex parse_payload payload obj_id get_obj
  encode_index decode_index get_entry is_dir entries_by_dir
  write_tree_top walk_tree flatten spec_flatten get_node diff_with_tree
  sign_string read_sign parse_commit commit_text
  log_line parse_reflog get_record show_reflog
  cfg_load cfg_render cfg_add
  ign_load ign_match re_search
  re_resetRegexp re_signRegexp re_headRegexp re_branchRegexp re_identRegexp re_directoryRegexp re_sha1Regexp
  reset_arg read_hash dec parse_dec scan_lines
  parse_head render_head parse_ref render_ref get_commit st_set tree_listing kind_s log_view.
