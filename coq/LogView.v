(* LogView.v — what `goit log` shows of one commit: its id, the author it
   reads back (name, e-mail, instant, UTC offset) and the message it reads
   back.  cmd_log (Repo.v) yields the ids; this is the rest of each entry
   (Commit.String in internal/object/commit.go prints exactly these fields).
   Definitions only. *)
From Coq Require Import Strings.Byte.
From Coq Require Import List NArith ZArith.
From Goit Require Import Bytes Obj Commit.
Import ListNotations.

Definition log_entry (st : store) (id : bytes) : option (bytes * option sign * bytes) :=
  match get_commit st id with
  | Some c => Some (hex id, c_author c, c_msg c)
  | None => None
  end.

(* the entries behind the lines cmd_log printed (each line is hex id) *)
Definition log_view (st : store) (lines : list bytes) : list (option (bytes * option sign * bytes)) :=
  map (fun l => match unhex l with Some id => log_entry st id | None => None end) lines.
