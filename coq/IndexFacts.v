(* IndexFacts.v — facts about the staging area model (Index.v).
   Property C06: the staging-area file is canonical and lossless; every
   tracked path is addressable by the binary search. *)
From Coq Require Import Strings.Byte Strings.String.
From Coq Require Import List Bool NArith Arith Sorted Permutation.
From Coq Require Import ZArith Lia ZifyBool ZifyNat ZifyN PreOmega.
From Goit Require Import Bytes Sha1 Obj Tree Index.
Import ListNotations.

Ltac Zify.zify_post_hook ::= Z.div_mod_to_equations.

(* ====================================================================== *)
(* 0. Byte-string facts needed here (prefix ix_ : independent of           *)
(*    BytesFacts.v)                                                        *)
(* ====================================================================== *)

Lemma ix_bN_inj : forall x y : byte, bN x = bN y -> x = y.
Proof.
  intros x y Hxy. unfold bN in Hxy.
  assert (Hs : Some x = Some y).
  { rewrite <- (Byte.of_to_N x), <- (Byte.of_to_N y), Hxy. reflexivity. }
  injection Hs as Hs. exact Hs.
Qed.

Lemma ix_bN_bounded : forall x : byte, (bN x < 256)%N.
Proof.
  intros x. unfold bN. pose proof (Byte.to_N_bounded x) as Hb. lia.
Qed.

Lemma ix_bN_Nb : forall n : N, (n < 256)%N -> bN (Nb n) = n.
Proof.
  intros n Hn. unfold bN, Nb.
  destruct (Byte.of_N n) as [b|] eqn:Hof.
  - apply Byte.to_of_N. exact Hof.
  - apply Byte.of_N_None_iff in Hof. lia.
Qed.

Lemma ix_beqb_eq : forall x y : byte, beqb x y = true <-> x = y.
Proof.
  intros x y. unfold beqb. split.
  - apply Byte.byte_dec_bl.
  - intros Hxy. apply Byte.byte_dec_lb. exact Hxy.
Qed.

Lemma ix_bytes_eqb_eq : forall a b : bytes, bytes_eqb a b = true <-> a = b.
Proof.
  induction a as [|x a IHa]; intros [|y b]; cbn [bytes_eqb].
  - split; reflexivity.
  - split; discriminate.
  - split; discriminate.
  - rewrite andb_true_iff, ix_beqb_eq, IHa. split.
    + intros [Hx Ha]. subst. reflexivity.
    + intros Heq. injection Heq as Hx Ha. split; assumption.
Qed.

Lemma ix_bytes_eqb_refl : forall a : bytes, bytes_eqb a a = true.
Proof. intros a. apply ix_bytes_eqb_eq. reflexivity. Qed.

Lemma ix_bytes_eqb_neq : forall a b : bytes, bytes_eqb a b = false <-> a <> b.
Proof.
  intros a b. split.
  - intros Hf Heq. apply ix_bytes_eqb_eq in Heq. congruence.
  - intros Hne. destruct (bytes_eqb a b) eqn:Heq; [|reflexivity].
    apply ix_bytes_eqb_eq in Heq. contradiction.
Qed.

Lemma ix_bytes_dec : forall a b : bytes, a = b \/ a <> b.
Proof.
  intros a b. destruct (bytes_eqb a b) eqn:Heq.
  - left. apply ix_bytes_eqb_eq. exact Heq.
  - right. apply ix_bytes_eqb_neq. exact Heq.
Qed.

Lemma ix_blt_irrefl : forall a : bytes, blt a a = false.
Proof.
  induction a as [|x a IHa]; cbn [blt].
  - reflexivity.
  - rewrite N.ltb_irrefl. exact IHa.
Qed.

Lemma ix_blt_trans : forall a b c : bytes,
  blt a b = true -> blt b c = true -> blt a c = true.
Proof.
  induction a as [|x a IHa]; intros [|y b] [|z c] Hab Hbc; cbn [blt] in *;
    try discriminate; try reflexivity.
  destruct (N.ltb (bN x) (bN y)) eqn:Hxy.
  - destruct (N.ltb (bN y) (bN z)) eqn:Hyz.
    + assert (Hxz : N.ltb (bN x) (bN z) = true) by lia.
      rewrite Hxz. reflexivity.
    + destruct (N.ltb (bN z) (bN y)) eqn:Hzy; [discriminate|].
      assert (Hxz : N.ltb (bN x) (bN z) = true) by lia.
      rewrite Hxz. reflexivity.
  - destruct (N.ltb (bN y) (bN x)) eqn:Hyx; [discriminate|].
    destruct (N.ltb (bN y) (bN z)) eqn:Hyz.
    + assert (Hxz : N.ltb (bN x) (bN z) = true) by lia.
      rewrite Hxz. reflexivity.
    + destruct (N.ltb (bN z) (bN y)) eqn:Hzy; [discriminate|].
      assert (Hxz : N.ltb (bN x) (bN z) = false) by lia.
      assert (Hzx : N.ltb (bN z) (bN x) = false) by lia.
      rewrite Hxz, Hzx. apply (IHa b c); assumption.
Qed.

Lemma ix_blt_total : forall a b : bytes,
  blt a b = true \/ a = b \/ blt b a = true.
Proof.
  induction a as [|x a IHa]; intros [|y b]; cbn [blt].
  - right. left. reflexivity.
  - left. reflexivity.
  - right. right. reflexivity.
  - destruct (N.ltb (bN x) (bN y)) eqn:Hxy.
    + left. reflexivity.
    + destruct (N.ltb (bN y) (bN x)) eqn:Hyx.
      * right. right. reflexivity.
      * assert (Heq : x = y) by (apply ix_bN_inj; lia).
        subst y. destruct (IHa b) as [Hlt | [Heq | Hgt]].
        -- left. exact Hlt.
        -- right. left. subst b. reflexivity.
        -- right. right. exact Hgt.
Qed.

Lemma ix_blt_asym : forall a b : bytes, blt a b = true -> blt b a = false.
Proof.
  intros a b Hab. destruct (blt b a) eqn:Hba; [|reflexivity].
  pose proof (ix_blt_trans a b a Hab Hba) as Haa.
  rewrite ix_blt_irrefl in Haa. discriminate.
Qed.

Lemma ix_blt_neq : forall a b : bytes, blt a b = true -> a <> b.
Proof.
  intros a b Hab Heq. subst b. rewrite ix_blt_irrefl in Hab. discriminate.
Qed.

Lemma ix_unbe2 : forall x y : byte, unbe [x; y] = (bN x * 256 + bN y)%N.
Proof. intros x y. unfold unbe. cbn [fold_left]. lia. Qed.

Lemma ix_unbe4 : forall x y z w : byte,
  unbe [x; y; z; w] = (((bN x * 256 + bN y) * 256 + bN z) * 256 + bN w)%N.
Proof. intros x y z w. unfold unbe. cbn [fold_left]. lia. Qed.

Lemma ix_unbe_be16 : forall n : N, (n < 65536)%N -> unbe (be16 n) = n.
Proof.
  intros n Hn. unfold be16. rewrite ix_unbe2.
  rewrite !ix_bN_Nb by lia. lia.
Qed.

Lemma ix_unbe_be32 : forall n : N, (n < 4294967296)%N -> unbe (be32 n) = n.
Proof.
  intros n Hn. unfold be32. rewrite ix_unbe4.
  rewrite !ix_bN_Nb by lia. lia.
Qed.

Lemma ix_is_prefix_spec : forall a b : bytes,
  is_prefix a b = true <-> exists r, b = a ++ r.
Proof.
  induction a as [|x a IHa]; intros b; cbn [is_prefix].
  - split; [intros _; exists b; reflexivity | reflexivity].
  - destruct b as [|y b].
    + split; [discriminate | intros [r Hr]; discriminate].
    + rewrite andb_true_iff, ix_beqb_eq, IHa. split.
      * intros [Hxy [r Hr]]. subst. exists r. reflexivity.
      * intros [r Hr]. cbn [app] in Hr. injection Hr as Hxy Hr.
        split; [symmetry; exact Hxy | exists r; exact Hr].
Qed.

Lemma ix_firstn_app_len : forall (A : Type) (n : nat) (a b : list A),
  length a = n -> firstn n (a ++ b) = a.
Proof.
  intros A n a b Hlen. subst n.
  induction a as [|x a IHa]; cbn [length firstn app].
  - reflexivity.
  - rewrite IHa. reflexivity.
Qed.

Lemma ix_skipn_app_len : forall (A : Type) (n : nat) (a b : list A),
  length a = n -> skipn n (a ++ b) = b.
Proof.
  intros A n a b Hlen. subst n.
  induction a as [|x a IHa]; cbn [length skipn app].
  - reflexivity.
  - exact IHa.
Qed.

(* ====================================================================== *)
(* Definitions                                                             *)
(* ====================================================================== *)

Definition paths (es : list entry) := map e_path es.
(* strictly ascending, hence duplicate-free *)
Definition Canonical (es : list entry) : Prop :=
  StronglySorted (fun a b => blt (e_path a) (e_path b) = true) es.
Definition wf_entry (e : entry) : Prop :=
  length (e_id e) = 20 /\ (lenN (e_path e) < 65536)%N.

(* ====================================================================== *)
(* 1. The codec is lossless                                                *)
(* ====================================================================== *)

Lemma decode_entries_step : forall (k : nat) (id l2 p rest : bytes),
  length id = 20 -> length l2 = 2 -> length p = N.to_nat (unbe l2) ->
  decode_entries (S k) (id ++ l2 ++ p ++ rest) =
  match decode_entries k rest with
  | Some r => Some (mkE id p :: r)
  | None => None
  end.
Proof.
  intros k id l2 p rest Hid Hl2 Hp.
  cbn [decode_entries].
  rewrite (ix_firstn_app_len _ 20 id _ Hid).
  rewrite (ix_skipn_app_len _ 20 id _ Hid).
  rewrite (ix_firstn_app_len _ 2 l2 _ Hl2).
  rewrite (ix_skipn_app_len _ 2 l2 _ Hl2).
  rewrite (ix_firstn_app_len _ _ p rest Hp).
  rewrite (ix_skipn_app_len _ _ p rest Hp).
  rewrite Hid, Hl2, Hp, !Nat.eqb_refl. cbn [andb].
  reflexivity.
Qed.

Lemma length_be16 : forall n : N, length (be16 n) = 2.
Proof. intros n. reflexivity. Qed.

(* trailing bytes are ignored *)
Lemma decode_entries_encode : forall (es : list entry) (t : bytes),
  Forall wf_entry es ->
  decode_entries (length es) (flat_map encode_entry es ++ t) = Some es.
Proof.
  induction es as [|e es IHes]; intros t Hwf.
  - reflexivity.
  - inversion Hwf as [|e0 es0 [Hid Hlen] Hwf']. subst e0 es0.
    cbn [length flat_map]. unfold encode_entry at 1.
    rewrite <- !app_assoc.
    rewrite N.mod_small by exact Hlen.
    rewrite decode_entries_step.
    + rewrite (IHes t Hwf'). destruct e as [id p]. reflexivity.
    + exact Hid.
    + apply length_be16.
    + rewrite ix_unbe_be16 by exact Hlen. unfold lenN. lia.
Qed.

Lemma encode_entries_length : forall es : list entry,
  Forall wf_entry es ->
  22 * length es <= length (flat_map encode_entry es).
Proof.
  induction es as [|e es IHes]; intros Hwf.
  - cbn [length flat_map]. lia.
  - inversion Hwf as [|e0 es0 [Hid Hlen] Hwf']. subst e0 es0.
    cbn [length flat_map]. unfold encode_entry at 1.
    rewrite !app_length, length_be16, Hid.
    specialize (IHes Hwf'). lia.
Qed.

Lemma encode_index_shape : forall es : list entry,
  exists h0 h1 h2 h3 h4 h5 h6 h7,
    encode_index es =
    [h0; h1; h2; h3; h4; h5; h6; h7] ++
    be32 (N.of_nat (length es) mod 4294967296) ++ flat_map encode_entry es.
Proof.
  intros es. unfold encode_index, idx_magic.
  unfold be32 at 1. cbn [app]. do 8 eexists. reflexivity.
Qed.

Lemma length_be32 : forall n : N, length (be32 n) = 4.
Proof. intros n. reflexivity. Qed.

Theorem index_roundtrip : forall es : list entry,
  Forall wf_entry es ->
  (N.of_nat (length es) < 4294967296)%N ->
  decode_index (encode_index es) = Some es.
Proof.
  intros es Hwf Hcnt.
  destruct (encode_index_shape es)
    as (h0 & h1 & h2 & h3 & h4 & h5 & h6 & h7 & Hshape).
  rewrite Hshape. clear Hshape.
  rewrite N.mod_small by exact Hcnt.
  unfold decode_index.
  set (cntb := be32 (N.of_nat (length es))).
  set (body := flat_map encode_entry es).
  assert (Hcl : length cntb = 4) by apply length_be32.
  assert (Hlen : length ([h0; h1; h2; h3; h4; h5; h6; h7] ++ cntb ++ body)
                 = 12 + length body).
  { rewrite !app_length, Hcl. cbn [length]. lia. }
  assert (Hcntv : unbe (firstn 4 (skipn 8
                   ([h0; h1; h2; h3; h4; h5; h6; h7] ++ cntb ++ body)))
                  = N.of_nat (length es)).
  { rewrite (ix_skipn_app_len _ 8 [h0; h1; h2; h3; h4; h5; h6; h7] _ eq_refl).
    rewrite (ix_firstn_app_len _ 4 cntb body Hcl).
    unfold cntb. apply ix_unbe_be32. exact Hcnt. }
  rewrite Hcntv.
  assert (Hskip : skipn 12 ([h0; h1; h2; h3; h4; h5; h6; h7] ++ cntb ++ body)
                  = body).
  { rewrite app_assoc. apply ix_skipn_app_len.
    rewrite app_length, Hcl. reflexivity. }
  rewrite Hskip. unfold lenN. rewrite Hlen.
  pose proof (encode_entries_length es Hwf) as Hbody. fold body in Hbody.
  destruct (Nat.ltb (12 + length body) 12) eqn:Hlt12; [lia|].
  destruct (N.ltb (N.of_nat (12 + length body))
                  (12 + 22 * N.of_nat (length es))) eqn:Hlt; [lia|].
  rewrite Nat2N.id.
  unfold body. rewrite <- (app_nil_r (flat_map encode_entry es)).
  apply decode_entries_encode. exact Hwf.
Qed.

(* ====================================================================== *)
(* 2. The decoder is bounded by the file size                              *)
(* ====================================================================== *)

Lemma decode_entries_bounded : forall (n : nat) (b : bytes) (es : list entry),
  decode_entries n b = Some es ->
  length es = n /\ 22 * n <= length b.
Proof.
  induction n as [|k IHk]; intros b es Hdec.
  - cbn [decode_entries] in Hdec. injection Hdec as Hes. subst es.
    cbn [length]. lia.
  - cbn [decode_entries] in Hdec.
    destruct (Nat.eqb (length (firstn 20 b)) 20
              && Nat.eqb (length (firstn 2 (skipn 20 b))) 2) eqn:Hhdr;
      [|discriminate].
    apply andb_true_iff in Hhdr. destruct Hhdr as [Hid Hl2].
    apply Nat.eqb_eq in Hid. apply Nat.eqb_eq in Hl2.
    set (len := N.to_nat (unbe (firstn 2 (skipn 20 b)))) in *.
    destruct (Nat.eqb (length (firstn len (skipn 2 (skipn 20 b)))) len)
      eqn:Hp; [|discriminate].
    destruct (decode_entries k (skipn len (skipn 2 (skipn 20 b))))
      as [r|] eqn:Hrec; [|discriminate].
    injection Hdec as Hes. subst es.
    apply IHk in Hrec. destruct Hrec as [Hlr Hbound].
    rewrite firstn_length in Hid, Hl2.
    rewrite !skipn_length in Hbound. rewrite skipn_length in Hl2.
    cbn [length]. lia.
Qed.

Theorem decode_index_bounded : forall (b : bytes) (es : list entry),
  decode_index b = Some es -> 12 + 22 * length es <= length b.
Proof.
  intros b es Hdec. unfold decode_index in Hdec.
  destruct (Nat.ltb (length b) 12) eqn:Hlt12; [discriminate|].
  set (cnt := unbe (firstn 4 (skipn 8 b))) in *.
  destruct (N.ltb (lenN b) (12 + 22 * cnt)) eqn:Hlt; [discriminate|].
  apply decode_entries_bounded in Hdec. destruct Hdec as [Hlen _].
  unfold lenN in Hlt. lia.
Qed.

(* the number of decoded entries is exactly the count field, which the file
   size bounds: decode_index is structurally recursive on that count, there
   is no fuel to run out of *)
Theorem decode_index_count : forall (b : bytes) (es : list entry),
  decode_index b = Some es ->
  N.of_nat (length es) = unbe (firstn 4 (skipn 8 b)).
Proof.
  intros b es Hdec. unfold decode_index in Hdec.
  destruct (Nat.ltb (length b) 12) eqn:Hlt12; [discriminate|].
  destruct (N.ltb (lenN b) (12 + 22 * unbe (firstn 4 (skipn 8 b)))) eqn:Hlt;
    [discriminate|].
  apply decode_entries_bounded in Hdec. destruct Hdec as [Hlen _].
  lia.
Qed.

(* ====================================================================== *)
(* 3. Binary search                                                        *)
(* ====================================================================== *)

Lemma Canonical_nil : Canonical [].
Proof. apply SSorted_nil. Qed.

Lemma Canonical_cons_inv : forall (a : entry) (es : list entry),
  Canonical (a :: es) ->
  Canonical es /\ Forall (fun b => blt (e_path a) (e_path b) = true) es.
Proof.
  intros a es Hc. inversion Hc as [|a0 l0 Hs Hf]. subst a0 l0.
  split; assumption.
Qed.

Lemma Canonical_cons : forall (a : entry) (es : list entry),
  Canonical es ->
  (forall b, In b es -> blt (e_path a) (e_path b) = true) ->
  Canonical (a :: es).
Proof.
  intros a es Hc Hall. apply SSorted_cons.
  - exact Hc.
  - apply Forall_forall. exact Hall.
Qed.

Lemma Canonical_head_lt : forall (a b : entry) (es : list entry),
  Canonical (a :: es) -> In b es -> blt (e_path a) (e_path b) = true.
Proof.
  intros a b es Hc Hin. apply Canonical_cons_inv in Hc.
  destruct Hc as [_ Hf]. rewrite Forall_forall in Hf. apply Hf. exact Hin.
Qed.

Lemma Canonical_nth_lt : forall (es : list entry) (i j : nat) (a b : entry),
  Canonical es -> nth_error es i = Some a -> nth_error es j = Some b ->
  i < j -> blt (e_path a) (e_path b) = true.
Proof.
  induction es as [|x es IHes]; intros i j a b Hc Hi Hj Hlt.
  - destruct i; discriminate.
  - destruct j as [|j]; [lia|].
    cbn [nth_error] in Hj.
    destruct i as [|i].
    + cbn [nth_error] in Hi. injection Hi as Hi. subst x.
      apply (Canonical_head_lt a b es Hc). apply (nth_error_In es j Hj).
    + cbn [nth_error] in Hi. apply Canonical_cons_inv in Hc.
      destruct Hc as [Hc _]. apply (IHes i j a b Hc Hi Hj). lia.
Qed.

(* distinct positions carry distinct paths; equal paths, equal entries *)
Lemma Canonical_path_inj : forall (es : list entry) (a b : entry),
  Canonical es -> In a es -> In b es -> e_path a = e_path b -> a = b.
Proof.
  intros es a b Hc Ha Hb Hpath.
  apply In_nth_error in Ha. destruct Ha as [i Hi].
  apply In_nth_error in Hb. destruct Hb as [j Hj].
  destruct (Nat.lt_trichotomy i j) as [Hlt | [Heq | Hgt]].
  - pose proof (Canonical_nth_lt es i j a b Hc Hi Hj Hlt) as Hblt.
    rewrite Hpath, ix_blt_irrefl in Hblt. discriminate.
  - subst j. rewrite Hi in Hj. injection Hj as Hj. exact Hj.
  - pose proof (Canonical_nth_lt es j i b a Hc Hj Hi Hgt) as Hblt.
    rewrite Hpath, ix_blt_irrefl in Hblt. discriminate.
Qed.

Lemma Canonical_NoDup_paths : forall es : list entry,
  Canonical es -> NoDup (paths es).
Proof.
  induction es as [|a es IHes]; intros Hc; cbn [paths map].
  - apply NoDup_nil.
  - pose proof (Canonical_cons_inv a es Hc) as [Hc' Hf].
    apply NoDup_cons.
    + intros Hin. apply in_map_iff in Hin. destruct Hin as [b [Hpb Hb]].
      pose proof (Canonical_head_lt a b es Hc Hb) as Hblt.
      rewrite Hpb, ix_blt_irrefl in Hblt. discriminate.
    + apply IHes. exact Hc'.
Qed.

(* soundness needs neither fuel nor order *)
Lemma bsearch_sound : forall (fuel : nat) (es : list entry) (p : bytes)
                             (l r i : nat) (e : entry),
  bsearch fuel es p l r = Some (i, e) ->
  nth_error es i = Some e /\ e_path e = p.
Proof.
  induction fuel as [|f IHf]; intros es p l r i e Hb.
  - discriminate.
  - cbn [bsearch] in Hb.
    destruct (nth_error es (Nat.div (l + r) 2)) as [em|] eqn:Hnth;
      [|discriminate].
    destruct (bytes_eqb (e_path em) p) eqn:Heq.
    + injection Hb as Hi He. subst i e. split.
      * exact Hnth.
      * apply ix_bytes_eqb_eq. exact Heq.
    + destruct (blt (e_path em) p) eqn:Hlt.
      * destruct (Nat.ltb (S (Nat.div (l + r) 2)) r) eqn:Hrange;
          [|discriminate].
        apply (IHf es p _ _ i e Hb).
      * destruct (Nat.ltb l (Nat.div (l + r) 2)) eqn:Hrange;
          [|discriminate].
        apply (IHf es p _ _ i e Hb).
Qed.

(* completeness: enough fuel, target inside the window *)
Lemma bsearch_complete : forall (fuel : nat) (es : list entry) (p : bytes)
                                (l r i : nat) (e : entry),
  Canonical es ->
  r <= length es -> r - l < fuel ->
  l <= i -> i < r -> nth_error es i = Some e -> e_path e = p ->
  exists i' e', bsearch fuel es p l r = Some (i', e').
Proof.
  induction fuel as [|f IHf]; intros es p l r i e Hc Hr Hfuel Hli Hir Hnth Hp.
  - lia.
  - cbn [bsearch].
    set (m := Nat.div (l + r) 2).
    assert (Hm : l <= m /\ m < r) by (unfold m; lia).
    destruct Hm as [Hlm Hmr].
    destruct (nth_error es m) as [em|] eqn:Hnm.
    2:{ apply nth_error_None in Hnm. lia. }
    destruct (bytes_eqb (e_path em) p) eqn:Heq.
    + exists m, em. reflexivity.
    + apply ix_bytes_eqb_neq in Heq.
      destruct (blt (e_path em) p) eqn:Hlt.
      * (* target is to the right of m *)
        assert (Hmi : m < i).
        { destruct (Nat.lt_trichotomy i m) as [Him | [Him | Him]].
          - pose proof (Canonical_nth_lt es i m e em Hc Hnth Hnm Him) as Hblt.
            rewrite Hp in Hblt. rewrite (ix_blt_asym _ _ Hblt) in Hlt.
            discriminate.
          - subst i. rewrite Hnth in Hnm. injection Hnm as Hnm. subst em.
            contradiction.
          - exact Him. }
        destruct (Nat.ltb (S m) r) eqn:Hrange; [|lia].
        apply (IHf es p (S m) r i e Hc Hr); try assumption; lia.
      * (* target is to the left of m *)
        assert (Him : i < m).
        { destruct (Nat.lt_trichotomy i m) as [Him | [Him | Him]].
          - exact Him.
          - subst i. rewrite Hnth in Hnm. injection Hnm as Hnm. subst em.
            contradiction.
          - pose proof (Canonical_nth_lt es m i em e Hc Hnm Hnth Him) as Hblt.
            rewrite Hp in Hblt. rewrite Hblt in Hlt. discriminate. }
        destruct (Nat.ltb l m) eqn:Hrange; [|lia].
        apply (IHf es p l m i e Hc); try assumption; lia.
Qed.

Lemma get_entry_sound : forall (es : list entry) (p : bytes) (i : nat) (e : entry),
  get_entry es p = Some (i, e) -> nth_error es i = Some e /\ e_path e = p.
Proof.
  intros es p i e Hg. unfold get_entry in Hg.
  destruct es as [|x es]; [discriminate|].
  apply (bsearch_sound _ _ _ _ _ _ _ Hg).
Qed.

Lemma get_entry_complete : forall (es : list entry) (p : bytes),
  Canonical es ->
  (exists e, In e es /\ e_path e = p) ->
  exists i e, get_entry es p = Some (i, e).
Proof.
  intros es p Hc [e [Hin Hp]].
  apply In_nth_error in Hin. destruct Hin as [i Hnth].
  assert (Hi : i < length es).
  { apply nth_error_Some. rewrite Hnth. discriminate. }
  unfold get_entry. destruct es as [|x es]; [cbn [length] in Hi; lia|].
  apply (bsearch_complete _ (x :: es) p 0 (length (x :: es)) i e Hc);
    try assumption; lia.
Qed.

(* On a canonical list the binary search never runs out of fuel and finds p
   iff p is tracked. *)
Theorem get_entry_correct : forall (es : list entry) (p : bytes),
  Canonical es ->
  (forall i e, get_entry es p = Some (i, e) ->
               nth_error es i = Some e /\ e_path e = p) /\
  ((exists e, In e es /\ e_path e = p) ->
   exists i e, get_entry es p = Some (i, e)).
Proof.
  intros es p Hc. split.
  - intros i e Hg. apply (get_entry_sound es p i e Hg).
  - apply (get_entry_complete es p Hc).
Qed.

Lemma in_paths_iff : forall (es : list entry) (p : bytes),
  In p (paths es) <-> exists e, In e es /\ e_path e = p.
Proof.
  intros es p. unfold paths. rewrite in_map_iff. split.
  - intros [e [Hp Hin]]. exists e. split; assumption.
  - intros [e [Hin Hp]]. exists e. split; assumption.
Qed.

Theorem get_entry_none_iff : forall (es : list entry) (p : bytes),
  Canonical es -> (get_entry es p = None <-> ~ In p (paths es)).
Proof.
  intros es p Hc. split.
  - intros Hnone Hin. apply in_paths_iff in Hin.
    destruct (get_entry_complete es p Hc Hin) as [i [e Hg]].
    rewrite Hg in Hnone. discriminate.
  - intros Hnin. destruct (get_entry es p) as [[i e]|] eqn:Hg; [|reflexivity].
    exfalso. apply Hnin. apply get_entry_sound in Hg. destruct Hg as [Hnth Hp].
    apply in_paths_iff. exists e. split; [|exact Hp].
    apply (nth_error_In es i Hnth).
Qed.

(* the entry found is THE entry with that path *)
Lemma get_entry_some_iff : forall (es : list entry) (p : bytes) (e : entry),
  Canonical es ->
  ((exists i, get_entry es p = Some (i, e)) <-> In e es /\ e_path e = p).
Proof.
  intros es p e Hc. split.
  - intros [i Hg]. apply get_entry_sound in Hg. destruct Hg as [Hnth Hp].
    split; [apply (nth_error_In es i Hnth) | exact Hp].
  - intros [Hin Hp].
    destruct (get_entry_complete es p Hc) as [i [e' Hg]].
    { exists e. split; assumption. }
    exists i. pose proof (get_entry_sound es p i e' Hg) as [Hnth' Hp'].
    assert (Hee : e' = e).
    { apply (Canonical_path_inj es e' e Hc).
      - apply (nth_error_In es i Hnth').
      - exact Hin.
      - congruence. }
    subst e'. exact Hg.
Qed.

(* ====================================================================== *)
(* 4. Sorted insertion and sorting                                         *)
(* ====================================================================== *)

Theorem insert_sorted_perm : forall (e : entry) (es : list entry),
  Permutation (insert_sorted e es) (e :: es).
Proof.
  intros e es. induction es as [|x r IHr]; cbn [insert_sorted].
  - apply Permutation_refl.
  - destruct (blt (e_path e) (e_path x)) eqn:Hlt.
    + apply Permutation_refl.
    + apply (perm_trans (l' := x :: e :: r)).
      * apply perm_skip. exact IHr.
      * apply perm_swap.
Qed.

Lemma insert_sorted_In : forall (e x : entry) (es : list entry),
  In x (insert_sorted e es) <-> x = e \/ In x es.
Proof.
  intros e x es. split.
  - intros Hin.
    apply (Permutation_in _ (insert_sorted_perm e es)) in Hin.
    destruct Hin as [Heq | Hin]; [left; symmetry; exact Heq | right; exact Hin].
  - intros Hin.
    apply (Permutation_in _ (Permutation_sym (insert_sorted_perm e es))).
    destruct Hin as [Heq | Hin]; [left; symmetry; exact Heq | right; exact Hin].
Qed.

Theorem insert_sorted_canonical : forall (e : entry) (es : list entry),
  Canonical es -> ~ In (e_path e) (paths es) -> Canonical (insert_sorted e es).
Proof.
  intros e es. induction es as [|x r IHr]; intros Hc Hnin; cbn [insert_sorted].
  - apply Canonical_cons; [apply Canonical_nil | intros b []].
  - pose proof (Canonical_cons_inv x r Hc) as [Hcr _].
    destruct (blt (e_path e) (e_path x)) eqn:Hlt.
    + apply Canonical_cons; [exact Hc|].
      intros b [Hb | Hb].
      * subst b. exact Hlt.
      * apply (ix_blt_trans _ (e_path x)); [exact Hlt|].
        apply (Canonical_head_lt x b r Hc Hb).
    + assert (Hxe : blt (e_path x) (e_path e) = true).
      { destruct (ix_blt_total (e_path e) (e_path x)) as [Hl | [Heq | Hg]].
        - rewrite Hl in Hlt. discriminate.
        - exfalso. apply Hnin. cbn [paths map]. left. symmetry. exact Heq.
        - exact Hg. }
      apply Canonical_cons.
      * apply IHr; [exact Hcr|].
        intros Hin. apply Hnin. cbn [paths map]. right. exact Hin.
      * intros b Hb. apply insert_sorted_In in Hb. destruct Hb as [Hb | Hb].
        -- subst b. exact Hxe.
        -- apply (Canonical_head_lt x b r Hc Hb).
Qed.

(* an element below everything goes to the front *)
Lemma insert_sorted_front : forall (e : entry) (es : list entry),
  (forall b, In b es -> blt (e_path e) (e_path b) = true) ->
  insert_sorted e es = e :: es.
Proof.
  intros e es Hall. destruct es as [|x r]; cbn [insert_sorted].
  - reflexivity.
  - rewrite (Hall x) by (left; reflexivity). reflexivity.
Qed.

Theorem sort_entries_sorted_id : forall es : list entry,
  Canonical es -> sort_entries es = es.
Proof.
  induction es as [|x r IHr]; intros Hc.
  - reflexivity.
  - pose proof (Canonical_cons_inv x r Hc) as [Hcr _].
    unfold sort_entries in *. cbn [fold_right]. rewrite (IHr Hcr).
    apply insert_sorted_front. intros b Hb.
    apply (Canonical_head_lt x b r Hc Hb).
Qed.

Theorem sort_entries_app_one : forall (e : entry) (es : list entry),
  Canonical es -> ~ In (e_path e) (paths es) ->
  sort_entries (es ++ [e]) = insert_sorted e es.
Proof.
  intros e es. induction es as [|x r IHr]; intros Hc Hnin.
  - reflexivity.
  - pose proof (Canonical_cons_inv x r Hc) as [Hcr _].
    assert (Hnin' : ~ In (e_path e) (paths r)).
    { intros Hin. apply Hnin. cbn [paths map]. right. exact Hin. }
    unfold sort_entries in *. cbn [app fold_right].
    rewrite (IHr Hcr Hnin'). cbn [insert_sorted].
    destruct (blt (e_path e) (e_path x)) eqn:Hlt.
    + rewrite (insert_sorted_front e r).
      * cbn [insert_sorted]. rewrite (ix_blt_asym _ _ Hlt).
        rewrite (insert_sorted_front x r); [reflexivity|].
        intros b Hb. apply (Canonical_head_lt x b r Hc Hb).
      * intros b Hb. apply (ix_blt_trans _ (e_path x)); [exact Hlt|].
        apply (Canonical_head_lt x b r Hc Hb).
    + assert (Hxe : blt (e_path x) (e_path e) = true).
      { destruct (ix_blt_total (e_path e) (e_path x)) as [Hl | [Heq | Hg]].
        - rewrite Hl in Hlt. discriminate.
        - exfalso. apply Hnin. cbn [paths map]. left. symmetry. exact Heq.
        - exact Hg. }
      apply insert_sorted_front. intros b Hb.
      apply insert_sorted_In in Hb. destruct Hb as [Hb | Hb].
      * subst b. exact Hxe.
      * apply (Canonical_head_lt x b r Hc Hb).
Qed.

(* without the freshness side condition the equation fails (stable insertion
   puts the new duplicate first, sort_entries keeps the old one first) *)
Example sort_entries_app_one_needs_fresh :
  let a := mkE [x01] [x61] in
  let b := mkE [x02] [x61] in
  sort_entries ([a] ++ [b]) <> insert_sorted b [a].
Proof. vm_compute. discriminate. Qed.

(* ====================================================================== *)
(* 5. remove_nth                                                           *)
(* ====================================================================== *)

Lemma remove_nth_In : forall (A : Type) (i : nat) (l : list A) (x : A),
  In x (remove_nth i l) -> In x l.
Proof.
  intros A i l. revert i. induction l as [|a r IHr]; intros i x Hin.
  - destruct i; exact Hin.
  - destruct i as [|k]; cbn [remove_nth] in Hin.
    + right. exact Hin.
    + destruct Hin as [Heq | Hin].
      * left. exact Heq.
      * right. apply (IHr k x Hin).
Qed.

Theorem remove_nth_canonical : forall (i : nat) (es : list entry),
  Canonical es -> Canonical (remove_nth i es).
Proof.
  intros i es. revert i. induction es as [|a r IHr]; intros i Hc.
  - destruct i; exact Hc.
  - pose proof (Canonical_cons_inv a r Hc) as [Hcr _].
    destruct i as [|k]; cbn [remove_nth].
    + exact Hcr.
    + apply Canonical_cons.
      * apply IHr. exact Hcr.
      * intros b Hb. apply remove_nth_In in Hb.
        apply (Canonical_head_lt a b r Hc Hb).
Qed.

(* what remains is exactly the entries with another path *)
Lemma remove_nth_In_iff : forall (i : nat) (es : list entry) (e x : entry),
  Canonical es -> nth_error es i = Some e ->
  (In x (remove_nth i es) <-> In x es /\ e_path x <> e_path e).
Proof.
  intros i es. revert i. induction es as [|a r IHr]; intros i e x Hc Hnth.
  - destruct i; discriminate.
  - pose proof (Canonical_cons_inv a r Hc) as [Hcr _].
    destruct i as [|k]; cbn [remove_nth nth_error] in *.
    + injection Hnth as Hnth. subst a. split.
      * intros Hin. split; [right; exact Hin|].
        pose proof (Canonical_head_lt e x r Hc Hin) as Hlt.
        intros Heq. apply (ix_blt_neq _ _ Hlt). symmetry. exact Heq.
      * intros [[Heq | Hin] Hne]; [subst x; contradiction | exact Hin].
    + assert (Hae : e_path a <> e_path e).
      { apply ix_blt_neq. apply (Canonical_head_lt a e r Hc).
        apply (nth_error_In r k Hnth). }
      pose proof (IHr k e x Hcr Hnth) as IH. split.
      * intros [Heq | Hin].
        -- subst x. split; [left; reflexivity | exact Hae].
        -- apply IH in Hin. destruct Hin as [Hin Hne].
           split; [right; exact Hin | exact Hne].
      * intros [[Heq | Hin] Hne].
        -- left. exact Heq.
        -- right. apply IH. split; assumption.
Qed.

Theorem remove_nth_paths : forall (i : nat) (es : list entry) (e : entry) (q : bytes),
  Canonical es -> nth_error es i = Some e ->
  (In q (paths (remove_nth i es)) <-> In q (paths es) /\ q <> e_path e).
Proof.
  intros i es e q Hc Hnth. rewrite !in_paths_iff. split.
  - intros [x [Hin Hq]].
    apply (remove_nth_In_iff i es e x Hc Hnth) in Hin.
    destruct Hin as [Hin Hne]. subst q. split; [|exact Hne].
    exists x. split; [exact Hin | reflexivity].
  - intros [[x [Hin Hq]] Hne]. exists x. split; [|exact Hq].
    apply (remove_nth_In_iff i es e x Hc Hnth). subst q.
    split; assumption.
Qed.

Lemma remove_nth_paths_eq : forall (i : nat) (es : list entry),
  paths (remove_nth i es) = remove_nth i (paths es).
Proof.
  intros i es. revert i. induction es as [|a r IHr]; intros i.
  - destruct i; reflexivity.
  - destruct i as [|k]; cbn [remove_nth paths map].
    + reflexivity.
    + f_equal. apply IHr.
Qed.

Lemma remove_nth_length : forall (A : Type) (i : nat) (l : list A),
  i < length l -> S (length (remove_nth i l)) = length l.
Proof.
  intros A i l. revert i. induction l as [|a r IHr]; intros i Hi.
  - cbn [length] in Hi. lia.
  - destruct i as [|k]; cbn [remove_nth length] in *.
    + reflexivity.
    + rewrite IHr by lia. reflexivity.
Qed.

(* ====================================================================== *)
(* 6. Index.Update                                                         *)
(* ====================================================================== *)

Theorem idx_update_spec : forall (es : list entry) (id p : bytes) (es' : list entry),
  Canonical es -> idx_update es id p = Some es' ->
  Canonical es' /\
  (forall q, In q (paths es') <-> q = p \/ In q (paths es)) /\
  (forall e, In e es' -> e_path e = p -> e_id e = id) /\
  (forall e, e_path e <> p -> (In e es' <-> In e es)).
Proof.
  intros es id p es' Hc Hupd. unfold idx_update in Hupd.
  destruct (get_entry es p) as [[pos e0]|] eqn:Hg.
  - destruct (bytes_eqb (e_id e0) id) eqn:Hid; [discriminate|].
    injection Hupd as Hes'.
    pose proof (get_entry_sound es p pos e0 Hg) as [Hnth Hp0].
    set (es1 := remove_nth pos es) in *.
    assert (Hc1 : Canonical es1) by (apply remove_nth_canonical; exact Hc).
    assert (Hin1 : forall x, In x es1 <-> In x es /\ e_path x <> p).
    { intros x. unfold es1. rewrite <- Hp0.
      apply (remove_nth_In_iff pos es e0 x Hc Hnth). }
    assert (Hnin1 : ~ In (e_path (mkE id p)) (paths es1)).
    { cbn [e_path]. intros Hin. apply in_paths_iff in Hin.
      destruct Hin as [x [Hx Hxp]]. apply Hin1 in Hx.
      destruct Hx as [_ Hne]. contradiction. }
    rewrite (sort_entries_app_one (mkE id p) es1 Hc1 Hnin1) in Hes'.
    subst es'. split; [|split; [|split]].
    + apply insert_sorted_canonical; assumption.
    + intros q. rewrite in_paths_iff. split.
      * intros [x [Hx Hq]]. apply insert_sorted_In in Hx.
        destruct Hx as [Hx | Hx].
        -- subst x. left. symmetry. exact Hq.
        -- right. apply in_paths_iff. exists x. apply Hin1 in Hx.
           split; [apply Hx | exact Hq].
      * intros Hq. destruct (ix_bytes_dec q p) as [Hqp | Hqp].
        -- exists (mkE id p). split; [|symmetry; exact Hqp].
           apply insert_sorted_In. left. reflexivity.
        -- destruct Hq as [Hq | Hq]; [contradiction|].
           apply in_paths_iff in Hq. destruct Hq as [x [Hx Hxq]].
           exists x. split; [|exact Hxq].
           apply insert_sorted_In. right. apply Hin1.
           split; [exact Hx | congruence].
    + intros e He Hep. apply insert_sorted_In in He.
      destruct He as [He | He].
      * subst e. reflexivity.
      * apply Hin1 in He. destruct He as [_ Hne]. contradiction.
    + intros e Hep. rewrite insert_sorted_In, Hin1. split.
      * intros [He | [He _]]; [subst e; cbn [e_path] in Hep; congruence | exact He].
      * intros He. right. split; assumption.
  - injection Hupd as Hes'.
    apply (get_entry_none_iff es p Hc) in Hg.
    assert (Hnin : ~ In (e_path (mkE id p)) (paths es)) by exact Hg.
    rewrite (sort_entries_app_one (mkE id p) es Hc Hnin) in Hes'.
    subst es'. split; [|split; [|split]].
    + apply insert_sorted_canonical; assumption.
    + intros q. rewrite in_paths_iff. split.
      * intros [x [Hx Hq]]. apply insert_sorted_In in Hx.
        destruct Hx as [Hx | Hx].
        -- subst x. left. symmetry. exact Hq.
        -- right. apply in_paths_iff. exists x. split; assumption.
      * intros [Hq | Hq].
        -- exists (mkE id p). split; [|symmetry; exact Hq].
           apply insert_sorted_In. left. reflexivity.
        -- apply in_paths_iff in Hq. destruct Hq as [x [Hx Hxq]].
           exists x. split; [|exact Hxq].
           apply insert_sorted_In. right. exact Hx.
    + intros e He Hep. apply insert_sorted_In in He.
      destruct He as [He | He].
      * subst e. reflexivity.
      * exfalso. apply Hg. apply in_paths_iff. exists e. split; assumption.
    + intros e Hep. rewrite insert_sorted_In. split.
      * intros [He | He]; [subst e; cbn [e_path] in Hep; congruence | exact He].
      * intros He. right. exact He.
Qed.

Theorem idx_update_none : forall (es : list entry) (id p : bytes),
  Canonical es -> idx_update es id p = None ->
  exists e, In e es /\ e_path e = p /\ e_id e = id.
Proof.
  intros es id p Hc Hupd. unfold idx_update in Hupd.
  destruct (get_entry es p) as [[pos e0]|] eqn:Hg; [|discriminate].
  destruct (bytes_eqb (e_id e0) id) eqn:Hid; [|discriminate].
  pose proof (get_entry_sound es p pos e0 Hg) as [Hnth Hp0].
  exists e0. split; [apply (nth_error_In es pos Hnth)|].
  split; [exact Hp0 | apply ix_bytes_eqb_eq; exact Hid].
Qed.

(* nothing to do EXACTLY when the same id is already staged *)
Theorem idx_update_none_iff : forall (es : list entry) (id p : bytes),
  Canonical es ->
  (idx_update es id p = None <-> exists e, In e es /\ e_path e = p /\ e_id e = id).
Proof.
  intros es id p Hc. split; [apply idx_update_none; exact Hc|].
  intros [e [Hin [Hp Hid]]].
  destruct (proj2 (get_entry_some_iff es p e Hc) (conj Hin Hp)) as [i Hg].
  unfold idx_update. rewrite Hg.
  rewrite (proj2 (ix_bytes_eqb_eq (e_id e) id) Hid). reflexivity.
Qed.

(* the new entry is there *)
Corollary idx_update_In : forall (es : list entry) (id p : bytes) (es' : list entry),
  Canonical es -> idx_update es id p = Some es' -> In (mkE id p) es'.
Proof.
  intros es id p es' Hc Hupd.
  destruct (idx_update_spec es id p es' Hc Hupd) as [_ [Hpaths [Hid _]]].
  assert (Hp : In p (paths es')) by (apply Hpaths; left; reflexivity).
  apply in_paths_iff in Hp. destruct Hp as [e [He Hep]].
  pose proof (Hid e He Hep) as Hide. destruct e as [i q].
  cbn [e_path e_id] in *. subst. exact He.
Qed.

(* ====================================================================== *)
(* 7. Index.DeleteEntry                                                    *)
(* ====================================================================== *)

Theorem idx_delete_spec : forall (es : list entry) (p : bytes) (es' : list entry),
  Canonical es -> idx_delete es p = Some es' ->
  Canonical es' /\ ~ In p (paths es') /\
  (forall e, e_path e <> p -> (In e es' <-> In e es)).
Proof.
  intros es p es' Hc Hdel. unfold idx_delete in Hdel.
  destruct (get_entry es p) as [[pos e0]|] eqn:Hg; [|discriminate].
  injection Hdel as Hes'. subst es'.
  pose proof (get_entry_sound es p pos e0 Hg) as [Hnth Hp0].
  split; [|split].
  - apply remove_nth_canonical. exact Hc.
  - intros Hin. apply (remove_nth_paths pos es e0 p Hc Hnth) in Hin.
    destruct Hin as [_ Hne]. apply Hne. symmetry. exact Hp0.
  - intros e Hep. rewrite (remove_nth_In_iff pos es e0 e Hc Hnth).
    rewrite Hp0. split.
    + intros [He _]. exact He.
    + intros He. split; assumption.
Qed.

Theorem idx_delete_none : forall (es : list entry) (p : bytes),
  Canonical es -> (idx_delete es p = None <-> ~ In p (paths es)).
Proof.
  intros es p Hc. rewrite <- (get_entry_none_iff es p Hc).
  unfold idx_delete. destruct (get_entry es p) as [[pos e0]|] eqn:Hg.
  - split; discriminate.
  - split; reflexivity.
Qed.

(* ====================================================================== *)
(* 8. Directory look-ups                                                   *)
(* ====================================================================== *)

Lemma dir_prefix_name : forall name : bytes,
  name <> [x2e] -> dir_prefix name = name ++ [c_slash].
Proof.
  intros name Hne. unfold dir_prefix.
  rewrite (proj2 (ix_bytes_eqb_neq name [x2e]) Hne). reflexivity.
Qed.

Lemma dir_prefix_dot : dir_prefix [x2e] = [].
Proof. reflexivity. Qed.

Theorem under_dir_spec : forall name p : bytes,
  name <> [x2e] ->
  (under_dir name p = true <->
   exists rest, rest <> [] /\ p = name ++ [c_slash] ++ rest).
Proof.
  intros name p Hne. unfold under_dir. rewrite (dir_prefix_name name Hne).
  rewrite andb_true_iff, ix_is_prefix_spec. split.
  - intros [[rest Hp] Hlen]. exists rest. subst p.
    rewrite <- app_assoc in Hlen |- *. split; [|reflexivity].
    intros Hnil. subst rest. rewrite !app_length in Hlen. cbn [length] in Hlen.
    lia.
  - intros [rest [Hrest Hp]]. subst p. split.
    + exists rest. rewrite <- app_assoc. reflexivity.
    + destruct rest as [|c rest]; [contradiction|].
      rewrite !app_length. cbn [length]. lia.
Qed.

Theorem under_dir_dot : forall p : bytes,
  under_dir [x2e] p = true <-> p <> [].
Proof.
  intros p. unfold under_dir. rewrite dir_prefix_dot.
  cbn [is_prefix andb length]. destruct p as [|c p]; cbn [length].
  - split; [discriminate | intros Hne; contradiction].
  - split; [intros _; discriminate | intros _; reflexivity].
Qed.

Theorem under_dir_prefix_only : forall name p : bytes,
  name <> [x2e] -> under_dir name p = true -> is_prefix name p = true.
Proof.
  intros name p Hne Hu. apply (under_dir_spec name p Hne) in Hu.
  destruct Hu as [rest [_ Hp]]. apply ix_is_prefix_spec.
  exists ([c_slash] ++ rest). exact Hp.
Qed.

(* the side condition matters: "." is a directory prefix of everything *)
Example under_dir_prefix_only_needs_not_dot :
  under_dir (str ".") (str "abc") = true /\ is_prefix (str ".") (str "abc") = false.
Proof. vm_compute. split; reflexivity. Qed.

(* never a path that merely contains the name *)
Example ad_x_not_under_d : under_dir (str "d") (str "ad/x") = false.
Proof. vm_compute. reflexivity. Qed.

Example d_old_not_under_d : under_dir (str "d") (str "d-old") = false.
Proof. vm_compute. reflexivity. Qed.

Example d_itself_not_under_d : under_dir (str "d") (str "d/") = false.
Proof. vm_compute. reflexivity. Qed.

Example d_x_under_d : under_dir (str "d") (str "d/x") = true.
Proof. vm_compute. reflexivity. Qed.

Theorem entries_by_dir_exact : forall (es : list entry) (name : bytes) (e : entry),
  In e (entries_by_dir es name) <-> In e es /\ under_dir name (e_path e) = true.
Proof.
  intros es name e. unfold entries_by_dir. apply filter_In.
Qed.

Theorem is_dir_iff : forall (es : list entry) (name : bytes),
  is_dir es name = true <->
  exists e, In e es /\ under_dir name (e_path e) = true.
Proof.
  intros es name. unfold is_dir.
  destruct (entries_by_dir es name) as [|x l] eqn:Hl; cbn [is_nil negb].
  - split; [discriminate|].
    intros [e He]. apply entries_by_dir_exact in He. rewrite Hl in He.
    destruct He.
  - split; [|reflexivity]. intros _. exists x.
    apply entries_by_dir_exact. rewrite Hl. left. reflexivity.
Qed.

(* entries_by_dir keeps the order, hence canonicity *)
Lemma entries_by_dir_canonical : forall (es : list entry) (name : bytes),
  Canonical es -> Canonical (entries_by_dir es name).
Proof.
  intros es name. unfold entries_by_dir.
  induction es as [|a r IHr]; intros Hc; cbn [filter].
  - exact Hc.
  - pose proof (Canonical_cons_inv a r Hc) as [Hcr _].
    destruct (under_dir name (e_path a)) eqn:Hu.
    + apply Canonical_cons; [apply IHr; exact Hcr|].
      intros b Hb. apply filter_In in Hb. destruct Hb as [Hb _].
      apply (Canonical_head_lt a b r Hc Hb).
    + apply IHr. exact Hcr.
Qed.

(* ====================================================================== *)
(* Side conditions of index_roundtrip are necessary                        *)
(* ====================================================================== *)

(* an id that is not 20 bytes long shifts the framing *)
Example roundtrip_needs_id20 :
  decode_index (encode_index [mkE [x01] [x61]]) <> Some [mkE [x01] [x61]].
Proof. vm_compute. discriminate. Qed.

(* a path of 65536 bytes has its length field wrap to 0: it is read back as
   the empty path (the path bytes become ignored trailing bytes) *)
Example roundtrip_needs_short_path :
  decode_index (encode_index [mkE (repeat x00 20) (repeat x61 (N.to_nat 65536))])
  = Some [mkE (repeat x00 20) []].
Proof. vm_compute. reflexivity. Qed.

(* conversely everything the decoder returns is well-formed *)
Lemma ix_unbe2_bounded : forall l : bytes, length l = 2 -> (unbe l < 65536)%N.
Proof.
  intros l Hl. destruct l as [|x [|y [|z l]]]; try discriminate.
  rewrite ix_unbe2.
  pose proof (ix_bN_bounded x) as Hx. pose proof (ix_bN_bounded y) as Hy. lia.
Qed.

Lemma decode_entries_wf : forall (n : nat) (b : bytes) (es : list entry),
  decode_entries n b = Some es -> Forall wf_entry es.
Proof.
  induction n as [|k IHk]; intros b es Hdec.
  - cbn [decode_entries] in Hdec. injection Hdec as Hes. subst es.
    apply Forall_nil.
  - cbn [decode_entries] in Hdec.
    destruct (Nat.eqb (length (firstn 20 b)) 20
              && Nat.eqb (length (firstn 2 (skipn 20 b))) 2) eqn:Hhdr;
      [|discriminate].
    apply andb_true_iff in Hhdr. destruct Hhdr as [Hid Hl2].
    apply Nat.eqb_eq in Hid. apply Nat.eqb_eq in Hl2.
    pose proof (ix_unbe2_bounded _ Hl2) as Hbound.
    set (len := N.to_nat (unbe (firstn 2 (skipn 20 b)))) in *.
    destruct (Nat.eqb (length (firstn len (skipn 2 (skipn 20 b)))) len)
      eqn:Hp; [|discriminate].
    apply Nat.eqb_eq in Hp.
    destruct (decode_entries k (skipn len (skipn 2 (skipn 20 b))))
      as [r|] eqn:Hrec; [|discriminate].
    injection Hdec as Hes. subst es.
    apply Forall_cons.
    + split; [exact Hid|].
      change (N.of_nat (length (firstn len (skipn 2 (skipn 20 b)))) < 65536)%N.
      rewrite Hp. unfold len. lia.
    + apply (IHk _ r Hrec).
Qed.

Theorem decode_index_wf : forall (b : bytes) (es : list entry),
  decode_index b = Some es ->
  Forall wf_entry es /\ (N.of_nat (length es) < 4294967296)%N.
Proof.
  intros b es Hdec. split.
  - unfold decode_index in Hdec.
    destruct (Nat.ltb (length b) 12) eqn:Hlt12; [discriminate|].
    destruct (N.ltb (lenN b) (12 + 22 * unbe (firstn 4 (skipn 8 b)))) eqn:Hlt;
      [discriminate|].
    apply (decode_entries_wf _ _ _ Hdec).
  - assert (Hb : 12 <= length b).
    { pose proof (decode_index_bounded b es Hdec) as Hbd. lia. }
    rewrite (decode_index_count b es Hdec).
    assert (Hl4 : length (firstn 4 (skipn 8 b)) = 4).
    { rewrite firstn_length, skipn_length. lia. }
    destruct (firstn 4 (skipn 8 b)) as [|x [|y [|z [|w [|v l]]]]];
      try discriminate.
    rewrite ix_unbe4.
    pose proof (ix_bN_bounded x) as Hx. pose proof (ix_bN_bounded y) as Hy.
    pose proof (ix_bN_bounded z) as Hz. pose proof (ix_bN_bounded w) as Hw.
    lia.
Qed.

(* hence decoding then re-encoding then decoding is stable: the decoded
   value is a fixed point of the codec *)
Corollary decode_encode_decode : forall (b : bytes) (es : list entry),
  decode_index b = Some es -> decode_index (encode_index es) = Some es.
Proof.
  intros b es Hdec. destruct (decode_index_wf b es Hdec) as [Hwf Hcnt].
  apply index_roundtrip; assumption.
Qed.

(* ====================================================================== *)
(* Assumptions                                                            *)
(* ====================================================================== *)

Print Assumptions index_roundtrip.
Print Assumptions decode_index_bounded.
Print Assumptions decode_index_count.
Print Assumptions get_entry_correct.
Print Assumptions get_entry_none_iff.
Print Assumptions get_entry_some_iff.
Print Assumptions insert_sorted_canonical.
Print Assumptions insert_sorted_perm.
Print Assumptions sort_entries_sorted_id.
Print Assumptions sort_entries_app_one.
Print Assumptions remove_nth_canonical.
Print Assumptions remove_nth_In.
Print Assumptions remove_nth_In_iff.
Print Assumptions remove_nth_paths.
Print Assumptions idx_update_spec.
Print Assumptions idx_update_none.
Print Assumptions idx_update_none_iff.
Print Assumptions idx_update_In.
Print Assumptions idx_delete_spec.
Print Assumptions idx_delete_none.
Print Assumptions under_dir_spec.
Print Assumptions under_dir_dot.
Print Assumptions under_dir_prefix_only.
Print Assumptions entries_by_dir_exact.
Print Assumptions entries_by_dir_canonical.
Print Assumptions is_dir_iff.
Print Assumptions ad_x_not_under_d.
Print Assumptions d_old_not_under_d.
Print Assumptions decode_index_wf.
Print Assumptions decode_encode_decode.
