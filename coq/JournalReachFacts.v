(* JournalReachFacts.v — C11 / C08 with reachability as the only world hypothesis.

   A. C11 on reachable worlds:
      [ok_cmd_names_clean]  an accepted command has clean names
      [reflog_extends_reachable] [reflog_head_entry_reachable] [reflog_total_reachable]
      [reflog_succeeds_reachable] (+ [reachable_hlog_inited], [reflog_succeeds_reachable'])
   B. the invariant "no branch => no journal record carries an id" ([NoTipNoIds]),
      over every history ([KI2_run], [reachable_no_tip_no_ids]); its consequence
      [reachable_record_tip]: a journal record with an id => the current branch has a tip
   C. the three reset totals of ResetFacts.v without [x_headc c = Some (prev, pc)]:
      [reset_soft_total'] [reset_mixed_total'] [reset_hard_total'] *)
From Coq Require Import Strings.String Strings.Byte.
From Coq Require Import List Bool NArith ZArith Arith Lia ZifyBool ZifyNat ZifyN Sorted.
From Goit Require Import Bytes Sha1 Obj Tree Index Regex GoRegex Commit Reflog Config Ignore World Repo.
From Goit Require Import BytesFacts ObjFacts IndexFacts TreeFacts DiffFacts RegexFacts ReflogFacts CommitFacts MonadFacts Inv.
From Goit Require Import BranchFacts ConnectedFacts SnapshotFacts ExactFacts CommitCmdFacts JournalFacts RestoreFacts GateFacts.
From Goit Require Import ResetFacts.
Import ListNotations.

#[local] Arguments sha1 : simpl never.
#[local] Arguments obj_id : simpl never.
#[local] Arguments payload : simpl never.
#[local] Arguments header : simpl never.

(* ================================================================== *)
(** * A. C11 on reachable worlds *)

(* a command the program accepts has clean names: an unclean one is refused *)
Lemma ok_cmd_names_clean : forall e c w w' out tr,
  step (ACmd e c) w = (w', OOk out, tr) -> cmd_names_clean c.
Proof.
  intros e c w w' out tr Hs.
  destruct (cmd_names_clean_dec c) as [Hc|Hun]; [exact Hc|].
  rewrite (unclean_cmd_refused e c w Hun) in Hs. discriminate Hs.
Qed.

Theorem reflog_extends_reachable : forall e c w w' out tr,
  Reachable w -> step (ACmd e c) w = (w', OOk out, tr) ->
  exists rs, parse_reflog (hlog_bytes w) = Some rs /\
             parse_reflog (hlog_bytes w') = Some (rs ++ journal_delta c w w').
Proof.
  intros e c w w' out tr Hr Hs.
  apply (reflog_extends e c w w' out tr (reachable_JInv w Hr) (ok_cmd_names_clean e c w w' out tr Hs) Hs).
Qed.

Theorem reflog_head_entry_reachable : forall e c w w' out tr ty,
  Reachable w -> step (ACmd e c) w = (w', OOk out, tr) -> journal_kind c = Some ty ->
  exists rs' r, parse_reflog (hlog_bytes w') = Some rs' /\ get_record rs' 0 = Some r /\ r_type r = ty /\
    r_id r = id_back (head_id w') /\
    nth_error (show_reflog rs') 0 = Some (short_id (r_id r), 0%nat, ty, r_msg r).
Proof.
  intros e c w w' out tr ty Hr Hs Hk.
  apply (reflog_head_entry e c w w' out tr ty (reachable_JInv w Hr)
           (ok_cmd_names_clean e c w w' out tr Hs) Hs Hk).
Qed.

Theorem reflog_total_reachable : forall w hl t fk,
  Reachable w -> w_hlog w = Some hl ->
  exists out, cmd_reflog (mkMS w t fk) = (Ok out, mkMS w t fk).
Proof.
  intros w hl t fk Hr Hhl.
  apply (reflog_total w hl t fk (proj1 (reachable_JInv w Hr)) Hhl).
Qed.

(* `reflog` on a reachable, loaded world whose journal file exists: succeeds,
   changes nothing, prints the parsed HEAD journal newest first *)
Theorem reflog_succeeds_reachable : forall e w c hl,
  Reachable w -> w_inited w = true -> ctx_of w = Some c -> w_hlog w = Some hl ->
  exists rs, parse_reflog hl = Some rs /\
             step (ACmd e CReflog) w = (w, OOk (map reflog_line (show_reflog rs)), []).
Proof.
  intros e w c hl Hr Hi Hx Hhl.
  destruct (reachable_journal_parses w hl Hr Hhl) as [rs Hrs].
  exists rs. split; [exact Hrs|]. apply (reflog_step e w c hl rs Hi Hx Hhl Hrs).
Qed.

(* [w_inited w = true] follows from the existence of the journal file *)
Definition HlogBlank (w : world) : Prop := w_inited w = false -> w_hlog w = None.

Lemma HlogBlank_step : forall a w, HlogBlank w -> HlogBlank (step_w a w).
Proof.
  intros [e c|u] w Hb.
  - destruct (w_inited w) eqn:Hi.
    + intro Hf. exfalso.
      destruct (step_w_eq (ACmd e c) w) as [tr Htr]. rewrite Htr in Hf.
      rewrite (inited_trace_mono tr w Hi) in Hf. discriminate Hf.
    + destruct c; try (unfold step_w; rewrite step_not_loaded; [exact Hb | discriminate | left; exact Hi]).
      unfold HlogBlank, step_w. rewrite step_cmd_eq. cbn [fst].
      unfold run_cmd, cmd_init. ev. rewrite Hi. cbn [negb]. ev.
      unfold ret. cbn [snd ms_w]. rewrite w_inited_EInit. intro Hf. discriminate Hf.
  - unfold step_w. cbn [step fst]. intro Hf. rewrite w_inited_apply_edit in Hf.
    rewrite w_hlog_apply_edit. apply Hb. exact Hf.
Qed.

Lemma HlogBlank_run : forall h w, HlogBlank w -> HlogBlank (run h w).
Proof.
  induction h as [|a h IH]; intros w Hb; [exact Hb|].
  rewrite run_cons. apply IH. apply HlogBlank_step. exact Hb.
Qed.

Theorem reachable_hlog_inited : forall w hl,
  Reachable w -> w_hlog w = Some hl -> w_inited w = true.
Proof.
  intros w hl (h & _ & ->) Hhl.
  assert (Hb : HlogBlank (run h w_empty)) by (apply HlogBlank_run; intros _; reflexivity).
  destruct (w_inited (run h w_empty)) eqn:Hi; [reflexivity|].
  rewrite (Hb Hi) in Hhl. discriminate Hhl.
Qed.

Corollary reflog_succeeds_reachable' : forall e w c hl,
  Reachable w -> ctx_of w = Some c -> w_hlog w = Some hl ->
  exists rs, parse_reflog hl = Some rs /\
             step (ACmd e CReflog) w = (w, OOk (map reflog_line (show_reflog rs)), []).
Proof.
  intros e w c hl Hr Hx Hhl.
  apply (reflog_succeeds_reachable e w c hl Hr (reachable_hlog_inited w hl Hr Hhl) Hx Hhl).
Qed.

(* without a journal file, or when the context does not load, `reflog` is refused *)
Theorem reflog_refused : forall e w,
  w_inited w = false \/ ctx_of w = None \/ w_hlog w = None ->
  step (ACmd e CReflog) w = (w, OErr, []).
Proof.
  intros e w [Hi|[Hx|Hhl]].
  - apply step_not_loaded; [discriminate | left; exact Hi].
  - apply step_not_loaded; [discriminate | right; exact Hx].
  - destruct (w_inited w) eqn:Hi; [|apply step_not_loaded; [discriminate | left; exact Hi]].
    destruct (ctx_of w) as [c|] eqn:Hx; [|apply step_not_loaded; [discriminate | right; exact Hx]].
    rewrite (step_loaded e CReflog w c); [|discriminate | exact Hi | exact Hx].
    cbn [dispatch]. unfold cmd_reflog. rewrite ev_bind_getw. cbn [ms_w]. rewrite Hhl. reflexivity.
Qed.


(* ================================================================== *)
(** * B. no branch => no journal record carries an id *)

Definition no_id (r : lrec) : Prop := r_id r = None.

Definition NoTipNoIds (w : world) : Prop :=
  forall rs, parse_reflog (hlog_bytes w) = Some rs -> w_refs w = [] -> Forall no_id rs.

(* the branch map does not become empty again: under [Good] and the guard of
   ConnectedFacts ([EDelRef] never removes the branch HEAD names) *)
Lemma refs_stay : forall e w,
  Good w -> Gc w e -> w_refs (apply_effect e w) = [] -> w_refs w = [].
Proof.
  intros e w [_ Hh] Hgc Hnil.
  destruct e as [ | pid ppl | name rid | name | old new | hname | ies | line | bname bline | dbname
                | lst | gst | fpath fdata | rpath | mpath ];
    autorewrite with wfields in Hnil; try exact Hnil.
  - (* ESetRef *)
    exfalso. pose proof (ex_am_get_set_same _ (w_refs w) name rid) as Hs. rewrite Hnil in Hs. discriminate Hs.
  - (* EDelRef *)
    cbn [Gc] in Hgc. destruct Hh as [Hh|Hh]; [exact Hh|]. exfalso.
    unfold am_mem in Hh.
    rewrite <- (ConnectedFacts.am_get_del_other (w_refs w) name (w_head w)) in Hh
      by (intro X; apply Hgc; symmetry; exact X).
    rewrite Hnil in Hh. discriminate Hh.
  - (* ERenameRef *)
    destruct (am_get (w_refs w) old) as [oid|] eqn:Eo; [|exact Hnil]. exfalso.
    pose proof (ex_am_get_set_same _ (am_del (w_refs w) old) new oid) as Hs. rewrite Hnil in Hs. discriminate Hs.
Qed.

Lemma no_tip_effect : forall e w,
  JInv w -> JG e -> HG w e -> Good w -> Gc w e ->
  NoTipNoIds w -> NoTipNoIds (apply_effect e w).
Proof.
  intros e w Hj Hjg Hhg Hgood Hgc Hni rs Hrs Hnil.
  destruct Hj as ([[rs0 Hrs0] Hend] & _).
  pose proof (refs_stay e w Hgood Hgc Hnil) as Hnil0.
  destruct (is_hlog e) eqn:Eh.
  - destruct e as [ | pid ppl | name rid | name | old new | hname | ies | line | bname bline | dbname
                  | lst | gst | fpath fdata | rpath | mpath ]; try discriminate Eh.
    cbn [JG] in Hjg. destruct Hjg as [r Hr]. cbn [HG] in Hhg.
    destruct Hhg as (from & to & nm & em & t & off & ty & msg & Hline & Hto).
    rewrite hlog_bytes_effect in Hrs. cbn [hlog_line] in Hrs.
    destruct (journal_append _ rs0 line r Hrs0 Hend Hr) as [Hp _].
    rewrite Hp in Hrs. injection Hrs as <-.
    apply Forall_app. split; [apply Hni; assumption|]. constructor; [|constructor].
    assert (Hnone : to = None).
    { destruct to as [h|]; [|reflexivity]. destruct (Hto h eq_refl) as [n Hn].
      rewrite Hnil0 in Hn. discriminate Hn. }
    subst line to. unfold no_id.
    rewrite (good_line_id from None nm em t off ty msg r); [reflexivity | | exact Hr].
    intros h Hh. discriminate Hh.
  - assert (Hb : hlog_bytes (apply_effect e w) = hlog_bytes w).
    { rewrite hlog_bytes_effect. destruct e; try discriminate Eh; apply app_nil_r. }
    rewrite Hb in Hrs. apply Hni; assumption.
Qed.

Lemma no_tip_trace : forall tr w,
  JInv w -> CInv w -> Forall JG tr -> steps_ok Tr HG w tr -> steps_ok CInv CG w tr ->
  ~ Bad (apply_effects tr w) -> NoTipNoIds w -> NoTipNoIds (apply_effects tr w).
Proof.
  induction tr as [|e tr IH]; intros w Hj Hc Hjg Hhg Hcg Hnb Hni; [exact Hni|].
  rewrite apply_effects_cons in Hnb |- *.
  inversion Hjg as [|e' tr' Hje Hjtr]; subst.
  destruct Hhg as (Hhe & _ & Hhtr). destruct Hcg as (Hce & Hc1 & Hctr).
  assert (Hnb1 : ~ Bad (apply_effect e w)).
  { intro X. apply Hnb. apply bad_sticky_trace. exact X. }
  assert (Hnb0 : ~ Bad w).
  { intro X. apply Hnb1. apply bad_sticky. exact X. }
  apply IH; try assumption.
  - apply JInv_effect; assumption.
  - apply no_tip_effect; try assumption; [apply Hc; exact Hnb0 | apply Hce; exact Hnb1].
Qed.

(* ResetFacts' invariant [KI], extended *)
Definition KI2 (w : world) : Prop := KI w /\ (~ Bad w -> NoTipNoIds w).

Lemma KI2_empty : KI2 w_empty.
Proof.
  split; [exact KI_empty|]. intros _ rs Hrs _. cbn in Hrs. injection Hrs as <-. constructor.
Qed.

Lemma KI2_step : forall a w, action_ok a -> KI2 w -> KI2 (step_w a w).
Proof.
  intros a w Hok [Hk Hni]. split; [apply KI_step; assumption|].
  destruct Hk as (Hj & Hc & _).
  destruct a as [e c|u].
  - destruct (cmd_names_clean_dec c) as [Hcl|Hun].
    2:{ rewrite (unclean_step_noop (ACmd e c) w Hun). exact Hni. }
    unfold step_w. destruct (step (ACmd e c) w) as [[w' o] tr] eqn:Es. cbn [fst].
    pose proof (step_hlog _ _ _ _ _ _ Es) as Hhg.
    destruct (step_cmd_run _ _ _ _ _ _ Es) as (r & s' & Hrun & -> & _ & ->).
    destruct (run_cmd_sound True e c w None r s' (fun _ => conj Hj Hcl) Hrun) as (Hw & Hall & _).
    destruct (hoare_sound CInv CG _ _ _ _ w [] None r s' (run_cmd_conn e c) Hc Logic.I Hrun)
      as (tr0 & Ht & _ & Hcg & _).
    cbn [app] in Ht. subst tr0. rewrite Hw. intro Hnb.
    apply no_tip_trace; try assumption.
    + apply (Forall_JG_of True _ _ Logic.I Hall).
    + apply Hni. intro X. apply Hnb. apply bad_sticky_trace. exact X.
  - rewrite step_w_edit. intros Hnb rs Hrs Hnil.
    unfold hlog_bytes in Hrs. rewrite w_hlog_apply_edit in Hrs. rewrite w_refs_apply_edit in Hnil.
    apply Hni; [| exact Hrs | exact Hnil]. intro X. apply Hnb. unfold Bad in *.
    rewrite w_coll_apply_edit, w_objs_apply_edit. exact X.
Qed.

Lemma KI2_run : forall h w, Forall action_ok h -> KI2 w -> KI2 (run h w).
Proof.
  induction h as [|a h IH]; intros w Hall Hk; [exact Hk|].
  inversion Hall as [|a' h' Ha Hh]; subst. rewrite run_cons. apply IH; [exact Hh|].
  apply KI2_step; assumption.
Qed.

Lemma small_not_bad : forall w, w_coll w = false -> SmallStore (w_objs w) -> ~ Bad w.
Proof. intros w Hc Hs. apply not_bad_iff. split; assumption. Qed.

(* on every reachable world (no collision met, no giant object): while no
   branch exists, no record of the journal carries an id *)
Theorem reachable_no_tip_no_ids : forall w hl rs,
  Reachable w -> w_coll w = false -> SmallStore (w_objs w) ->
  w_hlog w = Some hl -> parse_reflog hl = Some rs ->
  w_refs w = [] -> Forall (fun r => r_id r = None) rs.
Proof.
  intros w hl rs (h & Hall & ->) Hc Hs Hhl Hrs Hnil.
  destruct (KI2_run h w_empty Hall KI2_empty) as [_ Hni].
  apply (Hni (small_not_bad _ Hc Hs)); [|exact Hnil].
  unfold hlog_bytes. rewrite Hhl. exact Hrs.
Qed.

(* so: a journal record that carries an id => the current branch has a tip,
   and the loaded context holds it *)
Theorem reachable_record_tip : forall w c hl rs n r tid,
  Reachable w -> w_coll w = false -> SmallStore (w_objs w) -> ctx_of w = Some c ->
  w_hlog w = Some hl -> parse_reflog hl = Some rs ->
  get_record rs n = Some r -> r_id r = Some tid ->
  exists prev pc, x_headc c = Some (prev, pc) /\ am_get (w_refs w) (w_head w) = Some prev /\
                  get_commit (w_objs w) prev = Some pc.
Proof.
  intros w c hl rs n r tid Hr Hc Hs Hx Hhl Hrs Hg Hid.
  assert (Hin : In r rs).
  { unfold get_record in Hg. destruct (Nat.leb (length rs) n); [discriminate Hg|].
    apply nth_error_In in Hg. exact Hg. }
  assert (Hne : w_refs w <> []).
  { intro Hnil. pose proof (reachable_no_tip_no_ids w hl rs Hr Hc Hs Hhl Hrs Hnil) as Hall.
    rewrite Forall_forall in Hall. rewrite (Hall r Hin) in Hid. discriminate Hid. }
  assert (Hhead : am_mem (w_refs w) (w_head w) = true).
  { destruct Hr as (h & Hall & ->).
    destruct (ConnectedFacts.good_run h Hall (small_not_bad _ Hc Hs)) as [_ [Hh|Hh]]; [contradiction | exact Hh]. }
  pose proof (loaded_headc w c Hx) as Hl.
  destruct (x_headc c) as [[prev pc]|].
  - exists prev, pc. destruct Hl as [H1 H2]. split; [reflexivity | split; assumption].
  - unfold am_mem in Hhead. rewrite Hl in Hhead. discriminate Hhead.
Qed.


(* ================================================================== *)
(** * C. the reset totals without the hypothesis on the tip *)

Section ResetTotal'.
  Variables (e : env) (w : world) (c : ctx).
  Variables (n : N) (hl : bytes) (rs : list lrec) (r : lrec) (tid : bytes).
  Hypothesis Hreach : Reachable w.
  Hypothesis Hcoll : w_coll w = false.
  Hypothesis Hsmall : SmallStore (w_objs w).
  Hypothesis Hctx : ctx_of w = Some c.
  Hypothesis Hn : (n <= 9223372036854775807)%N.
  Hypothesis Hhl : w_hlog w = Some hl.
  Hypothesis Hrs : parse_reflog hl = Some rs.
  Hypothesis Hrec : get_record rs (N.to_nat n) = Some r.
  Hypothesis Hid : r_id r = Some tid.

  Lemma rt_tip : exists prev pc, x_headc c = Some (prev, pc) /\ am_get (w_refs w) (w_head w) = Some prev /\
                                 get_commit (w_objs w) prev = Some pc.
  Proof. exact (reachable_record_tip w c hl rs (N.to_nat n) r tid Hreach Hcoll Hsmall Hctx Hhl Hrs Hrec Hid). Qed.

  (* --soft: [prev], the id the journal line records as the old value, is the
     tip of the current branch *)
  Theorem reset_soft_total' : forall mixed,
    exists prev, am_get (w_refs w) (w_head w) = Some prev /\
    let a := head_at n in
    let tr := reset_head_trace e c w prev tid a in
    let w' := apply_effects tr w in
    step (ACmd e (CReset true mixed false [a])) w = (w', OOk [], tr) /\
    reset_common_post w tid w' /\ w_index w' = w_index w /\ same_wt w w'.
  Proof.
    intro mixed. destruct rt_tip as (prev & pc & Hheadc & Htip & _).
    exists prev. split; [exact Htip|].
    exact (reset_soft_total e w c prev pc n hl rs r tid Hreach Hcoll Hsmall Hctx Hheadc Hn Hhl Hrs Hrec Hid mixed).
  Qed.

  Theorem reset_mixed_total' :
    exists prev es, am_get (w_refs w) (w_head w) = Some prev /\ snapshot (w_objs w) tid = Some es /\
      let a := head_at n in
      let tr := reset_head_trace e c w prev tid a ++ [ESetIndex es] in
      let w' := apply_effects tr w in
      step (ACmd e (CReset false true false [a])) w = (w', OOk [], tr) /\
      reset_common_post w tid w' /\ idx_of w' = es /\ same_wt w w'.
  Proof.
    destruct rt_tip as (prev & pc & Hheadc & Htip & _).
    destruct (reset_mixed_total e w c prev pc n hl rs r tid Hreach Hcoll Hsmall Hctx Hheadc Hn Hhl Hrs Hrec Hid)
      as (es & Hsn & Hrest).
    exists prev, es. split; [exact Htip|]. split; [exact Hsn | exact Hrest].
  Qed.

  Theorem reset_hard_total' : forall es,
    snapshot (w_objs w) tid = Some es ->
    (forall q, In q (paths es) -> restorable w q) ->
    (forall q1 q2, In q1 (paths es) -> In q2 (paths es) -> ~ In q1 (ancestors q2)) ->
    forall mixed, let a := head_at n in
    exists tr, let w' := apply_effects tr w in
      step (ACmd e (CReset false mixed true [a])) w = (w', OOk [], tr) /\
      reset_hard_result w tid es w' /\
      reset_hard_post w tid es w' /\
      Forall (fun ef => match ef with
                        | ESetRef nm id => nm = w_head w /\ id = tid
                        | EAppendHlog _ | EAppendBlog _ _ | EMkdirAll _ => True
                        | ESetIndex i => i = es
                        | EWriteFile q _ => In q (paths es)
                        | _ => False
                        end) tr.
  Proof.
    intros es Hsnap Hres Hflat mixed. destruct rt_tip as (prev & pc & Hheadc & _).
    exact (reset_hard_total e w c prev pc n hl rs r tid es Hreach Hcoll Hsmall Hctx Hheadc Hn Hhl Hrs Hrec Hid
             Hsnap Hres Hflat mixed).
  Qed.
End ResetTotal'.

Print Assumptions reflog_extends_reachable.
Print Assumptions reflog_head_entry_reachable.
Print Assumptions reflog_total_reachable.
Print Assumptions reflog_succeeds_reachable.
Print Assumptions reflog_succeeds_reachable'.
Print Assumptions reflog_refused.
Print Assumptions reachable_no_tip_no_ids.
Print Assumptions reachable_record_tip.
Print Assumptions reset_soft_total'.
Print Assumptions reset_mixed_total'.
Print Assumptions reset_hard_total'.
