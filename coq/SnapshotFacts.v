(* SnapshotFacts.v — C06-T2 / C05-T2 / C07-T2 at the level of whole histories.

   The invariant: [GoodW w] = [WtValid w] /\ [IndexGood w] /\ [SnapshotsGood' (w_objs w)]
   /\ [CfgNl w], where [SnapshotsGood'] is [SnapshotsGood] remembering the [item]
   form of every walked snapshot and [CfgNl] says that no loaded configuration
   value holds a newline (needed so that the author line of a commit cannot
   smuggle in a second "tree" header: [parse_commit_tree]).
   It is proved for the situations [Live w]: no SHA-1 collision flagged and
   [SmallStore (w_objs w)] (every object file shorter than 2^63 bytes; beyond
   that Goit cannot read its own object back, [payload_too_big]).  Both are
   conditions on the FINAL world only: they hold of every earlier world then.

   1. [good_step] [index_good_step] [good_run] [good_run_strong] [reachable_good]
      [staging_area_sorted]      C06-T2
   2. [snapshot]                 what Goit reads as the staged entries of a commit
      [commit_snapshot_step]     (a) after a successful commit the snapshot of the
                                 new HEAD commit is the staging area it was made from
      [snapshot_ext] [snapshot_stable_run] [commit_snapshot]   (b) and stays so
      [reset_reads_back]         (c) reset --mixed/--hard sets the staging area to
                                 the snapshot of the commit it resolves (no invariant)
      [reset_restores_commit]    C05-T2
   3. [commit_guard] [commit_nothing_refused] [commit_guard_passes]   C07-T2
   4. [ex_history_*] [ex_theorem_applies]   non-vacuity by computation *)
From Coq Require Import Strings.String Strings.Byte.
From Coq Require Import List Bool NArith ZArith Arith Lia Sorted.
From Goit Require Import Bytes Sha1 Obj Tree Index Regex GoRegex Commit Reflog Config Ignore World Repo.
From Goit Require Import BytesFacts ObjFacts IndexFacts TreeFacts DiffFacts CommitFacts MonadFacts Inv.
Import ListNotations.

#[local] Arguments sha1 : simpl never.
#[local] Arguments obj_id : simpl never.
#[local] Arguments payload : simpl never.
#[local] Arguments header : simpl never.

(* ================================================================== *)
(** * A. Growing stores *)

Definition store_ext (st st' : store) : Prop :=
  (forall id p, st_lookup st id = Some p -> st_lookup st' id = Some p) /\
  length st <= length st'.

Lemma store_ext_refl : forall st, store_ext st st.
Proof. intro st. split; [auto | lia]. Qed.

Lemma store_ext_trans : forall a b c, store_ext a b -> store_ext b c -> store_ext a c.
Proof. intros a b c [H1 L1] [H2 L2]. split; [auto | lia]. Qed.

Lemma st_set_length : forall st id v, length st <= length (st_set st id v).
Proof.
  induction st as [|[k v0] st IH]; intros id v; cbn [st_set length].
  - lia.
  - destruct (bytes_eqb k id); cbn [length]; [lia|]. specialize (IH id v). lia.
Qed.

Lemma store_ext_set : forall st id v,
  st_collides st id v = false -> store_ext st (st_set st id v).
Proof.
  intros st id v Hc. split.
  - intros i p Hl. apply st_set_keeps; assumption.
  - apply st_set_length.
Qed.

Lemma get_obj_ext : forall st st' id kd,
  store_ext st st' -> get_obj st id = Some kd -> get_obj st' id = Some kd.
Proof.
  intros st st' id kd [He _] Hg. unfold get_obj in *.
  destruct (st_lookup st id) as [p|] eqn:El; [|discriminate Hg].
  rewrite (He id p El). exact Hg.
Qed.

Lemma get_kind_ext : forall st st' k id d,
  store_ext st st' -> get_kind st k id = Some d -> get_kind st' k id = Some d.
Proof.
  intros st st' k id d He Hg. unfold get_kind in *.
  destruct (get_obj st id) as [kd|] eqn:Eo; [|discriminate Hg].
  rewrite (get_obj_ext st st' id kd He Eo). exact Hg.
Qed.

Lemma get_commit_ext : forall st st' id c,
  store_ext st st' -> get_commit st id = Some c -> get_commit st' id = Some c.
Proof.
  intros st st' id c He Hg. unfold get_commit in *.
  destruct (get_kind st KCommit id) as [d|] eqn:Ek; [|discriminate Hg].
  rewrite (get_kind_ext st st' KCommit id d He Ek). exact Hg.
Qed.

Lemma wk_go_ext : forall (rec1 rec2 : bytes -> option (list node)) st st',
  (forall d ns, rec1 d = Some ns -> rec2 d = Some ns) ->
  (forall id d, get_kind st KTree id = Some d -> get_kind st' KTree id = Some d) ->
  forall items ns, wk_go rec1 st items = Some ns -> wk_go rec2 st' items = Some ns.
Proof.
  intros rec1 rec2 st st' Hrec Hk. induction items as [|[[mode name] id] items IH]; intros ns H.
  - exact H.
  - cbn [wk_go] in *.
    destruct (wk_go rec1 st items) as [ns1|] eqn:E1.
    + rewrite (IH ns1 eq_refl). destruct (bytes_eqb mode mode_dir); [|exact H].
      destruct (get_kind st KTree id) as [d|] eqn:Eg; [|discriminate H].
      rewrite (Hk id d Eg).
      destruct (rec1 d) as [ch|] eqn:E2; [|discriminate H].
      rewrite (Hrec d ch E2). exact H.
    + destruct (bytes_eqb mode mode_dir); [|discriminate H].
      destruct (get_kind st KTree id) as [d|]; [|discriminate H].
      destruct (rec1 d); discriminate H.
Qed.

Lemma walk_tree_ext : forall n st st' d ns,
  store_ext st st' -> walk_tree n st d = Some ns -> walk_tree n st' d = Some ns.
Proof.
  induction n as [|n IH]; intros st st' d ns He H; [discriminate H|].
  rewrite walk_tree_S in *.
  destruct (parse_tree_items (S (length d)) d) as [items|]; [|discriminate H].
  apply (wk_go_ext (walk_tree n st) (walk_tree n st') st st'); [| |exact H].
  - intros d0 ns0 H0. apply (IH st st' d0 ns0 He H0).
  - intros id d0 H0. apply (get_kind_ext st st' KTree id d0 He H0).
Qed.

Lemma walk_tree_ext_fuel : forall st st' d ns,
  store_ext st st' ->
  walk_tree (S (length st)) st d = Some ns -> walk_tree (S (length st')) st' d = Some ns.
Proof.
  intros st st' d ns He H.
  apply (walk_tree_mono_le (S (length st)) (S (length st'))); [destruct He; lia|].
  apply (walk_tree_ext _ st st'); assumption.
Qed.

(* effects, traces, steps and histories only extend the store (no collision) *)
Lemma effect_store_ext : forall e w,
  w_coll (apply_effect e w) = false -> store_ext (w_objs w) (w_objs (apply_effect e w)).
Proof.
  intros e w Hc. destruct (is_put e) eqn:Ep.
  - destruct e; try discriminate Ep. rewrite w_coll_EPutObj in Hc.
    apply orb_false_elim in Hc. destruct Hc as [_ Hcol].
    rewrite w_objs_EPutObj. apply store_ext_set. exact Hcol.
  - rewrite w_objs_not_put by exact Ep. apply store_ext_refl.
Qed.

Lemma trace_store_ext : forall tr w,
  w_coll (apply_effects tr w) = false -> store_ext (w_objs w) (w_objs (apply_effects tr w)).
Proof.
  induction tr as [|e tr IH]; intros w Hc.
  - apply store_ext_refl.
  - rewrite apply_effects_cons in Hc |- *.
    apply (store_ext_trans _ (w_objs (apply_effect e w))); [|apply IH; exact Hc].
    apply effect_store_ext. apply (coll_false_before tr). exact Hc.
Qed.

Lemma step_w_eq : forall a w,
  match a with
  | ACmd e c => exists tr, step_w a w = apply_effects tr w
  | AEdit u => step_w a w = apply_edit u w
  end.
Proof.
  intros [e c|u] w.
  - destruct (step_cmd_world e c w) as [tr Htr]. exists tr. unfold step_w. rewrite Htr. reflexivity.
  - reflexivity.
Qed.

Lemma step_w_store_ext : forall a w,
  w_coll (step_w a w) = false -> store_ext (w_objs w) (w_objs (step_w a w)).
Proof.
  intros a w Hc. pose proof (step_w_eq a w) as H. destruct a as [e c|u].
  - destruct H as [tr H]. rewrite H in Hc |- *. apply trace_store_ext. exact Hc.
  - rewrite H, w_objs_apply_edit. apply store_ext_refl.
Qed.

Lemma run_coll_false_before : forall h w, w_coll (run h w) = false -> w_coll w = false.
Proof.
  intros h w Hc. destruct (w_coll w) eqn:E; [|reflexivity].
  rewrite (run_coll_sticky h w E) in Hc. discriminate Hc.
Qed.

Lemma run_store_ext : forall h w,
  w_coll (run h w) = false -> store_ext (w_objs w) (w_objs (run h w)).
Proof.
  induction h as [|a h IH]; intros w Hc.
  - apply store_ext_refl.
  - rewrite run_cons in Hc |- *.
    apply (store_ext_trans _ (w_objs (step_w a w))); [|apply IH; exact Hc].
    apply step_w_store_ext. apply (run_coll_false_before h). exact Hc.
Qed.

Lemma run_app : forall h1 h2 w, run (h1 ++ h2) w = run h2 (run h1 w).
Proof. intros h1 h2 w. unfold run. apply fold_left_app. Qed.

(* ================================================================== *)
(** * B. The snapshot of a commit, as Goit reads it *)

Definition snapshot (st : store) (cid : bytes) : option (list entry) :=
  match get_commit st cid with
  | Some c =>
      match get_kind st KTree (c_tree c) with
      | Some d =>
          match walk_tree (S (length st)) st d with
          | Some ns => Some (flatten [] ns)
          | None => None
          end
      | None => None
      end
  | None => None
  end.

(* (b) the snapshot of an existing commit is stable under store growth *)
Theorem snapshot_ext : forall st st' cid es,
  store_ext st st' -> snapshot st cid = Some es -> snapshot st' cid = Some es.
Proof.
  intros st st' cid es He H. unfold snapshot in *.
  destruct (get_commit st cid) as [c|] eqn:Ec; [|discriminate H].
  rewrite (get_commit_ext st st' cid c He Ec).
  destruct (get_kind st KTree (c_tree c)) as [d|] eqn:Ek; [|discriminate H].
  rewrite (get_kind_ext st st' KTree _ d He Ek).
  destruct (walk_tree (S (length st)) st d) as [ns|] eqn:Ew; [|discriminate H].
  rewrite (walk_tree_ext_fuel st st' d ns He Ew). exact H.
Qed.

Theorem snapshot_stable_run : forall h w cid es,
  w_coll (run h w) = false ->
  snapshot (w_objs w) cid = Some es -> snapshot (w_objs (run h w)) cid = Some es.
Proof.
  intros h w cid es Hc H. apply (snapshot_ext (w_objs w)); [|exact H].
  apply run_store_ext. exact Hc.
Qed.

(* the reading of a stored commit's tree, remembering the [item] form *)
Definition snap_ok (st : store) (c : commit) : Prop :=
  exists d its,
    get_kind st KTree (c_tree c) = Some d /\
    walk_tree (S (length st)) st d = Some (map node_of its) /\
    Forall wf_item its /\
    Canonical (flat_items [] its) /\ Forall valid_entry (flat_items [] its).

Definition SnapshotsGood' (st : store) : Prop :=
  forall id c, get_commit st id = Some c -> snap_ok st c.

Lemma flatten_items : forall its, Forall wf_item its ->
  flatten [] (map node_of its) = flat_items [] its.
Proof.
  intros its Hwf. apply (flatten_nodes (S (ldepth its))); [lia | exact Hwf].
Qed.

Lemma SnapshotsGood'_weaken : forall st, SnapshotsGood' st -> SnapshotsGood st.
Proof.
  intros st H id c Hc. destruct (H id c Hc) as (d & its & Hk & Hw & Hwf & Hcan & Hval).
  exists d, (map node_of its). rewrite (flatten_items its Hwf). auto.
Qed.

Lemma snap_ok_ext : forall st st' c, store_ext st st' -> snap_ok st c -> snap_ok st' c.
Proof.
  intros st st' c He (d & its & Hk & Hw & Hrest).
  exists d, its. split; [apply (get_kind_ext st st'); assumption|].
  split; [apply (walk_tree_ext_fuel st st'); assumption | exact Hrest].
Qed.

Lemma snap_ok_snapshot : forall st id c,
  get_commit st id = Some c -> snap_ok st c ->
  exists its, snapshot st id = Some (flat_items [] its) /\ Forall wf_item its /\
              Canonical (flat_items [] its) /\ Forall valid_entry (flat_items [] its).
Proof.
  intros st id c Hc (d & its & Hk & Hw & Hwf & Hrest).
  exists its. split; [|auto]. unfold snapshot. rewrite Hc, Hk, Hw, (flatten_items its Hwf). reflexivity.
Qed.

(* writing one object: old commits keep their reading, the new id must be checked *)
Lemma SnapshotsGood'_set : forall st id p,
  SnapshotsGood' st -> st_collides st id p = false ->
  (forall c, st_lookup st id = None -> get_commit (st_set st id p) id = Some c ->
             snap_ok (st_set st id p) c) ->
  SnapshotsGood' (st_set st id p).
Proof.
  intros st id p Hg Hcol Hnew id0 c Hc.
  pose proof (store_ext_set st id p Hcol) as He.
  destruct (bytes_eq_dec id0 id) as [->|Hne].
  - destruct (st_lookup st id) as [p0|] eqn:El.
    + assert (Hp : p0 = p).
      { unfold st_collides in Hcol. rewrite El in Hcol.
        apply negb_false_iff in Hcol. apply bytes_eqb_eq in Hcol. exact Hcol. }
      subst p0. rewrite (put_idempotent st id p El) in Hc |- *. apply (Hg id c Hc).
    + apply Hnew; [reflexivity | exact Hc].
  - apply (snap_ok_ext st); [exact He|]. apply (Hg id0 c).
    unfold get_commit, get_kind in Hc |- *. rewrite (get_frame_gen st id p id0 Hne) in Hc. exact Hc.
Qed.

(* ================================================================== *)
(** * C. Association maps and the work tree *)

Lemma am_get_set_some : forall (V : Type) (m : amap V) k v p d,
  am_get (am_set m k v) p = Some d -> p = k \/ exists d', am_get m p = Some d'.
Proof.
  intros V m k v p d. induction m as [|[k' v'] r IH]; cbn [am_set am_get].
  - destruct (bytes_eqb k p) eqn:E; [|discriminate]. intros _. left. symmetry. apply bytes_eqb_eq. exact E.
  - destruct (bytes_eqb k' k) eqn:Ek.
    + cbn [am_get]. destruct (bytes_eqb k p) eqn:E.
      * intros _. left. symmetry. apply bytes_eqb_eq. exact E.
      * intro H. right. apply bytes_eqb_eq in Ek. subst k'. rewrite E. exists d. exact H.
    + destruct (blt k k') eqn:Eb.
      * cbn [am_get]. destruct (bytes_eqb k p) eqn:E.
        -- intros _. left. symmetry. apply bytes_eqb_eq. exact E.
        -- intro H. right. exists d. exact H.
      * cbn [am_get]. destruct (bytes_eqb k' p) eqn:E.
        -- intro H. right. exists v'. reflexivity.
        -- exact IH.
Qed.

Lemma am_get_del_some : forall (V : Type) (m : amap V) k p d,
  am_get (am_del m k) p = Some d -> exists d', am_get m p = Some d'.
Proof.
  intros V m k p d. induction m as [|[k' v'] r IH]; cbn [am_del am_get].
  - discriminate.
  - destruct (bytes_eqb k' k) eqn:Ek.
    + intro H. destruct (bytes_eqb k' p); [exists v'; reflexivity | exists d; exact H].
    + cbn [am_get]. destruct (bytes_eqb k' p); [intros _; exists v'; reflexivity | exact IH].
Qed.

Lemma am_get_filter_some : forall (V : Type) (f : bytes * V -> bool) (m : amap V) p d,
  am_get (filter f m) p = Some d -> exists d', am_get m p = Some d'.
Proof.
  intros V f m p d. induction m as [|[k' v'] r IH]; cbn [filter am_get].
  - discriminate.
  - destruct (f (k', v')).
    + cbn [am_get]. destruct (bytes_eqb k' p); [intros _; exists v'; reflexivity | exact IH].
    + intro H. destruct (bytes_eqb k' p); [exists v'; reflexivity | exact (IH H)].
Qed.

Lemma am_get_set_same : forall (V : Type) (m : amap V) k v, am_get (am_set m k v) k = Some v.
Proof.
  intros V m k v. induction m as [|[k' v'] r IH]; cbn [am_set am_get].
  - rewrite bytes_eqb_refl. reflexivity.
  - destruct (bytes_eqb k' k) eqn:Ek.
    + cbn [am_get]. rewrite bytes_eqb_refl. reflexivity.
    + destruct (blt k k').
      * cbn [am_get]. rewrite bytes_eqb_refl. reflexivity.
      * cbn [am_get]. rewrite Ek. exact IH.
Qed.

Lemma WtValid_files : forall w w',
  (forall p d, am_get (w_files w') p = Some d -> exists d', am_get (w_files w) p = Some d') ->
  WtValid w -> WtValid w'.
Proof. intros w w' H Hv p d Hg. destruct (H p d Hg) as [d' Hd']. exact (Hv p d' Hd'). Qed.

Lemma WtValid_effect : forall e w,
  WtValid w -> (forall p d, e = EWriteFile p d -> valid_path p) -> WtValid (apply_effect e w).
Proof.
  intros e w Hv He.
  destruct e; try (apply (WtValid_files w); [|exact Hv]; autorewrite with wfields; intros p0 d0 H0; exists d0; exact H0).
  - (* EWriteFile *)
    intros p0 d0 H0. rewrite w_files_EWriteFile in H0.
    destruct (am_get_set_some _ _ _ _ _ _ H0) as [->|[d' Hd']].
    + apply (He path data). reflexivity.
    + exact (Hv p0 d' Hd').
  - (* ERemovePath *)
    apply (WtValid_files w); [|exact Hv]. intros p0 d0 H0. rewrite w_files_ERemovePath in H0.
    exact (am_get_del_some _ _ _ _ _ H0).
Qed.

Lemma WtValid_edit : forall u w, edit_ok u -> WtValid w -> WtValid (apply_edit u w).
Proof.
  intros [p d|p|p|p] w Hok Hv; cbn [apply_edit edit_ok] in *.
  - apply WtValid_effect.
    + destruct (parent_dir p); [|exact Hv]. apply WtValid_effect; [exact Hv|]. intros p0 d0 H0. discriminate H0.
    + intros p0 d0 H0. injection H0 as <- _. exact Hok.
  - apply WtValid_effect; [exact Hv|]. intros p0 d0 H0. discriminate H0.
  - apply (WtValid_files w); [|exact Hv]. intros p0 d0 H0. cbn in H0.
    exact (am_get_filter_some _ _ _ _ _ H0).
  - apply WtValid_effect; [exact Hv|]. intros p0 d0 H0. discriminate H0.
Qed.

(* ================================================================== *)
(** * D. No configuration value ever holds a newline *)

Definition kvs_nl (m : kvs) : Prop := Forall (fun kv => ~ In c_nl (snd kv)) m.
Definition cfg_nl (c : cfg) : Prop := Forall (fun sm => kvs_nl (snd sm)) c.
Definition cfgst_nl (s : cfgst) : Prop := forall c, cfg_of s = Some c -> cfg_nl c.
Definition CfgNl (w : world) : Prop := cfgst_nl (w_lcfg w) /\ cfgst_nl (w_gcfg w).

Lemma kv_set_nl : forall m k v, kvs_nl m -> ~ In c_nl v -> kvs_nl (kv_set m k v).
Proof.
  induction m as [|[k' v'] r IH]; intros k v Hm Hv; cbn [kv_set].
  - constructor; [exact Hv | constructor].
  - inversion Hm as [|? ? H1 H2]; subst. destruct (bytes_eqb k' k).
    + constructor; [exact Hv | exact H2].
    + constructor; [exact H1 | apply IH; assumption].
Qed.

Lemma sec_set_nl : forall c s m, cfg_nl c -> kvs_nl m -> cfg_nl (sec_set c s m).
Proof.
  induction c as [|[s' m'] r IH]; intros s m Hc Hm; cbn [sec_set].
  - constructor; [exact Hm | constructor].
  - inversion Hc as [|? ? H1 H2]; subst. destruct (bytes_eqb s' s).
    + constructor; [exact Hm | exact H2].
    + constructor; [exact H1 | apply IH; assumption].
Qed.

Lemma sec_get_nl : forall c s m, cfg_nl c -> sec_get c s = Some m -> kvs_nl m.
Proof.
  induction c as [|[s' m'] r IH]; intros s m Hc Hg; cbn [sec_get] in Hg; [discriminate Hg|].
  inversion Hc as [|? ? H1 H2]; subst. destruct (bytes_eqb s' s).
  - injection Hg as <-. exact H1.
  - exact (IH s m H2 Hg).
Qed.

Lemma kv_get_nl : forall m k v, kvs_nl m -> kv_get m k = Some v -> ~ In c_nl v.
Proof.
  induction m as [|[k' v'] r IH]; intros k v Hm Hg; cbn [kv_get] in Hg; [discriminate Hg|].
  inversion Hm as [|? ? H1 H2]; subst. destruct (bytes_eqb k' k).
  - injection Hg as <-. exact H1.
  - exact (IH k v H2 Hg).
Qed.

Lemma drop_cr_incl : forall l x, In x (drop_cr l) -> In x l.
Proof.
  intros l x. unfold drop_cr. destruct (rev l) as [|c r] eqn:E; [auto|].
  destruct (beqb c c_cr); [|auto].
  intro H. apply in_rev. rewrite E. right. apply in_rev in H. exact H.
Qed.

Lemma scan_lines_aux_nl : forall s cur,
  ~ In c_nl cur -> Forall (fun l => ~ In c_nl l) (scan_lines_aux cur s).
Proof.
  induction s as [|c r IH]; intros cur Hcur; cbn [scan_lines_aux].
  - destruct cur as [|c0 cur0]; [constructor|]. constructor; [|constructor].
    intro H. apply drop_cr_incl in H. apply in_rev in H. exact (Hcur H).
  - destruct (beqb c c_nl) eqn:E.
    + constructor.
      * intro H. apply drop_cr_incl in H. apply in_rev in H. exact (Hcur H).
      * apply IH. intros [].
    + apply IH. intros [H|H]; [|exact (Hcur H)].
      apply beqb_neq in E. exact (E H).
Qed.

Lemma trim_left_incl : forall s x, In x (trim_left s) -> In x s.
Proof.
  induction s as [|c r IH]; intros x H; cbn [trim_left] in H; [exact H|].
  destruct (is_space c); [right; exact (IH x H) | exact H].
Qed.

Lemma trim_space_incl : forall s x, In x (trim_space s) -> In x s.
Proof.
  intros s x H. unfold trim_space in H. apply in_rev in H.
  apply trim_left_incl in H. apply in_rev in H. apply trim_left_incl in H. exact H.
Qed.

Lemma cfg_load_lines_nl : forall ls c cur c',
  Forall (fun l => ~ In c_nl l) ls -> cfg_nl c ->
  cfg_load_lines ls c cur = Some c' -> cfg_nl c'.
Proof.
  induction ls as [|l r IH]; intros c cur c' Hls Hc H; cbn [cfg_load_lines] in H.
  - injection H as <-. exact Hc.
  - inversion Hls as [|? ? Hl Hr]; subst.
    destruct (re_search re_identRegexp l).
    + destruct (Nat.leb (length l) 2); [discriminate H|].
      apply (IH _ _ _ Hr) in H; [exact H|]. apply sec_set_nl; [exact Hc | constructor].
    + destruct (is_nil (trim_space l)); [exact (IH _ _ _ Hr Hc H)|].
      destruct (split1 x3d (remove_tabs l)) as [k [v|]] eqn:Es; [|discriminate H].
      destruct cur as [s|]; [|discriminate H].
      apply (IH _ _ _ Hr) in H; [exact H|]. apply sec_set_nl; [exact Hc|].
      apply kv_set_nl.
      * destruct (sec_get c s) as [m|] eqn:Eg; [exact (sec_get_nl c s m Hc Eg) | constructor].
      * intro Hin. apply trim_space_incl in Hin.
        apply split1_inv_some in Es. apply Hl.
        assert (Hin2 : In c_nl (remove_tabs l)).
        { destruct Es as [Es _]. rewrite Es. apply in_or_app. right. right. exact Hin. }
        unfold remove_tabs in Hin2. apply filter_In in Hin2. apply Hin2.
Qed.

Lemma cfg_load_nl : forall b c, cfg_load b = Some c -> cfg_nl c.
Proof.
  intros b c H. unfold cfg_load in H.
  apply (cfg_load_lines_nl (scan_lines b) [] None c); [|constructor|exact H].
  apply scan_lines_aux_nl. intros [].
Qed.

Lemma cfg_written_nl : forall c, cfgst_nl (cfg_written c).
Proof. intros c c' H. cbn in H. exact (cfg_load_nl _ _ H). Qed.

Lemma ident_get_nl : forall l g key v,
  cfg_nl l -> cfg_nl g -> ident_get l g key = Some v -> ~ In c_nl v.
Proof.
  intros l g key v Hl Hg H. unfold ident_get in H.
  assert (HG : match sec_get g (str "user"%string) with Some m' => kv_get m' key | None => None end = Some v
               -> ~ In c_nl v).
  { destruct (sec_get g (str "user"%string)) as [m'|] eqn:Eg; [|discriminate].
    apply kv_get_nl. exact (sec_get_nl g _ m' Hg Eg). }
  destruct (sec_get l (str "user"%string)) as [m|] eqn:El; [|exact (HG H)].
  destruct (kv_get m key) as [v0|] eqn:Ek; [|exact (HG H)].
  injection H as <-. exact (kv_get_nl m key v0 (sec_get_nl l _ m Hl El) Ek).
Qed.

Lemma user_name_nl : forall l g, cfg_nl l -> cfg_nl g -> ~ In c_nl (user_name l g).
Proof.
  intros l g Hl Hg. unfold user_name.
  destruct (ident_get l g (str "name"%string)) as [v|] eqn:E; [exact (ident_get_nl l g _ v Hl Hg E) | intros []].
Qed.

Lemma user_email_nl : forall l g, cfg_nl l -> cfg_nl g -> ~ In c_nl (user_email l g).
Proof.
  intros l g Hl Hg. unfold user_email.
  destruct (ident_get l g (str "email"%string)) as [v|] eqn:E; [exact (ident_get_nl l g _ v Hl Hg E) | intros []].
Qed.

Lemma dec_nl : forall n, ~ In c_nl (dec n).
Proof. intro n. apply dec_no_byte. reflexivity. Qed.

Lemma dec2_nl : forall n, ~ In c_nl (dec2 n).
Proof.
  intro n. unfold dec2. destruct (N.ltb n 10); [|apply dec_nl].
  intros [H|H]; [discriminate H | exact (dec_nl n H)].
Qed.

Lemma sign_string_nl : forall name email t off,
  ~ In c_nl name -> ~ In c_nl email -> ~ In c_nl (sign_string name email t off).
Proof.
  intros name email t off Hn He. unfold sign_string, tz_string.
  rewrite !in_app_iff. intros [H|[H|[H|[H|[H|[H|[H|[H|H]]]]]]]].
  - exact (Hn H).
  - destruct H as [H|[H|[]]]; discriminate H.
  - exact (He H).
  - destruct H as [H|[H|[]]]; discriminate H.
  - destruct (Z.ltb t 0); [destruct H as [H|H]; [discriminate H|]|]; exact (dec_nl _ H).
  - destruct H as [H|[]]. discriminate H.
  - destruct (Z.leb 0 off); destruct H as [H|[]]; discriminate H.
  - exact (dec2_nl _ H).
  - exact (dec2_nl _ H).
Qed.

(* ================================================================== *)
(** * E. The tree line of a commit Goit writes is the one it reads *)

Theorem parse_commit_tree : forall tree parent a c msg cm,
  length tree = 20 -> ~ In c_nl a -> ~ In c_nl c ->
  parse_commit (commit_text tree (option_map hex parent) a c msg) = Some cm ->
  c_tree cm = tree.
Proof.
  intros tree parent a c msg cm Htree Ha Hc H.
  unfold parse_commit, commit_text in H.
  rewrite (lf_hex_line (str "tree ") tree _ eq_refl) in H.
  rewrite parse_headers_tree, (read_hash_hex tree Htree) in H.
  cbn [c_tree c_parents c_author c_committer c_msg] in H.
  assert (Hrest : forall c0 rest0,
    match parse_headers (lf_lines (str "author " ++ a ++ [c_nl] ++ str "committer " ++ c ++ [c_nl] ++ rest0)) c0 with
    | Some (c1, ml) => Some (mkCommit (c_tree c1) (c_parents c1) (c_author c1) (c_committer c1) (join [c_nl] ml))
    | None => None
    end = Some cm ->
    match rest0 with [] => False | x :: _ => x = c_nl end -> c_tree cm = c_tree c0).
  { intros c0 rest0 H0 Hr.
    rewrite (lf_sign_line (str "author ") a _ eq_refl Ha), parse_headers_author in H0.
    destruct (read_sign a) as [sa|]; [|discriminate H0].
    rewrite (lf_sign_line (str "committer ") c _ eq_refl Hc), parse_headers_committer in H0.
    destruct (read_sign c) as [sc|]; [|discriminate H0].
    cbn [c_tree c_parents c_author c_committer c_msg] in H0.
    destruct rest0 as [|x rest1]; [destruct Hr|]. subst x.
    rewrite lf_lines_nl in H0.
    rewrite parse_headers_blank in H0. cbn [c_tree c_parents c_author c_committer c_msg] in H0.
    injection H0 as <-. reflexivity. }
  destruct parent as [p|]; cbn [option_map] in H.
  - rewrite <- !app_assoc in H.
    rewrite (lf_hex_line (str "parent ") p _ eq_refl) in H.
    rewrite parse_headers_parent in H.
    destruct (read_hash (hex p)) as [h|]; [|discriminate H].
    cbn [c_tree c_parents c_author c_committer c_msg] in H.
    rewrite (Hrest _ _ H); [reflexivity | reflexivity].
  - rewrite app_nil_l in H. rewrite (Hrest _ _ H); [reflexivity | reflexivity].
Qed.

(* ================================================================== *)
(** * F. The invariant *)

(* every object file in the store is shorter than 2^63 bytes: beyond that
   size Goit cannot read its own object back ([payload_too_big]) *)
Definition SmallStore (st : store) : Prop :=
  forall id p, st_lookup st id = Some p -> (lenN p < 2 ^ 63)%N.

(* the situations the theorems cover: no SHA-1 collision met, no giant object *)
Definition Live (w : world) : Prop := w_coll w = false /\ SmallStore (w_objs w).

Definition GoodW (w : world) : Prop :=
  WtValid w /\ IndexGood w /\ SnapshotsGood' (w_objs w) /\ CfgNl w.

Definition Inv (w : world) : Prop := Live w -> GoodW w.
Definition G (w : world) (e : effect) : Prop := True.

Lemma SmallStore_ext : forall st st', store_ext st st' -> SmallStore st' -> SmallStore st.
Proof. intros st st' [He _] Hs id p Hl. exact (Hs id p (He id p Hl)). Qed.

Lemma Live_effect_before : forall e w, Live (apply_effect e w) -> Live w.
Proof.
  intros e w [Hc Hs]. split.
  - apply (coll_false_before [e]). exact Hc.
  - apply (SmallStore_ext _ _ (effect_store_ext e w Hc) Hs).
Qed.

Lemma Live_trace_before : forall tr w, Live (apply_effects tr w) -> Live w.
Proof.
  intros tr w [Hc Hs]. split.
  - apply (coll_false_before tr). exact Hc.
  - apply (SmallStore_ext _ _ (trace_store_ext tr w Hc) Hs).
Qed.

Lemma GoodW_Inv : forall w, GoodW w -> Inv w.
Proof. intros w H _. exact H. Qed.

Definition is_setidx (e : effect) : bool := match e with ESetIndex _ => true | _ => false end.

Lemma w_index_not_set : forall e w, is_setidx e = false -> w_index (apply_effect e w) = w_index w.
Proof. intros e w He. destruct e; try discriminate He; autorewrite with wfields; reflexivity. Qed.

Lemma IndexGood_effect : forall e w,
  IndexGood w -> (forall es, e = ESetIndex es -> Canonical es /\ Forall valid_entry es) ->
  IndexGood (apply_effect e w).
Proof.
  intros e w Hi He. destruct (is_setidx e) eqn:E.
  - destruct e; try discriminate E. unfold IndexGood, idx_of. rewrite w_index_ESetIndex.
    apply (He es). reflexivity.
  - unfold IndexGood, idx_of in *. rewrite (w_index_not_set e w E). exact Hi.
Qed.

Lemma CfgNl_effect : forall e w,
  CfgNl w -> (forall c, e = ESetLcfg c -> cfgst_nl c) -> (forall c, e = ESetGcfg c -> cfgst_nl c) ->
  CfgNl (apply_effect e w).
Proof.
  intros e w [Hl Hg] H1 H2. unfold CfgNl.
  destruct e; autorewrite with wfields; try (split; assumption).
  - split; [|exact Hg]. intros c Hc. cbn in Hc. injection Hc as <-. constructor.
  - split; [apply (H1 c); reflexivity | exact Hg].
  - split; [exact Hl | apply (H2 c); reflexivity].
Qed.

Lemma GoodW_effect : forall e w,
  GoodW w ->
  (forall p d, e = EWriteFile p d -> valid_path p) ->
  (forall es, e = ESetIndex es -> Canonical es /\ Forall valid_entry es) ->
  (forall id p, e = EPutObj id p -> SnapshotsGood' (st_set (w_objs w) id p)) ->
  (forall c, e = ESetLcfg c -> cfgst_nl c) -> (forall c, e = ESetGcfg c -> cfgst_nl c) ->
  GoodW (apply_effect e w).
Proof.
  intros e w (Hwt & Hix & Hsn & Hcf) H1 H2 H3 H4 H5.
  split; [apply WtValid_effect; assumption|].
  split; [apply IndexGood_effect; assumption|].
  split; [|apply CfgNl_effect; assumption].
  destruct (is_put e) eqn:Ep.
  - destruct e; try discriminate Ep. rewrite w_objs_EPutObj. apply (H3 id payload). reflexivity.
  - rewrite w_objs_not_put by exact Ep. exact Hsn.
Qed.

Lemma inv_effect : forall e w,
  Inv w -> (Live (apply_effect e w) -> GoodW w -> GoodW (apply_effect e w)) ->
  Inv (apply_effect e w).
Proof.
  intros e w Hi H. intro HL.
  apply H; [exact HL|]. apply Hi. exact (Live_effect_before e w HL).
Qed.

(* effects that touch neither the staging area, the store, the files' names
   nor the configuration *)
Definition benign (e : effect) : bool :=
  match e with
  | EPutObj _ _ | ESetIndex _ | EWriteFile _ _ | ESetLcfg _ | ESetGcfg _ => false
  | _ => true
  end.

Lemma inv_benign : forall e w, benign e = true -> Inv w -> Inv (apply_effect e w).
Proof.
  intros e w He Hi. apply inv_effect; [exact Hi|]. intros _ Hg.
  apply GoodW_effect; [exact Hg| | | | |]; intros; subst e; discriminate He.
Qed.

Lemma inv_set_index : forall es w,
  Inv w -> (Live w -> GoodW w -> Canonical es /\ Forall valid_entry es) ->
  Inv (apply_effect (ESetIndex es) w).
Proof.
  intros es w Hi H. apply inv_effect; [exact Hi|]. intros HL Hg.
  apply GoodW_effect; [exact Hg| | | | |]; try (intros; discriminate).
  intros es0 E. injection E as <-. apply H; [|exact Hg]. exact (Live_effect_before _ _ HL).
Qed.

Lemma inv_write_file : forall p d w,
  Inv w -> (Live w -> GoodW w -> valid_path p) ->
  Inv (apply_effect (EWriteFile p d) w).
Proof.
  intros p d w Hi H. apply inv_effect; [exact Hi|]. intros HL Hg.
  apply GoodW_effect; [exact Hg| | | | |]; try (intros; discriminate).
  intros p0 d0 E. injection E as <- _. apply H; [|exact Hg]. exact (Live_effect_before _ _ HL).
Qed.

Lemma inv_set_lcfg : forall c w, Inv w -> Inv (apply_effect (ESetLcfg (cfg_written c)) w).
Proof.
  intros c w Hi. apply inv_effect; [exact Hi|]. intros _ Hg.
  apply GoodW_effect; [exact Hg| | | | |]; try (intros; discriminate).
  intros c0 E. injection E as <-. apply cfg_written_nl.
Qed.

Lemma inv_set_gcfg : forall s w, cfgst_nl s -> Inv w -> Inv (apply_effect (ESetGcfg s) w).
Proof.
  intros s w Hs Hi. apply inv_effect; [exact Hi|]. intros _ Hg.
  apply GoodW_effect; [exact Hg| | | | |]; try (intros; discriminate).
  intros c0 E. injection E as <-. exact Hs.
Qed.

(* reading back the object just written *)
Lemma get_commit_put : forall st k d c,
  get_commit (st_set st (obj_id k d) (payload k d)) (obj_id k d) = Some c ->
  k = KCommit /\ parse_commit d = Some c /\ (lenN d < 2 ^ 63)%N.
Proof.
  intros st k d c H. unfold get_commit, get_kind, get_obj in H.
  rewrite st_lookup_set_same in H.
  destruct (N.ltb (lenN d) (2 ^ 63)) eqn:E.
  - apply N.ltb_lt in E. rewrite (payload_roundtrip k d E) in H.
    change (sha1 (payload k d)) with (obj_id k d) in H. rewrite bytes_eqb_refl in H.
    destruct k; try discriminate H. cbn [kind_eqb] in H. auto.
  - apply N.ltb_ge in E. rewrite (payload_too_big k d E) in H. discriminate H.
Qed.

Lemma put_coll_false : forall id p w,
  w_coll (apply_effect (EPutObj id p) w) = false -> st_collides (w_objs w) id p = false.
Proof.
  intros id p w H. rewrite w_coll_EPutObj in H. apply orb_false_elim in H. apply H.
Qed.

Lemma inv_put : forall k d w,
  k <> KCommit -> Inv w ->
  Inv (apply_effect (EPutObj (obj_id k d) (payload k d)) w).
Proof.
  intros k d w Hk Hi. apply inv_effect; [exact Hi|]. intros [Hc _] Hg.
  apply GoodW_effect; [exact Hg| | | | |]; try (intros; discriminate).
  intros id p E. injection E as <- <-.
  apply SnapshotsGood'_set; [apply Hg | exact (put_coll_false _ _ _ Hc) |].
  intros c _ Hgc. destruct (get_commit_put _ _ _ _ Hgc) as [Hk' _]. contradiction.
Qed.

Lemma inv_put_commit : forall d w,
  Inv w ->
  (Live (apply_effect (EPutObj (obj_id KCommit d) (payload KCommit d)) w) -> GoodW w ->
   forall c, parse_commit d = Some c ->
             snap_ok (st_set (w_objs w) (obj_id KCommit d) (payload KCommit d)) c) ->
  Inv (apply_effect (EPutObj (obj_id KCommit d) (payload KCommit d)) w).
Proof.
  intros d w Hi H. apply inv_effect; [exact Hi|]. intros HL Hg.
  apply GoodW_effect; [exact Hg| | | | |]; try (intros; discriminate).
  intros id p E. injection E as <- <-.
  apply SnapshotsGood'_set; [apply Hg | exact (put_coll_false _ _ _ (proj1 HL)) |].
  intros c _ Hgc. destruct (get_commit_put _ _ _ _ Hgc) as (_ & Hp & _).
  apply H; assumption.
Qed.

(* index updates keep the staging area good *)
Lemma Forall_valid_In : forall es e, Forall valid_entry es -> In e es -> valid_entry e.
Proof. intros es e H. rewrite Forall_forall in H. apply H. Qed.

Lemma idx_update_good : forall es id p es',
  Canonical es -> Forall valid_entry es -> length id = 20 -> valid_path p ->
  idx_update es id p = Some es' -> Canonical es' /\ Forall valid_entry es'.
Proof.
  intros es id p es' Hc Hv Hid Hp Hu.
  destruct (idx_update_spec es id p es' Hc Hu) as (Hc' & _ & Hidp & Hother).
  split; [exact Hc'|]. apply Forall_forall. intros e He.
  destruct (bytes_eq_dec (e_path e) p) as [Ep|Ep].
  - split; [rewrite (Hidp e He Ep); exact Hid | rewrite Ep; exact Hp].
  - apply (Forall_valid_In es); [exact Hv|]. apply (Hother e Ep). exact He.
Qed.

Lemma remove_nth_incl : forall (A : Type) n (l : list A) x, In x (remove_nth n l) -> In x l.
Proof.
  intros A n. induction n as [|n IH]; intros [|y l] x H; cbn [remove_nth] in H; try exact H.
  - right. exact H.
  - destruct H as [H|H]; [left; exact H | right; exact (IH l x H)].
Qed.

Lemma idx_delete_good : forall es p es',
  Canonical es -> Forall valid_entry es ->
  idx_delete es p = Some es' -> Canonical es' /\ Forall valid_entry es'.
Proof.
  intros es p es' Hc Hv Hd.
  destruct (idx_delete_spec es p es' Hc Hd) as (Hc' & _ & _).
  split; [exact Hc'|]. unfold idx_delete in Hd.
  destruct (get_entry es p) as [[pos e0]|]; [|discriminate Hd]. injection Hd as <-.
  apply Forall_forall. intros e He. apply (Forall_valid_In es); [exact Hv|].
  exact (remove_nth_incl _ _ _ _ He).
Qed.

Lemma get_entry_In : forall es p i e, get_entry es p = Some (i, e) -> In e es /\ e_path e = p.
Proof.
  intros es p i e H. destruct (get_entry_sound es p i e H) as [Hn Hp].
  split; [exact (nth_error_In _ _ Hn) | exact Hp].
Qed.

Lemma idx_of_not_set : forall e w, is_setidx e = false -> idx_of (apply_effect e w) = idx_of w.
Proof. intros e w He. unfold idx_of. rewrite (w_index_not_set e w He). reflexivity. Qed.

Lemma idx_of_set : forall es w, idx_of (apply_effect (ESetIndex es) w) = es.
Proof. intros es w. unfold idx_of. rewrite w_index_ESetIndex. reflexivity. Qed.

(* ================================================================== *)
(** * G. Every command preserves the invariant *)

Ltac gsplit :=
  lazymatch goal with
  | |- G _ _ /\ Inv _ /\ _ => split; [exact Logic.I | split]
  | |- G _ _ /\ Inv _ => split; [exact Logic.I | ]
  end.
Ltac benign_tac := gsplit; [apply inv_benign; [reflexivity | assumption] | ..].
Ltac call_emits L := apply hoare_at with (P := fun _ : world => True); [apply L | exact Logic.I].

Definition CtxOk (w : world) (x : ctx) : Prop :=
  cfg_of (w_lcfg w) = Some (x_l x) /\ cfg_of (w_gcfg w) = Some (x_g x) /\
  match x_headc x with
  | Some (id, cm) => am_get (w_refs w) (w_head w) = Some id /\ get_commit (w_objs w) id = Some cm
  | None => am_get (w_refs w) (w_head w) = None
  end.

Lemma load_ctx_spec : forall w, hoare Inv G (eq w) load_ctx (fun x w' => w' = w /\ CtxOk w x).
Proof.
  intro w. unfold load_ctx. hsteps.
  - split; [reflexivity|]. unfold CtxOk. cbn [x_l x_g x_headc]. auto.
  - split; [reflexivity|]. unfold CtxOk. cbn [x_l x_g x_headc]. auto.
Qed.

Lemma add_file_tail : forall w p a,
  am_get (w_files w) p = Some a ->
  hoare Inv G (eq w)
    (put_obj KBlob a;;;
     emit (ESetIndex match idx_update (idx_of w) (obj_id KBlob a) p with
                     | Some i => i
                     | None => idx_of w
                     end)) (fun _ _ => True).
Proof.
  intros w p a Hf. hinline. hsteps.
  - gsplit. apply inv_put; [discriminate | assumption].
  - gsplit; [|exact Logic.I]. apply inv_set_index; [assumption|].
    intros _ (Hwt & [Hc Hv] & _).
    rewrite idx_of_not_set in Hc, Hv by reflexivity.
    unfold WtValid in Hwt. rewrite w_files_EPutObj in Hwt.
    destruct (idx_update (idx_of w) (obj_id KBlob a) p) as [i|] eqn:Eu; [|split; assumption].
    apply (idx_update_good _ _ _ _ Hc Hv (sha1_length _) (Hwt p a Hf) Eu).
Qed.

Lemma add_file_emits : forall p, emits Inv G (add_file p).
Proof.
  intro p. hinline. hsteps; try exact Logic.I; apply (add_file_tail w p a); assumption.
Qed.

Lemma set_index_delete : forall w p i,
  idx_delete (idx_of w) p = Some i -> Inv w -> Inv (apply_effect (ESetIndex i) w).
Proof.
  intros w p i Hd Hi. apply inv_set_index; [exact Hi|].
  intros _ (_ & [Hc Hv] & _). apply (idx_delete_good _ _ _ Hc Hv Hd).
Qed.

Lemma cmd_add_emits : forall c args, emits Inv G (cmd_add c args).
Proof.
  intros c args. unfold cmd_add.
  apply emits_bind_guard; intros _.
  apply emits_bind. { apply emits_bind_getw. intros w Hi. hsteps. exact Logic.I. } intros _.
  apply emits_bind; [|intros; apply emits_ret].
  apply emits_iterM. intros a _. apply emits_bind_getw. intros w Hi.
  destruct (ignored w (x_pats c) a); [hsteps; exact Logic.I|].
  destruct (wt_stat w a).
  - call_emits add_file_emits.
  - apply hoare_at with (P := fun _ : world => True); [|exact Logic.I].
    apply emits_iterM. intros f _. apply emits_bind_getw. intros w' _.
    destruct (ignored w' (x_pats c) f); [hsteps; exact Logic.I | call_emits add_file_emits].
  - destruct (tracked w a).
    + hsteps. gsplit; [|exact Logic.I]. apply (set_index_delete w a); assumption.
    + destruct (is_dir (idx_of w) a); [|hsteps].
      apply hoare_at with (P := fun _ : world => True); [|exact Logic.I].
      apply emits_iterM. intros q _. apply emits_bind_getw. intros w' Hi'.
      hsteps. gsplit; [|exact Logic.I]. apply (set_index_delete w' q); assumption.
  - destruct (tracked w a).
    + hsteps. gsplit; [|exact Logic.I]. apply (set_index_delete w a); assumption.
    + destruct (is_dir (idx_of w) a); [|hsteps].
      apply hoare_at with (P := fun _ : world => True); [|exact Logic.I].
      apply emits_iterM. intros q _. apply emits_bind_getw. intros w' Hi'.
      hsteps. gsplit; [|exact Logic.I]. apply (set_index_delete w' q); assumption.
Qed.

Lemma rm_one_emits : forall p, emits Inv G (rm_one p).
Proof.
  intro p. hinline. hsteps; try benign_tac; try exact Logic.I;
    (gsplit; [|exact Logic.I]);
    match goal with Hd : idx_delete (idx_of ?w) _ = Some _ |- _ => apply (set_index_delete w p); assumption end.
Qed.

Lemma cmd_rm_emits : forall args, emits Inv G (cmd_rm args).
Proof.
  intros args. unfold cmd_rm.
  apply emits_bind. { apply emits_bind_getw. intros w Hi. hsteps. exact Logic.I. } intros _.
  apply emits_bind; [|intros; apply emits_ret].
  apply emits_iterM. intros a _. apply emits_bind_getw. intros w Hi.
  destruct (tracked w a); [call_emits rm_one_emits|].
  apply hoare_at with (P := fun _ : world => True); [|exact Logic.I].
  apply emits_iterM. intros f _. apply rm_one_emits.
Qed.

Lemma cmd_init_emits : emits Inv G cmd_init.
Proof. hinline. hsteps; try benign_tac; exact Logic.I. Qed.

Lemma cmd_config_emits : forall c global args, emits Inv G (cmd_config c global args).
Proof.
  intros c global args. hinline. hsteps; try exact Logic.I; gsplit.
  - apply inv_set_gcfg; [|assumption]. intros c0 Hc0. cbn in Hc0. injection Hc0 as <-. constructor.
  - apply inv_set_gcfg; [apply cfg_written_nl | assumption].
  - apply inv_set_gcfg; [apply cfg_written_nl | assumption].
  - apply inv_set_lcfg. assumption.
Qed.

Lemma head_update_emits : forall name, emits Inv G (head_update name).
Proof. intro name. hinline. hsteps; try benign_tac; exact Logic.I. Qed.

Lemma cmd_branch_emits : forall e c args lst rename delete, emits Inv G (cmd_branch e c args lst rename delete).
Proof. intros. hinline. hsteps; try benign_tac; try exact Logic.I. Qed.

Lemma cmd_switch_emits : forall e c args create, emits Inv G (cmd_switch e c args create).
Proof.
  intros. hinline. repeat (hsteps; try unfold head_update); try benign_tac; try exact Logic.I.
Qed.

Lemma cmd_update_ref_emits' : forall args, emits Inv G (cmd_update_ref args).
Proof.
  intros. hinline. repeat (hsteps; try unfold head_update); try benign_tac; try exact Logic.I.
Qed.

Lemma head_tree_nodes_emits : forall c, emits Inv G (head_tree_nodes c).
Proof. intros. hinline. hsteps; exact Logic.I. Qed.

Lemma cmd_status_emits : forall c, emits Inv G (cmd_status c).
Proof.
  intros. unfold cmd_status. apply emits_bind_getw. intros w Hi.
  apply at_bind_emits; [apply head_tree_nodes_emits|]. intros ns w' Hi'. hsteps. exact Logic.I.
Qed.

Lemma cmd_log_emits : forall c n, emits Inv G (cmd_log c n).
Proof. intros. hinline. hsteps; exact Logic.I. Qed.

Lemma cmd_reflog_emits : emits Inv G cmd_reflog.
Proof. hinline. hsteps; exact Logic.I. Qed.

Lemma cmd_cat_file_emits : forall t p args, emits Inv G (cmd_cat_file t p args).
Proof. intros. hinline. hsteps; exact Logic.I. Qed.

Lemma cmd_ls_files_emits : forall s, emits Inv G (cmd_ls_files s).
Proof. intros. hinline. hsteps; exact Logic.I. Qed.

Lemma cmd_hash_object_emits : forall args, emits Inv G (cmd_hash_object args).
Proof.
  intros. unfold cmd_hash_object. apply emits_bind_getw. intros w Hi.
  apply hoare_at with (P := fun _ : world => True); [|exact Logic.I]. clear Hi.
  induction args as [|a r IH]; [apply emits_ret|].
  destruct (wt_stat w a); try apply emits_fail.
  apply emits_bind_of_opt. intros d _. apply emits_bind; [exact IH|]. intros rest. apply emits_ret.
Qed.

Lemma cmd_rev_parse_emits : forall args, emits Inv G (cmd_rev_parse args).
Proof.
  intros. unfold cmd_rev_parse. apply emits_bind_getw. intros w Hi.
  apply hoare_at with (P := fun _ : world => True); [|exact Logic.I]. clear Hi.
  induction args as [|a r IH]; [apply emits_ret|].
  cbv zeta. apply emits_bind_of_opt. intros d _. apply emits_bind; [exact IH|]. intros rest. apply emits_ret.
Qed.

Lemma cmd_write_tree_emits' : emits Inv G cmd_write_tree.
Proof.
  hinline. hsteps.
  apply at_bind_iterM with (J := fun _ => True).
  - auto.
  - intros d w' _ _ _. cbv beta. hinline. hsteps; auto.
    gsplit. apply inv_put; [discriminate | assumption].
  - intros w' _ _. hsteps. auto.
Qed.

Lemma wt_put_spec : forall (P : Prop) p data w,
  (Live w -> P) -> (Live w -> valid_path p) ->
  hoare Inv G (eq w) (wt_put p data) (fun _ w' => Live w' -> P).
Proof.
  intros P p data w HP Hv. unfold wt_put. hsteps; try benign_tac.
  all: gsplit.
  all: try (apply inv_write_file; [assumption|]; intros HL _; apply Hv).
  all: try (intro HL; apply HP).
  all: repeat (first [assumption | apply Live_effect_before in HL]).
Qed.

Lemma wt_put_emits_at : forall p data w,
  (Live w -> valid_path p) -> hoare Inv G (eq w) (wt_put p data) (fun _ _ => True).
Proof.
  intros p data w Hv.
  apply hoare_conseq with (P := eq w) (Q := fun (_ : unit) w' => Live w' -> True); auto.
  apply wt_put_spec; auto.
Qed.

Lemma restore_wd_emits : forall p, emits Inv G (restore_wd p).
Proof.
  intro p. hinline. hsteps. apply wt_put_emits_at.
  intro HL. destruct (H HL) as (_ & [_ Hv] & _).
  match goal with Hg : get_entry _ _ = Some _ |- _ => destruct (get_entry_In _ _ _ _ Hg) as [Hin Hp] end.
  rewrite <- Hp. apply (Forall_valid_In _ _ Hv Hin).
Qed.

(* what the commands know about the nodes of a snapshot they walked *)
Definition NsGood (ns : list node) : Prop :=
  exists its, ns = map node_of its /\ Forall wf_item its /\
              Canonical (flat_items [] its) /\ Forall valid_entry (flat_items [] its).

Lemma walked_NsGood : forall st id c d ns,
  SnapshotsGood' st -> get_commit st id = Some c ->
  get_kind st KTree (c_tree c) = Some d -> walk_tree (S (length st)) st d = Some ns ->
  NsGood ns.
Proof.
  intros st id c d ns Hs Hc Hk Hw. destruct (Hs id c Hc) as (d' & its & Hk' & Hw' & Hrest).
  rewrite Hk in Hk'. injection Hk' as <-. rewrite Hw in Hw'. injection Hw' as ->.
  exists its. auto.
Qed.

Lemma NsGood_flatten : forall ns, NsGood ns -> Canonical (flatten [] ns) /\ Forall valid_entry (flatten [] ns).
Proof.
  intros ns (its & -> & Hwf & Hc & Hv). rewrite (flatten_items its Hwf). auto.
Qed.

Lemma NsGood_leaf : forall ns p n, NsGood ns -> leaf_node ns p = Some n -> length (n_id n) = 20 /\ valid_path p.
Proof.
  intros ns p n (its & -> & Hwf & Hc & Hv) Hl. unfold leaf_node in Hl.
  destruct (get_node (map node_of its) p) as [n0|] eqn:Eg; [|discriminate Hl].
  destruct (is_leaf n0) eqn:El; [|discriminate Hl]. injection Hl as <-.
  pose proof (get_node_leaf_id its p n0 Hwf Eg El) as Hin.
  exact (Forall_valid_In _ _ Hv Hin).
Qed.

Lemma restore_index_spec : forall ns p w,
  (Live w -> NsGood ns) ->
  hoare Inv G (eq w) (restore_index ns p) (fun _ w' => Live w' -> NsGood ns).
Proof.
  intros ns p w Hns. hinline. hsteps; try exact Hns.
  all: gsplit; [|intro HL; apply Hns; exact (Live_effect_before _ _ HL)].
  - apply inv_set_index; [assumption|]. intros HL (_ & [Hc Hv] & _).
    destruct (NsGood_leaf ns p n (Hns HL) Heqo0) as [Hid Hp].
    apply (idx_update_good _ _ _ _ Hc Hv Hid Hp Heqo1).
  - apply (set_index_delete w p); assumption.
  - apply inv_set_index; [assumption|]. intros HL (_ & [Hc Hv] & _).
    destruct (NsGood_leaf ns p n (Hns HL) Heqo0) as [Hid Hp].
    apply (idx_update_good _ _ _ _ Hc Hv Hid Hp Heqo1).
Qed.

Lemma head_tree_nodes_spec : forall c w,
  CtxOk w c -> x_headc c <> None ->
  hoare Inv G (eq w) (head_tree_nodes c) (fun ns w' => w' = w /\ (Live w -> NsGood ns)).
Proof.
  intros c w (_ & _ & Hh) Hne. unfold head_tree_nodes. hsteps.
  - split; [reflexivity|]. intro HL.
    match goal with Hi : Inv w |- _ => destruct (Hi HL) as (_ & _ & Hs & _) end.
    destruct Hh as [_ Hc].
    match goal with Hk : get_kind _ _ _ = Some _, Hw : walk_tree _ _ _ = Some _ |- _ =>
      apply (walked_NsGood _ _ _ _ _ Hs Hc Hk Hw) end.
  - contradiction.
Qed.

Lemma cmd_restore_spec : forall c staged args w,
  CtxOk w c -> hoare Inv G (eq w) (cmd_restore c staged args) (fun _ _ => True).
Proof.
  intros c staged args w Hctx. unfold cmd_restore. hsteps.
  - apply at_bind_call with (P := eq w) (R := fun ns w' => w' = w /\ (Live w -> NsGood ns)).
    + apply head_tree_nodes_spec; [exact Hctx | congruence].
    + reflexivity.
    + intros ns w' _ [-> Hns]. hsteps.
      apply at_bind_iterM with (J := fun w' => Live w' -> NsGood ns).
      * intros _. exact Hns.
      * intros t w' _ _ Hj. apply at_iterM with (J := fun w' => Live w' -> NsGood ns).
        -- intros _. exact Hj.
        -- intros q w'' _ _ Hj'. apply restore_index_spec. exact Hj'.
        -- auto.
      * intros w' _ _. hsteps. exact Logic.I.
  - apply at_bind_iterM with (J := fun _ => True).
    + auto.
    + intros t w' _ _ _. apply at_iterM with (J := fun _ => True); auto.
      intros q w'' _ _ _. call_emits restore_wd_emits.
    + intros w' _ _. hsteps. exact Logic.I.
Qed.

Lemma cmd_reset_emits : forall e c soft mixed hard args, emits Inv G (cmd_reset e c soft mixed hard args).
Proof.
  intros. hinline. hsteps; try benign_tac; try exact Logic.I.
  - gsplit. apply inv_set_index; [assumption|]. intros _ (_ & _ & Hs & _).
    autorewrite with wfields in Hs.
    match goal with
      Hc : get_commit _ _ = Some _, Hk : get_kind _ _ _ = Some _, Hw : walk_tree _ _ _ = Some _ |- _ =>
      apply NsGood_flatten; apply (walked_NsGood _ _ _ _ _ Hs Hc Hk Hw) end.
  - match goal with |- hoare _ _ _ (bind (iterM _ ?es) _) _ =>
      apply at_bind_iterM with (J := fun w' => Live w' -> Forall valid_entry es) end.
    + intros Hi HL. destruct (Hi HL) as (_ & [_ Hv] & _). rewrite idx_of_set in Hv. exact Hv.
    + intros en w' Hin _ Hj. hsteps. apply wt_put_spec; [exact Hj|].
      intro HL. apply (Forall_valid_In _ _ (Hj HL) Hin).
    + intros w' _ _. hsteps. exact Logic.I.
Qed.

(* ---------- commit ---------- *)
Definition put_tree_eff (d : bytes) : effect := EPutObj (obj_id KTree d) (payload KTree d).

Lemma put_trees_spec : forall l w,
  hoare Inv G (eq w) (iterM (fun d => put_obj KTree d ;;; ret tt) l)
        (fun _ w' => w' = apply_effects (map put_tree_eff l) w).
Proof.
  induction l as [|d l IH]; intro w; cbn [iterM map].
  - hsteps. reflexivity.
  - unfold put_obj at 1. hsteps.
    + gsplit. apply inv_put; [discriminate | assumption].
    + eapply hoare_conseq; [apply IH | intros ? _ <-; reflexivity |].
      intros [] w' _ ->. reflexivity.
Qed.

Lemma puts_frame : forall (T : Type) (f : world -> T),
  (forall i p w, f (apply_effect (EPutObj i p) w) = f w) ->
  forall l w, f (apply_effects (map put_tree_eff l) w) = f w.
Proof.
  intros T f Hf. induction l as [|d l IH]; intro w; [reflexivity|].
  cbn [map]. rewrite apply_effects_cons, IH. apply Hf.
Qed.

Lemma puts_lookup : forall l w d,
  w_coll (apply_effects (map put_tree_eff l) w) = false -> In d l ->
  st_lookup (w_objs (apply_effects (map put_tree_eff l) w)) (obj_id KTree d) = Some (payload KTree d).
Proof.
  induction l as [|a l IH]; intros w d Hc Hin; [destruct Hin|].
  cbn [map] in *. rewrite apply_effects_cons in *. destruct Hin as [->|Hin].
  - apply trace_store_grows; [exact Hc|]. unfold put_tree_eff. rewrite w_objs_EPutObj.
    apply st_lookup_set_same.
  - apply IH; assumption.
Qed.

Lemma payload_len : forall k d, (lenN d <= lenN (payload k d))%N.
Proof. intros k d. unfold payload, lenN. rewrite app_length. lia. Qed.

(* reading back the tree written from a good staging area *)
Lemma commit_tree_reads : forall es root subs st2,
  Forall valid_entry es -> write_tree_top es = Some (root, subs) ->
  (forall d, In d (subs ++ [root]) -> st_lookup st2 (obj_id KTree d) = Some (payload KTree d)) ->
  SmallStore st2 ->
  exists its, get_kind st2 KTree (obj_id KTree root) = Some root /\
     walk_tree (S (length st2)) st2 root = Some (map node_of its) /\
     Forall wf_item its /\ flat_items [] its = es.
Proof.
  intros es root subs st2 Hv Hw Hst Hsm.
  destruct (write_tree_top_inv es root subs Hw) as (its & Hg & -> & ->).
  unfold group_top in Hg.
  pose proof (group_wf bytes_eqb_eq _ es its Hv Hg) as Hwf.
  pose proof (group_flat bytes_eqb_eq _ es its Hv Hg) as Hfl.
  assert (HG : Good st2 (subsl its ++ [ser its])).
  { intros d Hd. split; [apply Hst; exact Hd|].
    pose proof (Hsm _ _ (Hst d Hd)) as Hp. pose proof (payload_len KTree d). lia. }
  assert (HG' : Good st2 (subsl its)).
  { apply (Good_incl st2 _ _ (incl_appl _ (incl_refl _)) HG). }
  pose proof (depth_le_store payload_roundtrip bytes_eqb_eq st2 its Hwf HG') as Hdep.
  exists its. split.
  - apply (get_kind_good payload_roundtrip bytes_eqb_eq st2 _ (ser its) HG).
    apply in_or_app. right. left. reflexivity.
  - split; [|auto]. apply (walk_items payload_roundtrip bytes_eqb_eq); [lia | exact Hwf | exact HG'].
Qed.

Definition commit_parent (w : world) : option bytes :=
  match am_get (w_refs w) (w_head w) with Some id => Some (hex id) | None => None end.
Definition commit_sign (e : env) (c : ctx) : bytes :=
  sign_string (user_name (x_l c) (x_g c)) (user_email (x_l c) (x_g c)) (e_time e) (e_off e).
Definition commit_data (e : env) (c : ctx) (msg : bytes) (w : world) (root : bytes) : bytes :=
  commit_text (obj_id KTree root) (commit_parent w) (commit_sign e c) (commit_sign e c) msg.

Lemma do_commit_core : forall e c msg w root subs c0,
  let data := commit_data e c msg w root in
  let w1 := apply_effects (map put_tree_eff (subs ++ [root])) w in
  let w2 := apply_effect (EPutObj (obj_id KCommit data) (payload KCommit data)) w1 in
  IndexGood w -> cfg_nl (x_l c) -> cfg_nl (x_g c) ->
  write_tree_top (idx_of w) = Some (root, subs) -> parse_commit data = Some c0 ->
  Live w2 ->
  snap_ok (w_objs w2) c0 /\ snapshot (w_objs w2) (obj_id KCommit data) = Some (idx_of w).
Proof.
  intros e c msg w root subs c0 data w1 w2 [Hcan Hval] Hl Hg Hw Hp HL.
  assert (Htree : c_tree c0 = obj_id KTree root).
  { assert (Hs : ~ In c_nl (commit_sign e c)).
    { apply sign_string_nl; [apply user_name_nl | apply user_email_nl]; assumption. }
    unfold data, commit_data, commit_parent in Hp.
    destruct (am_get (w_refs w) (w_head w)) as [hid|].
    - apply (parse_commit_tree _ (Some hid) _ _ _ _ (sha1_length _) Hs Hs Hp).
    - apply (parse_commit_tree _ None _ _ _ _ (sha1_length _) Hs Hs Hp). }
  pose proof (Live_effect_before _ _ HL) as [Hc1 _]. fold w1 in Hc1.
  destruct HL as [Hc2 Hsm].
  assert (Hst : forall d, In d (subs ++ [root]) ->
                st_lookup (w_objs w2) (obj_id KTree d) = Some (payload KTree d)).
  { intros d Hd. unfold w2. rewrite w_objs_EPutObj.
    apply st_set_keeps; [exact (put_coll_false _ _ _ Hc2)|].
    apply puts_lookup; assumption. }
  destruct (commit_tree_reads _ _ _ _ Hval Hw Hst Hsm) as (its & Hk & Hwk & Hwf & Hfl).
  assert (Hgc : get_commit (w_objs w2) (obj_id KCommit data) = Some c0).
  { unfold get_commit, get_kind. unfold w2 at 1. rewrite w_objs_EPutObj, get_put.
    - cbn [kind_eqb]. exact Hp.
    - assert (Hlk : st_lookup (w_objs w2) (obj_id KCommit data) = Some (payload KCommit data)).
      { unfold w2. rewrite w_objs_EPutObj. apply st_lookup_set_same. }
      pose proof (Hsm _ _ Hlk). pose proof (payload_len KCommit data). lia. }
  split.
  - exists root, its. rewrite Htree, Hfl. auto.
  - unfold snapshot. rewrite Hgc, Htree, Hk, Hwk, (flatten_items its Hwf). f_equal. exact Hfl.
Qed.

Lemma premises_from : forall c w w',
  CtxOk w c -> w_index w' = w_index w -> w_lcfg w' = w_lcfg w -> w_gcfg w' = w_gcfg w ->
  GoodW w' -> IndexGood w /\ cfg_nl (x_l c) /\ cfg_nl (x_g c).
Proof.
  intros c w w' (Hl & Hg & _) Ei El Eg (_ & Hix & _ & [Hcl Hcg]).
  unfold IndexGood, idx_of in *. rewrite Ei in Hix. rewrite El in Hcl. rewrite Eg in Hcg.
  split; [exact Hix|]. split; [apply Hcl; exact Hl | apply Hcg; exact Hg].
Qed.

(* after a successful commit: the new HEAD commit's snapshot is the staging
   area the commit was made from, and the staging area is untouched *)
Definition commit_post (w w' : world) : Prop :=
  Live w' -> exists cid, am_get (w_refs w') (w_head w') = Some cid /\
                         snapshot (w_objs w') cid = Some (idx_of w) /\ idx_of w' = idx_of w.

Lemma commit_post_final : forall e c msg w root subs c0 wp,
  let data := commit_data e c msg w root in
  let w1 := apply_effects (map put_tree_eff (subs ++ [root])) w in
  let w2 := apply_effect (EPutObj (obj_id KCommit data) (payload KCommit data)) w1 in
  let wf := apply_effect (ESetHead (w_head w)) wp in
  CtxOk w c -> write_tree_top (idx_of w) = Some (root, subs) -> parse_commit data = Some c0 ->
  Inv wp -> (Live wp -> Live w2) ->
  w_refs wp = am_set (w_refs w2) (w_head w) (obj_id KCommit data) ->
  w_objs wp = w_objs w2 -> w_index wp = w_index w2 -> w_lcfg wp = w_lcfg w2 -> w_gcfg wp = w_gcfg w2 ->
  commit_post w wf.
Proof.
  intros e c msg w root subs c0 wp data w1 w2 wf Hctx Hw Hp Hi HL2 Er Eo Ei El Eg HL.
  apply Live_effect_before in HL. pose proof (Hi HL) as Hg.
  assert (Ei2 : w_index w2 = w_index w).
  { unfold w2. rewrite w_index_EPutObj. apply (puts_frame _ w_index w_index_EPutObj). }
  assert (El2 : w_lcfg w2 = w_lcfg w).
  { unfold w2. rewrite w_lcfg_EPutObj. apply (puts_frame _ w_lcfg w_lcfg_EPutObj). }
  assert (Eg2 : w_gcfg w2 = w_gcfg w).
  { unfold w2. rewrite w_gcfg_EPutObj. apply (puts_frame _ w_gcfg w_gcfg_EPutObj). }
  destruct (premises_from c w wp Hctx) as (Hix & Hcl & Hcg); try congruence.
  destruct (do_commit_core e c msg w root subs c0 Hix Hcl Hcg Hw Hp (HL2 HL)) as [_ Hsn].
  exists (obj_id KCommit data). unfold wf.
  rewrite w_refs_ESetHead, w_head_ESetHead, w_objs_ESetHead. split; [|split].
  - rewrite Er. apply am_get_set_same.
  - rewrite Eo. exact Hsn.
  - unfold idx_of. rewrite w_index_ESetHead, Ei, Ei2. reflexivity.
Qed.

Lemma do_commit_spec : forall e c msg w,
  CtxOk w c -> hoare Inv G (eq w) (do_commit e c msg) (fun _ w' => commit_post w w').
Proof.
  intros e c msg w Hctx. unfold do_commit. hsteps.
  apply at_bind_call with (P := eq w)
    (R := fun _ w' => w' = apply_effects (map put_tree_eff (snd a ++ [fst a])) w);
    [apply put_trees_spec | reflexivity |].
  intros [] w1 _ ->. destruct a as [root subs]. cbn [fst snd] in *.
  repeat (hsteps; try unfold put_obj); try benign_tac.
  all: fold (commit_parent w) in *; fold (commit_sign e c) in *; fold (commit_data e c msg w root) in *.
  - gsplit. apply inv_put_commit; [assumption|]. intros HL Hg c0 Hp0.
    destruct (premises_from c w _ Hctx
                (puts_frame _ w_index w_index_EPutObj _ _)
                (puts_frame _ w_lcfg w_lcfg_EPutObj _ _)
                (puts_frame _ w_gcfg w_gcfg_EPutObj _ _) Hg) as (Hix & Hcl & Hcg).
    match goal with Hw : write_tree_top _ = Some _ |- _ =>
      exact (proj1 (do_commit_core e c msg w root subs c0 Hix Hcl Hcg Hw Hp0 HL)) end.
  - match goal with Hw : write_tree_top _ = Some _, Hp : parse_commit _ = Some _ |- _ =>
      apply (commit_post_final e c msg w root subs _ _ Hctx Hw Hp) end;
      try assumption; try (autorewrite with wfields; reflexivity).
    intro HL. do 3 apply Live_effect_before in HL. exact HL.
  - match goal with Hw : write_tree_top _ = Some _, Hp : parse_commit _ = Some _ |- _ =>
      apply (commit_post_final e c msg w root subs _ _ Hctx Hw Hp) end;
      try assumption; try (autorewrite with wfields; reflexivity).
    intro HL. do 3 apply Live_effect_before in HL. exact HL.
Qed.

Lemma cmd_commit_spec : forall e c msg w,
  CtxOk w c -> hoare Inv G (eq w) (cmd_commit e c msg) (fun _ w' => commit_post w w').
Proof.
  intros e c msg w Hctx. unfold cmd_commit. hsteps.
  - apply at_bind_call with (P := eq w) (R := fun _ w' => commit_post w w');
      [apply do_commit_spec; exact Hctx | reflexivity |].
    intros [] w' _ Hp. hsteps. exact Hp.
  - apply at_bind_call with (P := eq w) (R := fun ns w' => w' = w /\ (Live w -> NsGood ns)).
    + apply head_tree_nodes_spec; [exact Hctx | congruence].
    + reflexivity.
    + intros ns w' _ [-> _]. hsteps.
      apply at_bind_call with (P := eq w) (R := fun _ w' => commit_post w w');
        [apply do_commit_spec; exact Hctx | reflexivity |].
      intros [] w' _ Hp. hsteps. exact Hp.
Qed.

Lemma run_cmd_emits : forall e c, emits Inv G (run_cmd e c).
Proof.
  intros e c. unfold run_cmd. apply emits_bind_getw. intros w Hi.
  destruct c; [call_emits cmd_init_emits | ..];
    (hstep;
     apply at_bind_call with (P := eq w) (R := fun x w' => w' = w /\ CtxOk w x);
       [apply load_ctx_spec | reflexivity |]; intros x w' _ [-> Hctx]).
  - call_emits cmd_config_emits.
  - call_emits cmd_add_emits.
  - call_emits cmd_rm_emits.
  - eapply hoare_conseq; [apply (cmd_commit_spec e x msg w Hctx) | auto | auto].
  - call_emits cmd_status_emits.
  - call_emits cmd_branch_emits.
  - call_emits cmd_switch_emits.
  - call_emits cmd_reset_emits.
  - apply cmd_restore_spec. exact Hctx.
  - call_emits cmd_update_ref_emits'.
  - call_emits cmd_log_emits.
  - call_emits cmd_reflog_emits.
  - call_emits cmd_cat_file_emits.
  - call_emits cmd_hash_object_emits.
  - call_emits cmd_ls_files_emits.
  - call_emits cmd_rev_parse_emits.
  - call_emits cmd_write_tree_emits'.
Qed.

(* ================================================================== *)
(** * H. Histories *)

Lemma GoodW_edit : forall u w, edit_ok u -> GoodW w -> GoodW (apply_edit u w).
Proof.
  intros u w Hok (Hwt & Hix & Hsn & [Hcl Hcg]).
  split; [apply WtValid_edit; assumption|].
  split; [unfold IndexGood, idx_of in *; rewrite w_index_apply_edit; exact Hix|].
  split; [rewrite w_objs_apply_edit; exact Hsn|].
  unfold CfgNl. rewrite w_lcfg_apply_edit, w_gcfg_apply_edit. split; assumption.
Qed.

Lemma Inv_edit : forall u w, edit_ok u -> Inv w -> Inv (apply_edit u w).
Proof.
  intros u w Hok Hi [Hc Hs]. rewrite w_coll_apply_edit in Hc. rewrite w_objs_apply_edit in Hs.
  apply GoodW_edit; [exact Hok|]. apply Hi. split; assumption.
Qed.

Theorem step_Inv : forall a w, action_ok a -> Inv w -> Inv (step_w a w).
Proof.
  intros [e c|u] w Hok Hi; unfold step_w; cbn [step].
  - destruct (run_m (run_cmd e c) w) as [[r w'] tr] eqn:Erun.
    destruct (emits_sound Inv G _ _ _ _ _ _ (run_cmd_emits e c) Hi Erun) as (Hi' & _).
    destruct r; exact Hi'.
  - cbn [fst]. apply Inv_edit; assumption.
Qed.

Theorem run_Inv : forall h w, Forall action_ok h -> Inv w -> Inv (run h w).
Proof.
  induction h as [|a h IH]; intros w Hall Hi; [exact Hi|].
  inversion Hall as [|? ? Ha Hh]; subst. rewrite run_cons. apply IH; [exact Hh|].
  apply step_Inv; assumption.
Qed.

Lemma GoodW_empty : GoodW w_empty.
Proof.
  split; [intros p d H; discriminate H|].
  split; [split; [apply Canonical_nil | constructor]|].
  split; [intros id c H; discriminate H|].
  split; intros c H; cbn in H; injection H as <-; constructor.
Qed.

(** ** 1. C06-T2: the staging area after every history *)

(* one step; [SnapshotsGood'] is the local strengthening of [SnapshotsGood],
   [CfgNl] (no newline in a configuration value) and [SmallStore] (no object
   file of 2^63 bytes or more) are carried *)
Theorem good_step : forall a w,
  action_ok a -> GoodW w ->
  w_coll (step_w a w) = false -> SmallStore (w_objs (step_w a w)) -> GoodW (step_w a w).
Proof.
  intros a w Hok Hg Hc Hs. apply (step_Inv a w Hok (GoodW_Inv w Hg)). split; assumption.
Qed.

Theorem index_good_step : forall a w,
  action_ok a -> WtValid w -> IndexGood w -> SnapshotsGood' (w_objs w) -> CfgNl w ->
  w_coll (step_w a w) = false -> SmallStore (w_objs (step_w a w)) ->
  IndexGood (step_w a w).
Proof.
  intros a w Hok H1 H2 H3 H4 Hc Hs.
  apply (good_step a w Hok); [repeat split; try assumption; apply H2 || apply H4 | exact Hc | exact Hs].
Qed.

Theorem good_run_strong : forall h,
  Forall action_ok h ->
  w_coll (run h w_empty) = false -> SmallStore (w_objs (run h w_empty)) ->
  GoodW (run h w_empty).
Proof.
  intros h Hall Hc Hs. apply (run_Inv h w_empty Hall (GoodW_Inv _ GoodW_empty)). split; assumption.
Qed.

Theorem good_run : forall h,
  Forall action_ok h ->
  w_coll (run h w_empty) = false -> SmallStore (w_objs (run h w_empty)) ->
  WtValid (run h w_empty) /\ IndexGood (run h w_empty) /\ SnapshotsGood (w_objs (run h w_empty)).
Proof.
  intros h Hall Hc Hs. destruct (good_run_strong h Hall Hc Hs) as (H1 & H2 & H3 & _).
  split; [exact H1|]. split; [exact H2 | apply SnapshotsGood'_weaken; exact H3].
Qed.

Corollary reachable_good : forall w,
  Reachable w -> w_coll w = false -> SmallStore (w_objs w) -> GoodW w.
Proof. intros w (h & Hall & ->) Hc Hs. apply good_run_strong; assumption. Qed.

(* the property as stated: strictly ascending paths, hence duplicate-free *)
Corollary staging_area_sorted : forall w,
  Reachable w -> w_coll w = false -> SmallStore (w_objs w) ->
  StronglySorted (fun a b => blt (e_path a) (e_path b) = true) (idx_of w) /\
  NoDup (paths (idx_of w)) /\ Forall valid_entry (idx_of w).
Proof.
  intros w Hr Hc Hs. destruct (reachable_good w Hr Hc Hs) as (_ & [Hcan Hv] & _).
  split; [exact Hcan|]. split; [apply Canonical_NoDup_paths; exact Hcan | exact Hv].
Qed.

(** ** 2. C05-T2 *)

Lemma run_cmd_commit_spec : forall e msg w,
  hoare Inv G (eq w) (run_cmd e (CCommit msg)) (fun _ w' => commit_post w w').
Proof.
  intros e msg w. unfold run_cmd. hsteps.
  apply at_bind_call with (P := eq w) (R := fun x w' => w' = w /\ CtxOk w x);
    [apply load_ctx_spec | reflexivity |].
  intros x w' _ [-> Hctx]. apply cmd_commit_spec. exact Hctx.
Qed.

(* (a) after a successful commit the snapshot of the new HEAD commit is the
   staging area it was made from *)
Theorem commit_snapshot_step : forall e msg w w' out tr,
  GoodW w -> step (ACmd e (CCommit msg)) w = (w', OOk out, tr) ->
  w_coll w' = false -> SmallStore (w_objs w') ->
  exists cid, am_get (w_refs w') (w_head w') = Some cid /\
              snapshot (w_objs w') cid = Some (idx_of w) /\ idx_of w' = idx_of w.
Proof.
  intros e msg w w' out tr Hg Hstep Hc Hs. cbn [step] in Hstep. unfold run_m in Hstep.
  destruct (run_cmd e (CCommit msg) (mkMS w [] None)) as [r s'] eqn:E.
  destruct (hoare_sound Inv G _ _ _ _ w [] None r s' (run_cmd_commit_spec e msg w)
              (GoodW_Inv w Hg) eq_refl E) as (tr0 & _ & _ & _ & _ & _ & _ & Hq).
  destruct r as [o| |]; try discriminate Hstep. injection Hstep as <- _ _.
  apply (Hq o eq_refl). split; assumption.
Qed.

(* (a)+(b) ... and it still is in every later world of the history *)
Theorem commit_snapshot : forall e msg w w' out tr h,
  GoodW w -> step (ACmd e (CCommit msg)) w = (w', OOk out, tr) ->
  w_coll (run h w') = false -> SmallStore (w_objs (run h w')) ->
  exists cid, am_get (w_refs w') (w_head w') = Some cid /\
              snapshot (w_objs (run h w')) cid = Some (idx_of w).
Proof.
  intros e msg w w' out tr h Hg Hstep Hc Hs.
  pose proof (run_store_ext h w' Hc) as Hext.
  destruct (commit_snapshot_step e msg w w' out tr Hg Hstep (run_coll_false_before h w' Hc)
              (SmallStore_ext _ _ Hext Hs)) as (cid & Hr & Hsn & _).
  exists cid. split; [exact Hr|]. apply (snapshot_ext (w_objs w')); assumption.
Qed.

(* (c) what reset does to the staging area; no invariant is needed here *)
Definition TI (w : world) : Prop := True.
Definition TG (w : world) (e : effect) : Prop := True.

Definition reset_target (w : world) (a : bytes) : option bytes :=
  match reset_arg a with
  | Some n =>
      if N.leb n 9223372036854775807 then
        match w_hlog w with
        | Some hl =>
            match parse_reflog hl with
            | Some rs =>
                match get_record rs (N.to_nat (N.min n (N.of_nat (length rs)))) with
                | Some r => r_id r
                | None => None
                end
            | None => None
            end
        | None => None
        end
      else None
  | None => None
  end.

Lemma wt_put_index : forall p data w,
  hoare TI TG (eq w) (wt_put p data) (fun _ w' => w_index w' = w_index w).
Proof.
  intros p data w. unfold wt_put. hsteps; try (split; exact Logic.I).
  all: split; [exact Logic.I|]; split; [exact Logic.I|]; autorewrite with wfields; reflexivity.
Qed.

Definition reset_post (w : world) (soft : bool) (args : list bytes) (w' : world) : Prop :=
  soft = false ->
  exists a tid es, args = [a] /\ reset_target w a = Some tid /\
                   snapshot (w_objs w) tid = Some es /\ idx_of w' = es.

Lemma reset_post_intro : forall w soft b n hl rs r tid tc d ns w',
  reset_arg b = Some n -> N.leb n 9223372036854775807 = true ->
  w_hlog w = Some hl -> parse_reflog hl = Some rs ->
  get_record rs (N.to_nat (N.min n (N.of_nat (length rs)))) = Some r -> r_id r = Some tid ->
  get_commit (w_objs w) tid = Some tc -> get_kind (w_objs w) KTree (c_tree tc) = Some d ->
  walk_tree (S (length (w_objs w))) (w_objs w) d = Some ns ->
  idx_of w' = flatten [] ns -> reset_post w soft [b] w'.
Proof.
  intros w soft b n hl rs r tid tc d ns w' H1 H2 H3 H4 H5 H6 H7 H8 H9 H10 _.
  exists b, tid, (flatten [] ns). split; [reflexivity|]. split; [|split; [|exact H10]].
  - unfold reset_target. rewrite H1, H2, H3, H4, H5. exact H6.
  - unfold snapshot. rewrite H7, H8, H9. reflexivity.
Qed.

Lemma cmd_reset_spec : forall e c soft mixed hard args w,
  hoare TI TG (eq w) (cmd_reset e c soft mixed hard args) (fun _ w' => reset_post w soft args w').
Proof.
  intros. hinline. hsteps; try (split; exact Logic.I).
  - match goal with |- hoare _ _ _ (bind (iterM _ ?es) _) _ =>
      apply at_bind_iterM with (J := fun w' => idx_of w' = es) end.
    + intros _. apply idx_of_set.
    + intros en w' _ _ Hj. hsteps.
      eapply hoare_conseq; [apply wt_put_index | intros ? _ <-; reflexivity |].
      intros [] w'' _ Hq. cbv beta in Hq. unfold idx_of in *. rewrite Hq. exact Hj.
    + intros w' _ Hj. hsteps. eapply reset_post_intro; eassumption.
  - eapply reset_post_intro; try eassumption. apply idx_of_set.
  - intros ->. cbn [orb negb andb] in *. exfalso.
    match goal with Hb : _ || hard = false, Hg : _ || _ = true |- _ =>
      destruct hard, mixed; cbn in Hb, Hg; discriminate end.
Qed.

(* at the level of one step *)
Theorem reset_reads_back : forall e soft mixed hard args w w' out tr,
  step (ACmd e (CReset soft mixed hard args)) w = (w', OOk out, tr) -> soft = false ->
  exists a tid es, args = [a] /\ reset_target w a = Some tid /\
                   snapshot (w_objs w) tid = Some es /\ idx_of w' = es.
Proof.
  intros e soft mixed hard args w w' out tr Hstep Hsoft. cbn [step] in Hstep. unfold run_m in Hstep.
  destruct (run_cmd e (CReset soft mixed hard args) (mkMS w [] None)) as [r s'] eqn:E.
  assert (Hspec : hoare TI TG (eq w) (run_cmd e (CReset soft mixed hard args))
                        (fun _ w' => reset_post w soft args w')).
  { unfold run_cmd. hsteps.
    apply at_bind_call with (P := eq w) (R := fun _ w' => w' = w); [|reflexivity|].
    - unfold load_ctx. hsteps; reflexivity.
    - intros x w0 _ ->. apply cmd_reset_spec. }
  destruct (hoare_sound TI TG _ _ _ _ w [] None r s' Hspec Logic.I eq_refl E)
    as (tr0 & _ & _ & _ & _ & _ & _ & Hq).
  destruct r as [o| |]; try discriminate Hstep. injection Hstep as <- _ _.
  apply (Hq o eq_refl). exact Hsoft.
Qed.

(** C05-T2: a commit made by Goit, any later history, reset --mixed/--hard to
    that commit: the staging area is the one the commit was made from *)
Theorem reset_restores_commit :
  forall e0 msg w0 w1 out0 tr0 h e soft mixed hard a w' out tr cid,
  GoodW w0 ->
  step (ACmd e0 (CCommit msg)) w0 = (w1, OOk out0, tr0) ->
  am_get (w_refs w1) (w_head w1) = Some cid ->
  w_coll (run h w1) = false -> SmallStore (w_objs (run h w1)) ->
  step (ACmd e (CReset soft mixed hard [a])) (run h w1) = (w', OOk out, tr) -> soft = false ->
  reset_target (run h w1) a = Some cid ->
  idx_of w' = idx_of w0.
Proof.
  intros e0 msg w0 w1 out0 tr0 h e soft mixed hard a w' out tr cid Hg Hc Hhead Hcoll Hsm Hr Hsoft Ht.
  destruct (commit_snapshot e0 msg w0 w1 out0 tr0 h Hg Hc Hcoll Hsm) as (cid' & Hh' & Hsn).
  rewrite Hhead in Hh'. injection Hh' as <-.
  destruct (reset_reads_back e soft mixed hard [a] _ w' out tr Hr Hsoft) as (a' & tid & es & Ha & Ht' & Hs' & Hi).
  injection Ha as <-. rewrite Ht in Ht'. injection Ht' as <-.
  rewrite Hsn in Hs'. injection Hs' as <-. exact Hi.
Qed.

(** ** 3. C07-T2 at command level: "nothing to commit" *)

(* the guard of [cmd_commit] is exactly "the HEAD snapshot differs from the staging area" *)
Theorem commit_guard : forall w hid cm d ns,
  GoodW w -> get_commit (w_objs w) hid = Some cm ->
  get_kind (w_objs w) KTree (c_tree cm) = Some d ->
  walk_tree (S (length (w_objs w))) (w_objs w) d = Some ns ->
  (diff_with_tree (idx_of w) ns = [] <-> snapshot (w_objs w) hid = Some (idx_of w)).
Proof.
  intros w hid cm d ns (_ & [Hcan Hv] & Hs & _) Hc Hk Hw.
  destruct (walked_NsGood _ _ _ _ _ Hs Hc Hk Hw) as (its & -> & Hwf & Hcan' & _).
  unfold snapshot. rewrite Hc, Hk, Hw, (flatten_items its Hwf).
  rewrite (diff_nil_eq (idx_of w) its Hcan Hwf Hcan'). split.
  - intros <-. reflexivity.
  - intro H. injection H as H. symmetry. exact H.
Qed.

Lemma bind_getw_s : forall B (f : world -> M B) s, bind getw f s = f (ms_w s) s.
Proof. reflexivity. Qed.
Lemma bind_ret_s : forall A B (a : A) (f : A -> M B) s, bind (ret a) f s = f a s.
Proof. reflexivity. Qed.
Lemma bind_guard_s : forall B b (f : unit -> M B) s,
  bind (guard b) f s = if b then f tt s else (Err, s).
Proof. intros B [] f s; reflexivity. Qed.
Lemma bind_of_opt_s : forall A B (o : option A) (f : A -> M B) s,
  bind (of_opt o) f s = match o with Some a => f a s | None => (Err, s) end.
Proof. intros A B [a|] f s; reflexivity. Qed.

Ltac ms :=
  repeat (rewrite ?bind_assoc;
          first [rewrite bind_getw_s | rewrite bind_ret_s | rewrite bind_guard_s | rewrite bind_of_opt_s]);
  cbn [ms_w x_l x_g x_headc x_pats].

Theorem commit_nothing_refused : forall e msg w hid,
  GoodW w -> am_get (w_refs w) (w_head w) = Some hid ->
  snapshot (w_objs w) hid = Some (idx_of w) ->
  step (ACmd e (CCommit msg)) w = (w, OErr, []).
Proof.
  intros e msg w hid Hg Hh Hsn.
  assert (Hrefs : is_nil (w_refs w) = false).
  { destruct (w_refs w); [discriminate Hh | reflexivity]. }
  pose proof Hsn as Hsn'. unfold snapshot in Hsn'.
  destruct (get_commit (w_objs w) hid) as [cm|] eqn:Ec; [|discriminate Hsn'].
  destruct (get_kind (w_objs w) KTree (c_tree cm)) as [d|] eqn:Ek; [|discriminate Hsn'].
  destruct (walk_tree (S (length (w_objs w))) (w_objs w) d) as [ns|] eqn:Ew; [|discriminate Hsn'].
  clear Hsn'.
  pose proof (proj2 (commit_guard w hid cm d ns Hg Ec Ek Ew) Hsn) as Hd.
  cbn [step]. unfold run_m, run_cmd. ms.
  destruct (w_inited w); [|reflexivity].
  unfold load_ctx. ms.
  destruct (cfg_of (w_gcfg w)) as [g|]; [|reflexivity]. ms.
  destruct (cfg_of (w_lcfg w)) as [l|]; [|reflexivity].
  rewrite Hh. ms. rewrite Ec. ms.
  destruct (ign_load (am_get (w_files w) (str ".goitignore"))) as [pats|]; [|reflexivity]. ms.
  unfold cmd_commit. ms.
  destruct (user_set l g); [|reflexivity]. ms.
  rewrite Hrefs. unfold head_tree_nodes. ms. rewrite Ek. ms. rewrite Ew. ms. rewrite Hd.
  reflexivity.
Qed.

(* conversely: when the snapshot of HEAD differs from the staging area the guard passes *)
Corollary commit_guard_passes : forall w hid cm d ns,
  GoodW w -> get_commit (w_objs w) hid = Some cm ->
  get_kind (w_objs w) KTree (c_tree cm) = Some d ->
  walk_tree (S (length (w_objs w))) (w_objs w) d = Some ns ->
  snapshot (w_objs w) hid <> Some (idx_of w) ->
  negb (is_nil (diff_with_tree (idx_of w) ns)) = true.
Proof.
  intros w hid cm d ns Hg Hc Hk Hw Hne.
  destruct (diff_with_tree (idx_of w) ns) as [|x l] eqn:E; [|reflexivity].
  exfalso. apply Hne. apply (proj1 (commit_guard w hid cm d ns Hg Hc Hk Hw) E).
Qed.

(** ** 4. Non-vacuity *)
Local Open Scope string_scope.

Definition ex_env : env := mkEnv 1700000000 32400.
Definition ex_prefix : list action :=
  [ ACmd ex_env CInit;
    ACmd ex_env (CConfig false [str "user.name"; str "Ada L"]);
    ACmd ex_env (CConfig false [str "user.email"; str "ada@example.com"]);
    AEdit (UWrite (str "d/x y") (str "one"));
    AEdit (UWrite (str "d-a") (str "two"));
    AEdit (UWrite (str "a") (str "three"));
    ACmd ex_env (CAdd [str "."]) ].
Definition ex_suffix : list action :=
  [ AEdit (UWrite (str "a") (str "changed"));
    ACmd ex_env (CAdd [str "a"]);
    ACmd ex_env (CCommit (str "second")) ].
Definition ex_reset : action := ACmd ex_env (CReset false true false [str "HEAD@{1}"]).
Definition ex_history : list action :=
  ex_prefix ++ [ACmd ex_env (CCommit (str "first"))] ++ ex_suffix ++ [ex_reset].

Definition ex_commit1 : action := ACmd ex_env (CCommit (str "first")).

Lemma small_store_b : forall st,
  forallb (fun kv => N.ltb (lenN (snd kv)) (2 ^ 63)) st = true -> SmallStore st.
Proof.
  induction st as [|[k v] st IH]; intros H id p Hl; [discriminate Hl|].
  cbn [forallb snd] in H. apply andb_true_iff in H. destruct H as [Hv Hr].
  cbn [st_lookup] in Hl. destruct (bytes_eqb k id).
  - injection Hl as <-. apply N.ltb_lt. exact Hv.
  - exact (IH Hr id p Hl).
Qed.

Example ex_history_ok : Forall action_ok ex_history.
Proof.
  unfold ex_history, ex_prefix, ex_suffix, ex_reset. cbn [app].
  repeat (apply Forall_cons || apply Forall_nil); cbn [action_ok edit_ok]; try exact Logic.I.
  all: unfold valid_path; simpl; tf_valid.
Qed.

(* every command of the history succeeds *)
Fixpoint outcomes (h : list action) (w : world) : list bool :=
  match h with
  | [] => []
  | a :: r => (match snd (fst (step a w)) with OOk _ => true | _ => false end) :: outcomes r (step_w a w)
  end.

Example ex_history_succeeds : forallb (fun b => b) (outcomes ex_history w_empty) = true.
Proof. vm_compute. reflexivity. Qed.

(* the staging area after the reset is the one the first commit was made from,
   and it differs from the one just before the reset *)
Example ex_history_result :
  idx_of (run ex_history w_empty) = idx_of (run ex_prefix w_empty) /\
  map e_path (idx_of (run ex_history w_empty)) = [str "a"; str "d-a"; str "d/x y"] /\
  idx_of (run (ex_prefix ++ [ex_commit1] ++ ex_suffix) w_empty) <> idx_of (run ex_history w_empty) /\
  w_coll (run ex_history w_empty) = false.
Proof.
  split; [vm_compute; reflexivity|]. split; [vm_compute; reflexivity|].
  split; [vm_compute; intro H; discriminate H | vm_compute; reflexivity].
Qed.

Example ex_history_small : SmallStore (w_objs (run ex_history w_empty)).
Proof. apply small_store_b. vm_compute. reflexivity. Qed.

(* so the hypotheses of [good_run] are satisfiable, and its conclusion holds here *)
Example ex_history_good : GoodW (run ex_history w_empty).
Proof.
  apply good_run_strong; [exact ex_history_ok | | exact ex_history_small].
  vm_compute. reflexivity.
Qed.

(* the reset of the example resolves HEAD@{1} to the first commit, whose
   snapshot is the staging area of [ex_prefix] *)
Example ex_reset_target :
  let w1 := step_w ex_commit1 (run ex_prefix w_empty) in
  let w := run (ex_prefix ++ [ex_commit1] ++ ex_suffix) w_empty in
  reset_target w (str "HEAD@{1}") = am_get (w_refs w1) (w_head w1) /\
  am_get (w_refs w1) (w_head w1) <> None /\
  am_get (w_refs w) (w_head w) <> am_get (w_refs w1) (w_head w1).
Proof.
  split; [vm_compute; reflexivity|]. split; vm_compute; intro H; discriminate H.
Qed.

(* the hypotheses of [reset_restores_commit] are jointly satisfiable: it is
   applied to the example (the conclusion itself is not computed); the worlds
   are kept behind a constant so that only [vm_compute] ever evaluates them *)
Lemma step_ok_intro : forall a w out,
  snd (fst (step a w)) = OOk out -> step a w = (step_w a w, OOk out, snd (step a w)).
Proof.
  intros a w out H. unfold step_w. destruct (step a w) as [[w' o] tr]. cbn [fst snd] in *.
  subst o. reflexivity.
Qed.

Definition ex_w0 : world := run ex_prefix w_empty.
Notation ex_c1 := (ACmd ex_env (CCommit (str "first"))).
Notation ex_rs := (ACmd ex_env (CReset false true false [str "HEAD@{1}"])).
Notation ex_w1 := (step_w ex_c1 ex_w0).
Notation ex_w2 := (run ex_suffix ex_w1).
Definition opt_bytes (o : option bytes) : bytes := match o with Some c => c | None => [] end.
Definition ex_cid : bytes := opt_bytes (am_get (w_refs ex_w1) (w_head ex_w1)).

Lemma ex_h1 : GoodW ex_w0.
Proof.
  apply good_run_strong.
  - pose proof ex_history_ok as H. unfold ex_history in H. apply Forall_app in H. apply H.
  - vm_compute. reflexivity.
  - apply small_store_b. vm_compute. reflexivity.
Qed.

Lemma ex_h2 : snd (fst (step ex_c1 ex_w0)) = OOk [].
Proof. vm_compute. reflexivity. Qed.
Lemma ex_s2 : am_get (w_refs ex_w1) (w_head ex_w1) = Some ex_cid.
Proof. vm_compute. reflexivity. Qed.
Lemma ex_s3 : w_coll ex_w2 = false.
Proof. vm_compute. reflexivity. Qed.
Lemma ex_s4 : SmallStore (w_objs ex_w2).
Proof. apply small_store_b. vm_compute. reflexivity. Qed.
Lemma ex_h5 : snd (fst (step ex_rs ex_w2)) = OOk [].
Proof. vm_compute. reflexivity. Qed.
Lemma ex_s6 : reset_target ex_w2 (str "HEAD@{1}") = Some ex_cid.
Proof. vm_compute. reflexivity. Qed.

Example ex_theorem_applies : idx_of (step_w ex_rs ex_w2) = idx_of ex_w0.
Proof.
  exact (reset_restores_commit ex_env (str "first") ex_w0 ex_w1 [] (snd (step ex_c1 ex_w0)) ex_suffix
           ex_env false true false (str "HEAD@{1}") (step_w ex_rs ex_w2) [] (snd (step ex_rs ex_w2)) ex_cid
           ex_h1 (step_ok_intro ex_c1 ex_w0 [] ex_h2) ex_s2 ex_s3 ex_s4
           (step_ok_intro ex_rs ex_w2 [] ex_h5) eq_refl ex_s6).
Qed.

(* ================================================================== *)
Print Assumptions good_run.
Print Assumptions good_run_strong.
Print Assumptions index_good_step.
Print Assumptions staging_area_sorted.
Print Assumptions parse_commit_tree.
Print Assumptions commit_snapshot_step.
Print Assumptions commit_snapshot.
Print Assumptions snapshot_stable_run.
Print Assumptions reset_reads_back.
Print Assumptions reset_restores_commit.
Print Assumptions commit_guard.
Print Assumptions commit_nothing_refused.
Print Assumptions commit_guard_passes.
Print Assumptions ex_history_result.
Print Assumptions ex_history_good.
Print Assumptions ex_theorem_applies.
