(* SnapshotFacts.v — C06-T2 / C05-T2 / C07-T2 at the level of whole histories.

   1. [good_run]            the staging area is canonical with valid entries, the
                            work tree holds valid paths, every stored commit's
                            snapshot reads back well, after EVERY history of valid
                            actions (no collision, no object of 2^63 bytes or more)
      [index_good_step]     one step
   2. [snapshot]            what Goit reads as the staged entries of a commit
      [commit_snapshot_*]   after a successful commit, the snapshot of the new
                            HEAD commit is the staging area it was made from
      [snapshot_stable_run] and stays so in every later world
      [reset_reads_back_*]  reset --mixed / --hard makes the staging area equal
                            to the snapshot of the commit it resolves
   3. [commit_nothing_refused_*]
   4. [ex_history_*]        non-vacuity by computation *)
From Coq Require Import Strings.String Strings.Byte.
From Coq Require Import List Bool NArith ZArith Arith Lia Sorted.
From Goit Require Import Bytes Sha1 Obj Tree Index Regex GoRegex Commit Reflog Config Ignore World Repo.
From Goit Require Import BytesFacts ObjFacts IndexFacts TreeFacts DiffFacts CommitFacts MonadFacts Inv.
Import ListNotations.

#[local] Arguments sha1 : simpl never.
#[local] Arguments obj_id : simpl never.
#[local] Arguments payload : simpl never.
#[local] Arguments header : simpl never.

(* ================================================================== *)
(** * A. Growing stores *)

Definition store_ext (st st' : store) : Prop :=
  (forall id p, st_lookup st id = Some p -> st_lookup st' id = Some p) /\
  length st <= length st'.

Lemma store_ext_refl : forall st, store_ext st st.
Proof. intro st. split; [auto | lia]. Qed.

Lemma store_ext_trans : forall a b c, store_ext a b -> store_ext b c -> store_ext a c.
Proof. intros a b c [H1 L1] [H2 L2]. split; [auto | lia]. Qed.

Lemma st_set_length : forall st id v, length st <= length (st_set st id v).
Proof.
  induction st as [|[k v0] st IH]; intros id v; cbn [st_set length].
  - lia.
  - destruct (bytes_eqb k id); cbn [length]; [lia|]. specialize (IH id v). lia.
Qed.

Lemma store_ext_set : forall st id v,
  st_collides st id v = false -> store_ext st (st_set st id v).
Proof.
  intros st id v Hc. split.
  - intros i p Hl. apply st_set_keeps; assumption.
  - apply st_set_length.
Qed.

Lemma get_obj_ext : forall st st' id kd,
  store_ext st st' -> get_obj st id = Some kd -> get_obj st' id = Some kd.
Proof.
  intros st st' id kd [He _] Hg. unfold get_obj in *.
  destruct (st_lookup st id) as [p|] eqn:El; [|discriminate Hg].
  rewrite (He id p El). exact Hg.
Qed.

Lemma get_kind_ext : forall st st' k id d,
  store_ext st st' -> get_kind st k id = Some d -> get_kind st' k id = Some d.
Proof.
  intros st st' k id d He Hg. unfold get_kind in *.
  destruct (get_obj st id) as [kd|] eqn:Eo; [|discriminate Hg].
  rewrite (get_obj_ext st st' id kd He Eo). exact Hg.
Qed.

Lemma get_commit_ext : forall st st' id c,
  store_ext st st' -> get_commit st id = Some c -> get_commit st' id = Some c.
Proof.
  intros st st' id c He Hg. unfold get_commit in *.
  destruct (get_kind st KCommit id) as [d|] eqn:Ek; [|discriminate Hg].
  rewrite (get_kind_ext st st' KCommit id d He Ek). exact Hg.
Qed.

Lemma wk_go_ext : forall (rec1 rec2 : bytes -> option (list node)) st st',
  (forall d ns, rec1 d = Some ns -> rec2 d = Some ns) ->
  (forall id d, get_kind st KTree id = Some d -> get_kind st' KTree id = Some d) ->
  forall items ns, wk_go rec1 st items = Some ns -> wk_go rec2 st' items = Some ns.
Proof.
  intros rec1 rec2 st st' Hrec Hk. induction items as [|[[mode name] id] items IH]; intros ns H.
  - exact H.
  - cbn [wk_go] in *.
    destruct (wk_go rec1 st items) as [ns1|] eqn:E1.
    + rewrite (IH ns1 eq_refl). destruct (bytes_eqb mode mode_dir); [|exact H].
      destruct (get_kind st KTree id) as [d|] eqn:Eg; [|discriminate H].
      rewrite (Hk id d Eg).
      destruct (rec1 d) as [ch|] eqn:E2; [|discriminate H].
      rewrite (Hrec d ch E2). exact H.
    + destruct (bytes_eqb mode mode_dir); [|discriminate H].
      destruct (get_kind st KTree id) as [d|]; [|discriminate H].
      destruct (rec1 d); discriminate H.
Qed.

Lemma walk_tree_ext : forall n st st' d ns,
  store_ext st st' -> walk_tree n st d = Some ns -> walk_tree n st' d = Some ns.
Proof.
  induction n as [|n IH]; intros st st' d ns He H; [discriminate H|].
  rewrite walk_tree_S in *.
  destruct (parse_tree_items (S (length d)) d) as [items|]; [|discriminate H].
  apply (wk_go_ext (walk_tree n st) (walk_tree n st') st st'); [| |exact H].
  - intros d0 ns0 H0. apply (IH st st' d0 ns0 He H0).
  - intros id d0 H0. apply (get_kind_ext st st' KTree id d0 He H0).
Qed.

Lemma walk_tree_ext_fuel : forall st st' d ns,
  store_ext st st' ->
  walk_tree (S (length st)) st d = Some ns -> walk_tree (S (length st')) st' d = Some ns.
Proof.
  intros st st' d ns He H.
  apply (walk_tree_mono_le (S (length st)) (S (length st'))); [destruct He; lia|].
  apply (walk_tree_ext _ st st'); assumption.
Qed.

(* effects, traces, steps and histories only extend the store (no collision) *)
Lemma effect_store_ext : forall e w,
  w_coll (apply_effect e w) = false -> store_ext (w_objs w) (w_objs (apply_effect e w)).
Proof.
  intros e w Hc. destruct (is_put e) eqn:Ep.
  - destruct e; try discriminate Ep. rewrite w_coll_EPutObj in Hc.
    apply orb_false_elim in Hc. destruct Hc as [_ Hcol].
    rewrite w_objs_EPutObj. apply store_ext_set. exact Hcol.
  - rewrite w_objs_not_put by exact Ep. apply store_ext_refl.
Qed.

Lemma trace_store_ext : forall tr w,
  w_coll (apply_effects tr w) = false -> store_ext (w_objs w) (w_objs (apply_effects tr w)).
Proof.
  induction tr as [|e tr IH]; intros w Hc.
  - apply store_ext_refl.
  - rewrite apply_effects_cons in Hc |- *.
    apply (store_ext_trans _ (w_objs (apply_effect e w))); [|apply IH; exact Hc].
    apply effect_store_ext. apply (coll_false_before tr). exact Hc.
Qed.

Lemma step_w_eq : forall a w,
  match a with
  | ACmd e c => exists tr, step_w a w = apply_effects tr w
  | AEdit u => step_w a w = apply_edit u w
  end.
Proof.
  intros [e c|u] w.
  - destruct (step_cmd_world e c w) as [tr Htr]. exists tr. unfold step_w. rewrite Htr. reflexivity.
  - reflexivity.
Qed.

Lemma step_w_store_ext : forall a w,
  w_coll (step_w a w) = false -> store_ext (w_objs w) (w_objs (step_w a w)).
Proof.
  intros a w Hc. pose proof (step_w_eq a w) as H. destruct a as [e c|u].
  - destruct H as [tr H]. rewrite H in Hc |- *. apply trace_store_ext. exact Hc.
  - rewrite H, w_objs_apply_edit. apply store_ext_refl.
Qed.

Lemma run_coll_false_before : forall h w, w_coll (run h w) = false -> w_coll w = false.
Proof.
  intros h w Hc. destruct (w_coll w) eqn:E; [|reflexivity].
  rewrite (run_coll_sticky h w E) in Hc. discriminate Hc.
Qed.

Lemma run_store_ext : forall h w,
  w_coll (run h w) = false -> store_ext (w_objs w) (w_objs (run h w)).
Proof.
  induction h as [|a h IH]; intros w Hc.
  - apply store_ext_refl.
  - rewrite run_cons in Hc |- *.
    apply (store_ext_trans _ (w_objs (step_w a w))); [|apply IH; exact Hc].
    apply step_w_store_ext. apply (run_coll_false_before h). exact Hc.
Qed.

Lemma run_app : forall h1 h2 w, run (h1 ++ h2) w = run h2 (run h1 w).
Proof. intros h1 h2 w. unfold run. apply fold_left_app. Qed.

(* ================================================================== *)
(** * B. The snapshot of a commit, as Goit reads it *)

Definition snapshot (st : store) (cid : bytes) : option (list entry) :=
  match get_commit st cid with
  | Some c =>
      match get_kind st KTree (c_tree c) with
      | Some d =>
          match walk_tree (S (length st)) st d with
          | Some ns => Some (flatten [] ns)
          | None => None
          end
      | None => None
      end
  | None => None
  end.

(* (b) the snapshot of an existing commit is stable under store growth *)
Theorem snapshot_ext : forall st st' cid es,
  store_ext st st' -> snapshot st cid = Some es -> snapshot st' cid = Some es.
Proof.
  intros st st' cid es He H. unfold snapshot in *.
  destruct (get_commit st cid) as [c|] eqn:Ec; [|discriminate H].
  rewrite (get_commit_ext st st' cid c He Ec).
  destruct (get_kind st KTree (c_tree c)) as [d|] eqn:Ek; [|discriminate H].
  rewrite (get_kind_ext st st' KTree _ d He Ek).
  destruct (walk_tree (S (length st)) st d) as [ns|] eqn:Ew; [|discriminate H].
  rewrite (walk_tree_ext_fuel st st' d ns He Ew). exact H.
Qed.

Theorem snapshot_stable_run : forall h w cid es,
  w_coll (run h w) = false ->
  snapshot (w_objs w) cid = Some es -> snapshot (w_objs (run h w)) cid = Some es.
Proof.
  intros h w cid es Hc H. apply (snapshot_ext (w_objs w)); [|exact H].
  apply run_store_ext. exact Hc.
Qed.

(* the reading of a stored commit's tree, remembering the [item] form *)
Definition snap_ok (st : store) (c : commit) : Prop :=
  exists d its,
    get_kind st KTree (c_tree c) = Some d /\
    walk_tree (S (length st)) st d = Some (map node_of its) /\
    Forall wf_item its /\
    Canonical (flat_items [] its) /\ Forall valid_entry (flat_items [] its).

Definition SnapshotsGood' (st : store) : Prop :=
  forall id c, get_commit st id = Some c -> snap_ok st c.

Lemma flatten_items : forall its, Forall wf_item its ->
  flatten [] (map node_of its) = flat_items [] its.
Proof.
  intros its Hwf. apply (flatten_nodes (S (ldepth its))); [lia | exact Hwf].
Qed.

Lemma SnapshotsGood'_weaken : forall st, SnapshotsGood' st -> SnapshotsGood st.
Proof.
  intros st H id c Hc. destruct (H id c Hc) as (d & its & Hk & Hw & Hwf & Hcan & Hval).
  exists d, (map node_of its). rewrite (flatten_items its Hwf). auto.
Qed.

Lemma snap_ok_ext : forall st st' c, store_ext st st' -> snap_ok st c -> snap_ok st' c.
Proof.
  intros st st' c He (d & its & Hk & Hw & Hrest).
  exists d, its. split; [apply (get_kind_ext st st'); assumption|].
  split; [apply (walk_tree_ext_fuel st st'); assumption | exact Hrest].
Qed.

Lemma snap_ok_snapshot : forall st id c,
  get_commit st id = Some c -> snap_ok st c ->
  exists its, snapshot st id = Some (flat_items [] its) /\ Forall wf_item its /\
              Canonical (flat_items [] its) /\ Forall valid_entry (flat_items [] its).
Proof.
  intros st id c Hc (d & its & Hk & Hw & Hwf & Hrest).
  exists its. split; [|auto]. unfold snapshot. rewrite Hc, Hk, Hw, (flatten_items its Hwf). reflexivity.
Qed.

(* writing one object: old commits keep their reading, the new id must be checked *)
Lemma SnapshotsGood'_set : forall st id p,
  SnapshotsGood' st -> st_collides st id p = false ->
  (forall c, st_lookup st id = None -> get_commit (st_set st id p) id = Some c ->
             snap_ok (st_set st id p) c) ->
  SnapshotsGood' (st_set st id p).
Proof.
  intros st id p Hg Hcol Hnew id0 c Hc.
  pose proof (store_ext_set st id p Hcol) as He.
  destruct (bytes_eq_dec id0 id) as [->|Hne].
  - destruct (st_lookup st id) as [p0|] eqn:El.
    + assert (Hp : p0 = p).
      { unfold st_collides in Hcol. rewrite El in Hcol.
        apply negb_false_iff in Hcol. apply bytes_eqb_eq in Hcol. exact Hcol. }
      subst p0. rewrite (put_idempotent st id p El) in Hc |- *. apply (Hg id c Hc).
    + apply Hnew; [reflexivity | exact Hc].
  - apply (snap_ok_ext st); [exact He|]. apply (Hg id0 c).
    unfold get_commit, get_kind in Hc |- *. rewrite (get_frame_gen st id p id0 Hne) in Hc. exact Hc.
Qed.

(* ================================================================== *)
(** * C. Association maps and the work tree *)

Lemma am_get_set_some : forall (V : Type) (m : amap V) k v p d,
  am_get (am_set m k v) p = Some d -> p = k \/ exists d', am_get m p = Some d'.
Proof.
  intros V m k v p d. induction m as [|[k' v'] r IH]; cbn [am_set am_get].
  - destruct (bytes_eqb k p) eqn:E; [|discriminate]. intros _. left. symmetry. apply bytes_eqb_eq. exact E.
  - destruct (bytes_eqb k' k) eqn:Ek.
    + cbn [am_get]. destruct (bytes_eqb k p) eqn:E.
      * intros _. left. symmetry. apply bytes_eqb_eq. exact E.
      * intro H. right. apply bytes_eqb_eq in Ek. subst k'. rewrite E. exists d. exact H.
    + destruct (blt k k') eqn:Eb.
      * cbn [am_get]. destruct (bytes_eqb k p) eqn:E.
        -- intros _. left. symmetry. apply bytes_eqb_eq. exact E.
        -- intro H. right. exists d. exact H.
      * cbn [am_get]. destruct (bytes_eqb k' p) eqn:E.
        -- intro H. right. exists v'. reflexivity.
        -- exact IH.
Qed.

Lemma am_get_del_some : forall (V : Type) (m : amap V) k p d,
  am_get (am_del m k) p = Some d -> exists d', am_get m p = Some d'.
Proof.
  intros V m k p d. induction m as [|[k' v'] r IH]; cbn [am_del am_get].
  - discriminate.
  - destruct (bytes_eqb k' k) eqn:Ek.
    + intro H. destruct (bytes_eqb k' p); [exists v'; reflexivity | exists d; exact H].
    + cbn [am_get]. destruct (bytes_eqb k' p); [intros _; exists v'; reflexivity | exact IH].
Qed.

Lemma am_get_filter_some : forall (V : Type) (f : bytes * V -> bool) (m : amap V) p d,
  am_get (filter f m) p = Some d -> exists d', am_get m p = Some d'.
Proof.
  intros V f m p d. induction m as [|[k' v'] r IH]; cbn [filter am_get].
  - discriminate.
  - destruct (f (k', v')).
    + cbn [am_get]. destruct (bytes_eqb k' p); [intros _; exists v'; reflexivity | exact IH].
    + intro H. destruct (bytes_eqb k' p); [exists v'; reflexivity | exact (IH H)].
Qed.

Lemma am_get_set_same : forall (V : Type) (m : amap V) k v, am_get (am_set m k v) k = Some v.
Proof.
  intros V m k v. induction m as [|[k' v'] r IH]; cbn [am_set am_get].
  - rewrite bytes_eqb_refl. reflexivity.
  - destruct (bytes_eqb k' k) eqn:Ek.
    + cbn [am_get]. rewrite bytes_eqb_refl. reflexivity.
    + destruct (blt k k').
      * cbn [am_get]. rewrite bytes_eqb_refl. reflexivity.
      * cbn [am_get]. rewrite Ek. exact IH.
Qed.

Lemma WtValid_files : forall w w',
  (forall p d, am_get (w_files w') p = Some d -> exists d', am_get (w_files w) p = Some d') ->
  WtValid w -> WtValid w'.
Proof. intros w w' H Hv p d Hg. destruct (H p d Hg) as [d' Hd']. exact (Hv p d' Hd'). Qed.

Lemma WtValid_effect : forall e w,
  WtValid w -> (forall p d, e = EWriteFile p d -> valid_path p) -> WtValid (apply_effect e w).
Proof.
  intros e w Hv He.
  destruct e; try (apply (WtValid_files w); [|exact Hv]; autorewrite with wfields; intros p0 d0 H0; exists d0; exact H0).
  - (* EWriteFile *)
    intros p0 d0 H0. rewrite w_files_EWriteFile in H0.
    destruct (am_get_set_some _ _ _ _ _ _ H0) as [->|[d' Hd']].
    + apply (He path data). reflexivity.
    + exact (Hv p0 d' Hd').
  - (* ERemovePath *)
    apply (WtValid_files w); [|exact Hv]. intros p0 d0 H0. rewrite w_files_ERemovePath in H0.
    exact (am_get_del_some _ _ _ _ _ H0).
Qed.

Lemma WtValid_edit : forall u w, edit_ok u -> WtValid w -> WtValid (apply_edit u w).
Proof.
  intros [p d|p|p|p] w Hok Hv; cbn [apply_edit edit_ok] in *.
  - apply WtValid_effect.
    + destruct (parent_dir p); [|exact Hv]. apply WtValid_effect; [exact Hv|]. intros p0 d0 H0. discriminate H0.
    + intros p0 d0 H0. injection H0 as <- _. exact Hok.
  - apply WtValid_effect; [exact Hv|]. intros p0 d0 H0. discriminate H0.
  - apply (WtValid_files w); [|exact Hv]. intros p0 d0 H0. cbn in H0.
    exact (am_get_filter_some _ _ _ _ _ H0).
  - apply WtValid_effect; [exact Hv|]. intros p0 d0 H0. discriminate H0.
Qed.

(* ================================================================== *)
(** * D. No configuration value ever holds a newline *)

Definition kvs_nl (m : kvs) : Prop := Forall (fun kv => ~ In c_nl (snd kv)) m.
Definition cfg_nl (c : cfg) : Prop := Forall (fun sm => kvs_nl (snd sm)) c.
Definition cfgst_nl (s : cfgst) : Prop := forall c, cfg_of s = Some c -> cfg_nl c.
Definition CfgNl (w : world) : Prop := cfgst_nl (w_lcfg w) /\ cfgst_nl (w_gcfg w).

Lemma kv_set_nl : forall m k v, kvs_nl m -> ~ In c_nl v -> kvs_nl (kv_set m k v).
Proof.
  induction m as [|[k' v'] r IH]; intros k v Hm Hv; cbn [kv_set].
  - constructor; [exact Hv | constructor].
  - inversion Hm as [|? ? H1 H2]; subst. destruct (bytes_eqb k' k).
    + constructor; [exact Hv | exact H2].
    + constructor; [exact H1 | apply IH; assumption].
Qed.

Lemma sec_set_nl : forall c s m, cfg_nl c -> kvs_nl m -> cfg_nl (sec_set c s m).
Proof.
  induction c as [|[s' m'] r IH]; intros s m Hc Hm; cbn [sec_set].
  - constructor; [exact Hm | constructor].
  - inversion Hc as [|? ? H1 H2]; subst. destruct (bytes_eqb s' s).
    + constructor; [exact Hm | exact H2].
    + constructor; [exact H1 | apply IH; assumption].
Qed.

Lemma sec_get_nl : forall c s m, cfg_nl c -> sec_get c s = Some m -> kvs_nl m.
Proof.
  induction c as [|[s' m'] r IH]; intros s m Hc Hg; cbn [sec_get] in Hg; [discriminate Hg|].
  inversion Hc as [|? ? H1 H2]; subst. destruct (bytes_eqb s' s).
  - injection Hg as <-. exact H1.
  - exact (IH s m H2 Hg).
Qed.

Lemma kv_get_nl : forall m k v, kvs_nl m -> kv_get m k = Some v -> ~ In c_nl v.
Proof.
  induction m as [|[k' v'] r IH]; intros k v Hm Hg; cbn [kv_get] in Hg; [discriminate Hg|].
  inversion Hm as [|? ? H1 H2]; subst. destruct (bytes_eqb k' k).
  - injection Hg as <-. exact H1.
  - exact (IH k v H2 Hg).
Qed.

Lemma drop_cr_incl : forall l x, In x (drop_cr l) -> In x l.
Proof.
  intros l x. unfold drop_cr. destruct (rev l) as [|c r] eqn:E; [auto|].
  destruct (beqb c c_cr); [|auto].
  intro H. apply in_rev. rewrite E. right. apply in_rev in H. exact H.
Qed.

Lemma scan_lines_aux_nl : forall s cur,
  ~ In c_nl cur -> Forall (fun l => ~ In c_nl l) (scan_lines_aux cur s).
Proof.
  induction s as [|c r IH]; intros cur Hcur; cbn [scan_lines_aux].
  - destruct cur as [|c0 cur0]; [constructor|]. constructor; [|constructor].
    intro H. apply drop_cr_incl in H. apply in_rev in H. exact (Hcur H).
  - destruct (beqb c c_nl) eqn:E.
    + constructor.
      * intro H. apply drop_cr_incl in H. apply in_rev in H. exact (Hcur H).
      * apply IH. intros [].
    + apply IH. intros [H|H]; [|exact (Hcur H)].
      apply beqb_neq in E. exact (E H).
Qed.

Lemma trim_left_incl : forall s x, In x (trim_left s) -> In x s.
Proof.
  induction s as [|c r IH]; intros x H; cbn [trim_left] in H; [exact H|].
  destruct (is_space c); [right; exact (IH x H) | exact H].
Qed.

Lemma trim_space_incl : forall s x, In x (trim_space s) -> In x s.
Proof.
  intros s x H. unfold trim_space in H. apply in_rev in H.
  apply trim_left_incl in H. apply in_rev in H. apply trim_left_incl in H. exact H.
Qed.

Lemma cfg_load_lines_nl : forall ls c cur c',
  Forall (fun l => ~ In c_nl l) ls -> cfg_nl c ->
  cfg_load_lines ls c cur = Some c' -> cfg_nl c'.
Proof.
  induction ls as [|l r IH]; intros c cur c' Hls Hc H; cbn [cfg_load_lines] in H.
  - injection H as <-. exact Hc.
  - inversion Hls as [|? ? Hl Hr]; subst.
    destruct (re_search re_identRegexp l).
    + destruct (Nat.leb (length l) 2); [discriminate H|].
      apply (IH _ _ _ Hr) in H; [exact H|]. apply sec_set_nl; [exact Hc | constructor].
    + destruct (is_nil (trim_space l)); [exact (IH _ _ _ Hr Hc H)|].
      destruct (split1 x3d (remove_tabs l)) as [k [v|]] eqn:Es; [|discriminate H].
      destruct cur as [s|]; [|discriminate H].
      apply (IH _ _ _ Hr) in H; [exact H|]. apply sec_set_nl; [exact Hc|].
      apply kv_set_nl.
      * destruct (sec_get c s) as [m|] eqn:Eg; [exact (sec_get_nl c s m Hc Eg) | constructor].
      * intro Hin. apply trim_space_incl in Hin.
        apply split1_inv_some in Es. apply Hl.
        assert (Hin2 : In c_nl (remove_tabs l)).
        { destruct Es as [Es _]. rewrite Es. apply in_or_app. right. right. exact Hin. }
        unfold remove_tabs in Hin2. apply filter_In in Hin2. apply Hin2.
Qed.

Lemma cfg_load_nl : forall b c, cfg_load b = Some c -> cfg_nl c.
Proof.
  intros b c H. unfold cfg_load in H.
  apply (cfg_load_lines_nl (scan_lines b) [] None c); [|constructor|exact H].
  apply scan_lines_aux_nl. intros [].
Qed.

Lemma cfg_written_nl : forall c, cfgst_nl (cfg_written c).
Proof. intros c c' H. cbn in H. exact (cfg_load_nl _ _ H). Qed.

Lemma ident_get_nl : forall l g key v,
  cfg_nl l -> cfg_nl g -> ident_get l g key = Some v -> ~ In c_nl v.
Proof.
  intros l g key v Hl Hg H. unfold ident_get in H.
  assert (HG : match sec_get g (str "user"%string) with Some m' => kv_get m' key | None => None end = Some v
               -> ~ In c_nl v).
  { destruct (sec_get g (str "user"%string)) as [m'|] eqn:Eg; [|discriminate].
    apply kv_get_nl. exact (sec_get_nl g _ m' Hg Eg). }
  destruct (sec_get l (str "user"%string)) as [m|] eqn:El; [|exact (HG H)].
  destruct (kv_get m key) as [v0|] eqn:Ek; [|exact (HG H)].
  injection H as <-. exact (kv_get_nl m key v0 (sec_get_nl l _ m Hl El) Ek).
Qed.

Lemma user_name_nl : forall l g, cfg_nl l -> cfg_nl g -> ~ In c_nl (user_name l g).
Proof.
  intros l g Hl Hg. unfold user_name.
  destruct (ident_get l g (str "name"%string)) as [v|] eqn:E; [exact (ident_get_nl l g _ v Hl Hg E) | intros []].
Qed.

Lemma user_email_nl : forall l g, cfg_nl l -> cfg_nl g -> ~ In c_nl (user_email l g).
Proof.
  intros l g Hl Hg. unfold user_email.
  destruct (ident_get l g (str "email"%string)) as [v|] eqn:E; [exact (ident_get_nl l g _ v Hl Hg E) | intros []].
Qed.

Lemma dec_nl : forall n, ~ In c_nl (dec n).
Proof. intro n. apply dec_no_byte. reflexivity. Qed.

Lemma dec2_nl : forall n, ~ In c_nl (dec2 n).
Proof.
  intro n. unfold dec2. destruct (N.ltb n 10); [|apply dec_nl].
  intros [H|H]; [discriminate H | exact (dec_nl n H)].
Qed.

Lemma sign_string_nl : forall name email t off,
  ~ In c_nl name -> ~ In c_nl email -> ~ In c_nl (sign_string name email t off).
Proof.
  intros name email t off Hn He. unfold sign_string, tz_string.
  rewrite !in_app_iff. intros [H|[H|[H|[H|[H|[H|[H|[H|H]]]]]]]].
  - exact (Hn H).
  - destruct H as [H|[H|[]]]; discriminate H.
  - exact (He H).
  - destruct H as [H|[H|[]]]; discriminate H.
  - destruct (Z.ltb t 0); [destruct H as [H|H]; [discriminate H|]|]; exact (dec_nl _ H).
  - destruct H as [H|[]]. discriminate H.
  - destruct (Z.leb 0 off); destruct H as [H|[]]; discriminate H.
  - exact (dec2_nl _ H).
  - exact (dec2_nl _ H).
Qed.

(* ================================================================== *)
(** * E. The tree line of a commit Goit writes is the one it reads *)

Lemma drop_cr_prefix : forall p a,
  p <> [] -> last p x00 <> c_cr -> exists a', drop_cr (p ++ a) = p ++ a'.
Proof.
  intros p a Hp Hl. destruct (rev a) as [|x r] eqn:E.
  - assert (a = []) by (rewrite <- (rev_involutive a), E; reflexivity). subst a.
    exists []. apply drop_cr_id. right. rewrite app_nil_r. exact Hl.
  - assert (Ha : a = rev r ++ [x]) by (rewrite <- (rev_involutive a), E; reflexivity).
    unfold drop_cr. rewrite rev_app_distr, E. cbn [app].
    destruct (beqb x c_cr).
    + exists (rev r). rewrite rev_app_distr, rev_involutive. reflexivity.
    + exists a. reflexivity.
Qed.

Lemma scan_sign_line_gen : forall p a rest,
  contains_byte c_nl p = false -> p <> [] -> last p x00 <> c_cr -> ~ In c_nl a ->
  exists a', scan_lines (p ++ a ++ [c_nl] ++ rest) = (p ++ a') :: scan_lines rest.
Proof.
  intros p a rest Hp Hne Hl Ha.
  destruct (drop_cr_prefix p a Hne Hl) as [a' Ea]. exists a'.
  rewrite app_assoc. change ([c_nl] ++ rest) with (c_nl :: rest). unfold scan_lines.
  rewrite scan_lines_aux_app_nl by (apply notin_app; assumption).
  cbn [rev app]. rewrite Ea. reflexivity.
Qed.

Theorem parse_commit_tree : forall tree parent a c msg cm,
  length tree = 20 -> ~ In c_nl a -> ~ In c_nl c ->
  parse_commit (commit_text tree (option_map hex parent) a c msg) = Some cm ->
  c_tree cm = tree.
Proof.
  intros tree parent a c msg cm Htree Ha Hc H.
  unfold parse_commit, commit_text in H.
  rewrite (scan_hex_line (str "tree ") tree _ eq_refl eq_refl) in H.
  rewrite parse_headers_tree, (read_hash_hex tree Htree) in H.
  cbn [c_tree c_parents c_author c_committer c_msg] in H.
  assert (Hrest : forall c0 rest0,
    match parse_headers (scan_lines (str "author " ++ a ++ [c_nl] ++ str "committer " ++ c ++ [c_nl] ++ rest0)) c0 with
    | Some (c1, ml) => Some (mkCommit (c_tree c1) (c_parents c1) (c_author c1) (c_committer c1) (join [c_nl] ml))
    | None => None
    end = Some cm ->
    match rest0 with [] => False | x :: _ => x = c_nl end -> c_tree cm = c_tree c0).
  { intros c0 rest0 H0 Hr.
    destruct (scan_sign_line_gen (str "author ") a (str "committer " ++ c ++ [c_nl] ++ rest0) eq_refl)
      as [a' Ea]; [discriminate | discriminate | exact Ha |].
    rewrite Ea, parse_headers_author in H0.
    destruct (read_sign a') as [sa|]; [|discriminate H0].
    destruct (scan_sign_line_gen (str "committer ") c rest0 eq_refl)
      as [c' Ec]; [discriminate | discriminate | exact Hc |].
    rewrite Ec, parse_headers_committer in H0.
    destruct (read_sign c') as [sc|]; [|discriminate H0].
    cbn [c_tree c_parents c_author c_committer c_msg] in H0.
    destruct rest0 as [|x rest1]; [destruct Hr|]. subst x.
    change (c_nl :: rest1) with ([] ++ c_nl :: rest1) in H0.
    rewrite (scan_lines_app_nl [] rest1 (fun X => X) (or_introl eq_refl)) in H0.
    rewrite parse_headers_blank in H0. cbn [c_tree c_parents c_author c_committer c_msg] in H0.
    injection H0 as <-. reflexivity. }
  destruct parent as [p|]; cbn [option_map] in H.
  - rewrite <- !app_assoc in H.
    rewrite (scan_hex_line (str "parent ") p _ eq_refl eq_refl) in H.
    rewrite parse_headers_parent in H.
    destruct (read_hash (hex p)) as [h|]; [|discriminate H].
    cbn [c_tree c_parents c_author c_committer c_msg] in H.
    rewrite (Hrest _ _ H); [reflexivity | reflexivity].
  - rewrite app_nil_l in H. rewrite (Hrest _ _ H); [reflexivity | reflexivity].
Qed.

(* ================================================================== *)
(** * F. The invariant *)

(* every object file in the store is shorter than 2^63 bytes: beyond that
   size Goit cannot read its own object back ([payload_too_big]) *)
Definition SmallStore (st : store) : Prop :=
  forall id p, st_lookup st id = Some p -> (lenN p < 2 ^ 63)%N.

(* the situations the theorems cover: no SHA-1 collision met, no giant object *)
Definition Live (w : world) : Prop := w_coll w = false /\ SmallStore (w_objs w).

Definition GoodW (w : world) : Prop :=
  WtValid w /\ IndexGood w /\ SnapshotsGood' (w_objs w) /\ CfgNl w.

Definition Inv (w : world) : Prop := Live w -> GoodW w.
Definition G (w : world) (e : effect) : Prop := True.

Lemma SmallStore_ext : forall st st', store_ext st st' -> SmallStore st' -> SmallStore st.
Proof. intros st st' [He _] Hs id p Hl. exact (Hs id p (He id p Hl)). Qed.

Lemma Live_effect_before : forall e w, Live (apply_effect e w) -> Live w.
Proof.
  intros e w [Hc Hs]. split.
  - apply (coll_false_before [e]). exact Hc.
  - apply (SmallStore_ext _ _ (effect_store_ext e w Hc) Hs).
Qed.

Lemma Live_trace_before : forall tr w, Live (apply_effects tr w) -> Live w.
Proof.
  intros tr w [Hc Hs]. split.
  - apply (coll_false_before tr). exact Hc.
  - apply (SmallStore_ext _ _ (trace_store_ext tr w Hc) Hs).
Qed.

Lemma GoodW_Inv : forall w, GoodW w -> Inv w.
Proof. intros w H _. exact H. Qed.

Definition is_setidx (e : effect) : bool := match e with ESetIndex _ => true | _ => false end.

Lemma w_index_not_set : forall e w, is_setidx e = false -> w_index (apply_effect e w) = w_index w.
Proof. intros e w He. destruct e; try discriminate He; autorewrite with wfields; reflexivity. Qed.

Lemma IndexGood_effect : forall e w,
  IndexGood w -> (forall es, e = ESetIndex es -> Canonical es /\ Forall valid_entry es) ->
  IndexGood (apply_effect e w).
Proof.
  intros e w Hi He. destruct (is_setidx e) eqn:E.
  - destruct e; try discriminate E. unfold IndexGood, idx_of. rewrite w_index_ESetIndex.
    apply (He es). reflexivity.
  - unfold IndexGood, idx_of in *. rewrite (w_index_not_set e w E). exact Hi.
Qed.

Lemma CfgNl_effect : forall e w,
  CfgNl w -> (forall c, e = ESetLcfg c -> cfgst_nl c) -> (forall c, e = ESetGcfg c -> cfgst_nl c) ->
  CfgNl (apply_effect e w).
Proof.
  intros e w [Hl Hg] H1 H2. unfold CfgNl.
  destruct e; autorewrite with wfields; try (split; assumption).
  - split; [|exact Hg]. intros c Hc. cbn in Hc. injection Hc as <-. constructor.
  - split; [apply (H1 c); reflexivity | exact Hg].
  - split; [exact Hl | apply (H2 c); reflexivity].
Qed.

Lemma GoodW_effect : forall e w,
  GoodW w ->
  (forall p d, e = EWriteFile p d -> valid_path p) ->
  (forall es, e = ESetIndex es -> Canonical es /\ Forall valid_entry es) ->
  (forall id p, e = EPutObj id p -> SnapshotsGood' (st_set (w_objs w) id p)) ->
  (forall c, e = ESetLcfg c -> cfgst_nl c) -> (forall c, e = ESetGcfg c -> cfgst_nl c) ->
  GoodW (apply_effect e w).
Proof.
  intros e w (Hwt & Hix & Hsn & Hcf) H1 H2 H3 H4 H5.
  split; [apply WtValid_effect; assumption|].
  split; [apply IndexGood_effect; assumption|].
  split; [|apply CfgNl_effect; assumption].
  destruct (is_put e) eqn:Ep.
  - destruct e; try discriminate Ep. rewrite w_objs_EPutObj. apply (H3 id payload). reflexivity.
  - rewrite w_objs_not_put by exact Ep. exact Hsn.
Qed.

Lemma inv_effect : forall e w,
  Inv w -> (Live (apply_effect e w) -> GoodW w -> GoodW (apply_effect e w)) ->
  Inv (apply_effect e w).
Proof.
  intros e w Hi H. intro HL.
  apply H; [exact HL|]. apply Hi. exact (Live_effect_before e w HL).
Qed.

(* effects that touch neither the staging area, the store, the files' names
   nor the configuration *)
Definition benign (e : effect) : bool :=
  match e with
  | EPutObj _ _ | ESetIndex _ | EWriteFile _ _ | ESetLcfg _ | ESetGcfg _ => false
  | _ => true
  end.

Lemma inv_benign : forall e w, benign e = true -> Inv w -> Inv (apply_effect e w).
Proof.
  intros e w He Hi. apply inv_effect; [exact Hi|]. intros _ Hg.
  apply GoodW_effect; [exact Hg| | | | |]; intros; subst e; discriminate He.
Qed.

Lemma inv_set_index : forall es w,
  Inv w -> (Live w -> GoodW w -> Canonical es /\ Forall valid_entry es) ->
  Inv (apply_effect (ESetIndex es) w).
Proof.
  intros es w Hi H. apply inv_effect; [exact Hi|]. intros HL Hg.
  apply GoodW_effect; [exact Hg| | | | |]; try (intros; discriminate).
  intros es0 E. injection E as <-. apply H; [|exact Hg]. exact (Live_effect_before _ _ HL).
Qed.

Lemma inv_write_file : forall p d w,
  Inv w -> (Live w -> GoodW w -> valid_path p) ->
  Inv (apply_effect (EWriteFile p d) w).
Proof.
  intros p d w Hi H. apply inv_effect; [exact Hi|]. intros HL Hg.
  apply GoodW_effect; [exact Hg| | | | |]; try (intros; discriminate).
  intros p0 d0 E. injection E as <- _. apply H; [|exact Hg]. exact (Live_effect_before _ _ HL).
Qed.

Lemma inv_set_lcfg : forall c w, Inv w -> Inv (apply_effect (ESetLcfg (cfg_written c)) w).
Proof.
  intros c w Hi. apply inv_effect; [exact Hi|]. intros _ Hg.
  apply GoodW_effect; [exact Hg| | | | |]; try (intros; discriminate).
  intros c0 E. injection E as <-. apply cfg_written_nl.
Qed.

Lemma inv_set_gcfg : forall s w, cfgst_nl s -> Inv w -> Inv (apply_effect (ESetGcfg s) w).
Proof.
  intros s w Hs Hi. apply inv_effect; [exact Hi|]. intros _ Hg.
  apply GoodW_effect; [exact Hg| | | | |]; try (intros; discriminate).
  intros c0 E. injection E as <-. exact Hs.
Qed.

(* reading back the object just written *)
Lemma get_commit_put : forall st k d c,
  get_commit (st_set st (obj_id k d) (payload k d)) (obj_id k d) = Some c ->
  k = KCommit /\ parse_commit d = Some c /\ (lenN d < 2 ^ 63)%N.
Proof.
  intros st k d c H. unfold get_commit, get_kind, get_obj in H.
  rewrite st_lookup_set_same in H.
  destruct (N.ltb (lenN d) (2 ^ 63)) eqn:E.
  - apply N.ltb_lt in E. rewrite (payload_roundtrip k d E) in H.
    change (sha1 (payload k d)) with (obj_id k d) in H. rewrite bytes_eqb_refl in H.
    destruct k; try discriminate H. cbn [kind_eqb] in H. auto.
  - apply N.ltb_ge in E. rewrite (payload_too_big k d E) in H. discriminate H.
Qed.

Lemma put_coll_false : forall id p w,
  w_coll (apply_effect (EPutObj id p) w) = false -> st_collides (w_objs w) id p = false.
Proof.
  intros id p w H. rewrite w_coll_EPutObj in H. apply orb_false_elim in H. apply H.
Qed.

Lemma inv_put : forall k d w,
  k <> KCommit -> Inv w ->
  Inv (apply_effect (EPutObj (obj_id k d) (payload k d)) w).
Proof.
  intros k d w Hk Hi. apply inv_effect; [exact Hi|]. intros [Hc _] Hg.
  apply GoodW_effect; [exact Hg| | | | |]; try (intros; discriminate).
  intros id p E. injection E as <- <-.
  apply SnapshotsGood'_set; [apply Hg | exact (put_coll_false _ _ _ Hc) |].
  intros c _ Hgc. destruct (get_commit_put _ _ _ _ Hgc) as [Hk' _]. contradiction.
Qed.

Lemma inv_put_commit : forall d w,
  Inv w ->
  (Live (apply_effect (EPutObj (obj_id KCommit d) (payload KCommit d)) w) -> GoodW w ->
   forall c, parse_commit d = Some c ->
             snap_ok (st_set (w_objs w) (obj_id KCommit d) (payload KCommit d)) c) ->
  Inv (apply_effect (EPutObj (obj_id KCommit d) (payload KCommit d)) w).
Proof.
  intros d w Hi H. apply inv_effect; [exact Hi|]. intros HL Hg.
  apply GoodW_effect; [exact Hg| | | | |]; try (intros; discriminate).
  intros id p E. injection E as <- <-.
  apply SnapshotsGood'_set; [apply Hg | exact (put_coll_false _ _ _ (proj1 HL)) |].
  intros c _ Hgc. destruct (get_commit_put _ _ _ _ Hgc) as (_ & Hp & _).
  apply H; assumption.
Qed.

(* index updates keep the staging area good *)
Lemma Forall_valid_In : forall es e, Forall valid_entry es -> In e es -> valid_entry e.
Proof. intros es e H. rewrite Forall_forall in H. apply H. Qed.

Lemma idx_update_good : forall es id p es',
  Canonical es -> Forall valid_entry es -> length id = 20 -> valid_path p ->
  idx_update es id p = Some es' -> Canonical es' /\ Forall valid_entry es'.
Proof.
  intros es id p es' Hc Hv Hid Hp Hu.
  destruct (idx_update_spec es id p es' Hc Hu) as (Hc' & _ & Hidp & Hother).
  split; [exact Hc'|]. apply Forall_forall. intros e He.
  destruct (bytes_eq_dec (e_path e) p) as [Ep|Ep].
  - split; [rewrite (Hidp e He Ep); exact Hid | rewrite Ep; exact Hp].
  - apply (Forall_valid_In es); [exact Hv|]. apply (Hother e Ep). exact He.
Qed.

Lemma remove_nth_incl : forall (A : Type) n (l : list A) x, In x (remove_nth n l) -> In x l.
Proof.
  intros A n. induction n as [|n IH]; intros [|y l] x H; cbn [remove_nth] in H; try exact H.
  - right. exact H.
  - destruct H as [H|H]; [left; exact H | right; exact (IH l x H)].
Qed.

Lemma idx_delete_good : forall es p es',
  Canonical es -> Forall valid_entry es ->
  idx_delete es p = Some es' -> Canonical es' /\ Forall valid_entry es'.
Proof.
  intros es p es' Hc Hv Hd.
  destruct (idx_delete_spec es p es' Hc Hd) as (Hc' & _ & _).
  split; [exact Hc'|]. unfold idx_delete in Hd.
  destruct (get_entry es p) as [[pos e0]|]; [|discriminate Hd]. injection Hd as <-.
  apply Forall_forall. intros e He. apply (Forall_valid_In es); [exact Hv|].
  exact (remove_nth_incl _ _ _ _ He).
Qed.

Lemma get_entry_In : forall es p i e, get_entry es p = Some (i, e) -> In e es /\ e_path e = p.
Proof.
  intros es p i e H. destruct (get_entry_sound es p i e H) as [Hn Hp].
  split; [exact (nth_error_In _ _ Hn) | exact Hp].
Qed.

Lemma idx_of_not_set : forall e w, is_setidx e = false -> idx_of (apply_effect e w) = idx_of w.
Proof. intros e w He. unfold idx_of. rewrite (w_index_not_set e w He). reflexivity. Qed.

Lemma idx_of_set : forall es w, idx_of (apply_effect (ESetIndex es) w) = es.
Proof. intros es w. unfold idx_of. rewrite w_index_ESetIndex. reflexivity. Qed.
