(* C11 — Reflog is a faithful, append-only journal that always reads back. *)
From Coq Require Import Strings.String Strings.Byte.
From Coq Require Import List NArith ZArith.
From Goit Require Import Bytes Obj Reflog ReflogFacts.
From Goit Require Import World Repo BranchFacts JournalFacts.
From Goit Require Import Bridge.
From Goit Require Import ResetFacts.
From Goit Require Import Inv.
From Goit Require JournalReachFacts.
Import ListNotations.

(* T0 (tie to the source): every regexp literal of the current Go source denotes
   the same language, with the same anchoring, as the pattern of the model — proved
   by running the verified equivalence checker on SrcRegex.v, which is regenerated
   from /repo on every run (see Bridge.v) *)
Theorem C11_source_patterns_are_the_models : source_patterns_agree.
Proof. exact source_patterns. Qed.

(* T1: one written line reads back with its id, kind and message — whatever the
   message contains (": ", tabs, blanks, non-ASCII), newlines excepted: commit()
   logs only the first line of the commit message, which has none (T1b) *)
Theorem C11_line_roundtrip : forall from to name email t off ty msg,
  (forall h, from = Some h -> length h = 20) -> (forall h, to = Some h -> length h = 20) ->
  to <> Some (repeat x00 20) ->
  ~ In c_tab name -> ~ In c_tab email -> ~ In c_nl name -> ~ In c_nl email -> ~ In c_nl msg ->
  exists body, log_line from to name email t off ty msg = body ++ [c_nl] /\ ~ In c_nl body /\
               parse_log_line body = Some (Some (mkRec to ty msg)).
Proof. exact log_line_roundtrip. Qed.

Theorem C11_first_line_has_no_newline : forall m, ~ In c_nl (first_line m).
Proof. exact first_line_no_nl. Qed.

(* T2: appending a record leaves every earlier record in place, in order, and
   the new one reads back last *)
Theorem C11_append : forall file rs from to name email t off ty msg,
  parse_reflog file = Some rs -> (file = [] \/ last file x00 = c_nl) ->
  (forall h, to = Some h -> length h = 20) -> to <> Some (repeat x00 20) ->
  ~ In c_tab name -> ~ In c_tab email -> ~ In c_nl name -> ~ In c_nl email -> ~ In c_nl msg ->
  (msg = [] \/ last msg x00 <> c_cr) ->
  parse_reflog (file ++ log_line from to name email t off ty msg) = Some (rs ++ [mkRec to ty msg]).
Proof. exact parse_reflog_app. Qed.

(* T3: positions shift by exactly the number of records added *)
Theorem C11_positions_shift : forall rs r n,
  get_record (rs ++ [r]) 0 = Some r /\ get_record (rs ++ [r]) (S n) = get_record rs n.
Proof. exact get_record_app. Qed.

(* T4: `reflog` and `reset HEAD@{n}` resolve position n to the same entry, and
   `reflog` numbers its lines 0..n-1 and is total (zero-id records included) *)
Theorem C11_show_agrees_with_get_record : forall rs n r,
  get_record rs n = Some r ->
  nth_error (show_reflog rs) n = Some (short_id (r_id r), n, r_type r, r_msg r).
Proof. exact show_reflog_get_record. Qed.

Theorem C11_show_positions : forall rs,
  map (fun x => snd (fst (fst x))) (show_reflog rs) = seq 0 (length rs).
Proof. exact show_reflog_positions. Qed.

Theorem C11_show_total : forall rs, length (show_reflog rs) = length rs.
Proof. exact show_reflog_total. Qed.


(* ---------- Part 2: every history ---------- *)
(* logs/HEAD is only ever appended to, by every command and edit, whatever the outcome *)
Theorem C11_journal_append_only : forall h w, exists suffix, hlog_bytes (run h w) = hlog_bytes w ++ suffix.
Proof. exact hlog_append_only_run. Qed.

(* after ANY history whose branch-name arguments contain no line break (the
   program now refuses those) the journal reads back *)
Theorem C11_journal_always_reads_back : forall h,
  Forall action_names_clean h -> exists rs, parse_reflog (hlog_bytes (run h w_empty)) = Some rs.
Proof. exact journal_reads_back. Qed.

(* an accepted command extends the parsed journal at its end: all earlier
   entries keep their content and relative order; commit, switch and reset add
   exactly one entry (a rename two), every other command none *)
Theorem C11_reflog_extends : forall e c w w' out tr,
  JInv w -> cmd_names_clean c -> step (ACmd e c) w = (w', OOk out, tr) ->
  exists rs, parse_reflog (hlog_bytes w) = Some rs /\
             parse_reflog (hlog_bytes w') = Some (rs ++ journal_delta c w w').
Proof. exact reflog_extends. Qed.

(* and for commit / switch / reset the new entry, shown by `reflog` at HEAD@{0},
   names the commit HEAD now resolves to, with the kind of the action *)
Theorem C11_head_entry : forall e c w w' out tr ty,
  JInv w -> cmd_names_clean c -> step (ACmd e c) w = (w', OOk out, tr) -> journal_kind c = Some ty ->
  exists rs' r, parse_reflog (hlog_bytes w') = Some rs' /\ get_record rs' 0 = Some r /\ r_type r = ty /\
    r_id r = id_back (head_id w') /\
    nth_error (show_reflog rs') 0 = Some (short_id (r_id r), 0, ty, r_msg r).
Proof. exact reflog_head_entry. Qed.

(* `reflog` is total on every journal that parses *)
Theorem C11_reflog_total : forall w hl t fk,
  JournalOk w -> w_hlog w = Some hl ->
  exists out, cmd_reflog (mkMS w t fk) = (Ok out, mkMS w t fk).
Proof. exact reflog_total. Qed.

(* the journal of EVERY reachable repository reads back — with no hypothesis on
   the names used in the history: a command whose names the program refuses is
   refused before it writes anything (ResetFacts.unclean_cmd_refused) *)
Theorem C11_journal_reads_back_on_every_reachable_repository : forall w hl,
  Inv.Reachable w -> World.w_hlog w = Some hl -> exists rs, Reflog.parse_reflog hl = Some rs.
Proof. exact reachable_journal_parses. Qed.

Print Assumptions C11_line_roundtrip.
Print Assumptions C11_first_line_has_no_newline.
Print Assumptions C11_append.
Print Assumptions C11_positions_shift.
Print Assumptions C11_show_agrees_with_get_record.
Print Assumptions C11_show_positions.
Print Assumptions C11_show_total.
Print Assumptions C11_journal_append_only.
Print Assumptions C11_journal_always_reads_back.
Print Assumptions C11_reflog_extends.
Print Assumptions C11_head_entry.
Print Assumptions C11_reflog_total.
Print Assumptions C11_source_patterns_are_the_models.
Print Assumptions C11_journal_reads_back_on_every_reachable_repository.

(* the same three on every reachable repository: the journal invariant and the cleanliness of an
   ACCEPTED command's names are consequences of reachability, not hypotheses *)
Theorem C11_reflog_extends_on_every_reachable_repository : forall e c w w' out tr,
  Reachable w -> step (ACmd e c) w = (w', OOk out, tr) ->
  exists rs, parse_reflog (hlog_bytes w) = Some rs /\
             parse_reflog (hlog_bytes w') = Some (rs ++ journal_delta c w w').
Proof. exact JournalReachFacts.reflog_extends_reachable. Qed.

Theorem C11_head_entry_on_every_reachable_repository : forall e c w w' out tr ty,
  Reachable w -> step (ACmd e c) w = (w', OOk out, tr) -> journal_kind c = Some ty ->
  exists rs' r, parse_reflog (hlog_bytes w') = Some rs' /\ get_record rs' 0 = Some r /\ r_type r = ty /\
    r_id r = id_back (head_id w') /\
    nth_error (show_reflog rs') 0 = Some (short_id (r_id r), 0, ty, r_msg r).
Proof. exact JournalReachFacts.reflog_head_entry_reachable. Qed.

(* `reflog` itself: on a reachable repository whose context loads and whose journal exists it
   succeeds, changes nothing, and prints the parsed journal, newest first, one line per record *)
Theorem C11_reflog_succeeds : forall e w c hl,
  Reachable w -> ctx_of w = Some c -> w_hlog w = Some hl ->
  exists rs, parse_reflog hl = Some rs /\
             step (ACmd e CReflog) w = (w, OOk (map reflog_line (show_reflog rs)), []).
Proof. exact JournalReachFacts.reflog_succeeds_reachable'. Qed.
Print Assumptions C11_reflog_extends_on_every_reachable_repository.
Print Assumptions C11_head_entry_on_every_reachable_repository.
Print Assumptions C11_reflog_succeeds.
