(* C11 — Reflog is a faithful, append-only journal that always reads back. *)
From Coq Require Import Strings.String Strings.Byte.
From Coq Require Import List NArith ZArith.
From Goit Require Import Bytes Obj Reflog ReflogFacts.
Import ListNotations.

(* T1: one written line reads back with its id, kind and message — whatever the
   message contains (": ", tabs, blanks, non-ASCII), newlines excepted: commit()
   logs only the first line of the commit message, which has none (T1b) *)
Theorem C11_line_roundtrip : forall from to name email t off ty msg,
  (forall h, from = Some h -> length h = 20) -> (forall h, to = Some h -> length h = 20) ->
  to <> Some (repeat x00 20) ->
  ~ In c_tab name -> ~ In c_tab email -> ~ In c_nl name -> ~ In c_nl email -> ~ In c_nl msg ->
  exists body, log_line from to name email t off ty msg = body ++ [c_nl] /\ ~ In c_nl body /\
               parse_log_line body = Some (Some (mkRec to ty msg)).
Proof. exact log_line_roundtrip. Qed.

Theorem C11_first_line_has_no_newline : forall m, ~ In c_nl (first_line m).
Proof. exact first_line_no_nl. Qed.

(* T2: appending a record leaves every earlier record in place, in order, and
   the new one reads back last *)
Theorem C11_append : forall file rs from to name email t off ty msg,
  parse_reflog file = Some rs -> (file = [] \/ last file x00 = c_nl) ->
  (forall h, to = Some h -> length h = 20) -> to <> Some (repeat x00 20) ->
  ~ In c_tab name -> ~ In c_tab email -> ~ In c_nl name -> ~ In c_nl email -> ~ In c_nl msg ->
  (msg = [] \/ last msg x00 <> c_cr) ->
  parse_reflog (file ++ log_line from to name email t off ty msg) = Some (rs ++ [mkRec to ty msg]).
Proof. exact parse_reflog_app. Qed.

(* T3: positions shift by exactly the number of records added *)
Theorem C11_positions_shift : forall rs r n,
  get_record (rs ++ [r]) 0 = Some r /\ get_record (rs ++ [r]) (S n) = get_record rs n.
Proof. exact get_record_app. Qed.

(* T4: `reflog` and `reset HEAD@{n}` resolve position n to the same entry, and
   `reflog` numbers its lines 0..n-1 and is total (zero-id records included) *)
Theorem C11_show_agrees_with_get_record : forall rs n r,
  get_record rs n = Some r ->
  nth_error (show_reflog rs) n = Some (short_id (r_id r), n, r_type r, r_msg r).
Proof. exact show_reflog_get_record. Qed.

Theorem C11_show_positions : forall rs,
  map (fun x => snd (fst (fst x))) (show_reflog rs) = seq 0 (length rs).
Proof. exact show_reflog_positions. Qed.

Theorem C11_show_total : forall rs, length (show_reflog rs) = length rs.
Proof. exact show_reflog_total. Qed.

Print Assumptions C11_line_roundtrip.
Print Assumptions C11_first_line_has_no_newline.
Print Assumptions C11_append.
Print Assumptions C11_positions_shift.
Print Assumptions C11_show_agrees_with_get_record.
Print Assumptions C11_show_positions.
Print Assumptions C11_show_total.
