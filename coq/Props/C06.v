(* C06 — Staging-area file is canonical and lossless; every tracked path is addressable.
   Statements only; each is closed by [exact]. *)
From Coq Require Import Strings.Byte.
From Coq Require Import List NArith Sorted.
From Goit Require Import Bytes Tree Index IndexFacts.
From Goit Require Import Obj World Repo Inv SnapshotFacts.
From Goit Require Import Bridge.
From Goit Require Import BranchFacts ExactFacts AddressFacts.
From Goit Require OutputFacts.
Import ListNotations.

(* T0 (tie to the source): every regexp literal of the current Go source denotes
   the same language, with the same anchoring, as the pattern of the model — proved
   by running the verified equivalence checker on SrcRegex.v, which is regenerated
   from /repo on every run (see Bridge.v) *)
Theorem C06_source_patterns_are_the_models : source_patterns_agree.
Proof. exact source_patterns. Qed.

(* T1: the file codec is lossless for every list of well-formed entries *)
Theorem C06_index_roundtrip : forall es,
  Forall wf_entry es -> (N.of_nat (length es) < 4294967296)%N ->
  decode_index (encode_index es) = Some es.
Proof. exact index_roundtrip. Qed.

(* whatever decodes has the entry count the header announces, and the count is
   bounded by the file size *)
Theorem C06_decode_count : forall b es,
  decode_index b = Some es -> N.of_nat (length es) = unbe (firstn 4 (skipn 8 b)).
Proof. exact decode_index_count. Qed.

(* T2: every update and deletion keeps the entry list strictly ascending (hence
   duplicate-free), and changes exactly the named path *)
Theorem C06_update_canonical : forall es id p es',
  Canonical es -> idx_update es id p = Some es' ->
  Canonical es' /\ (forall q, In q (paths es') <-> q = p \/ In q (paths es)) /\
  (forall e, In e es' -> e_path e = p -> e_id e = id) /\
  (forall e, e_path e <> p -> (In e es' <-> In e es)).
Proof. exact idx_update_spec. Qed.

Theorem C06_delete_canonical : forall es p es',
  Canonical es -> idx_delete es p = Some es' ->
  Canonical es' /\ ~ In p (paths es') /\ (forall e, e_path e <> p -> (In e es' <-> In e es)).
Proof. exact idx_delete_spec. Qed.

(* T3: on a canonical list the hand-written binary search terminates within its
   fuel and finds a path iff it is tracked *)
Theorem C06_get_entry_correct : forall es p,
  Canonical es ->
  (forall i e, get_entry es p = Some (i, e) -> nth_error es i = Some e /\ e_path e = p) /\
  ((exists e, In e es /\ e_path e = p) -> exists i e, get_entry es p = Some (i, e)).
Proof. exact get_entry_correct. Qed.

(* T4: a name is a tracked directory iff some tracked path lies beneath "<name>/" *)
Theorem C06_is_dir_iff : forall es name,
  is_dir es name = true <-> exists e, In e es /\ under_dir name (e_path e) = true.
Proof. exact is_dir_iff. Qed.

Theorem C06_under_dir_spec : forall name p,
  name <> [x2e] ->
  (under_dir name p = true <-> exists rest, rest <> [] /\ p = name ++ [c_slash] ++ rest).
Proof. exact under_dir_spec. Qed.

(* T5: a directory operation selects exactly the tracked paths beneath it *)
Theorem C06_entries_by_dir_exact : forall es name e,
  In e (entries_by_dir es name) <-> In e es /\ under_dir name (e_path e) = true.
Proof. exact entries_by_dir_exact. Qed.

(* never a path that merely contains the name *)
Example C06_ad_x_not_under_d : under_dir [x64] [x61; x64; x2f; x78] = false.
Proof. reflexivity. Qed.
Example C06_d_old_not_under_d : under_dir [x64] [x64; x2d; x6f; x6c; x64] = false.
Proof. reflexivity. Qed.


(* ---------- Part 2: every history ---------- *)
(* After EVERY history of commands (accepted or refused) and user edits that
   write valid paths — add, rm, restore, reset, commit in any order — the
   staging area is strictly ascending in byte order, duplicate-free, and holds
   only valid entries (20-byte id, well-formed path).  Guards: no flagged SHA-1
   collision, no object of 8 EiB or more. *)
Theorem C06_staging_area_canonical_on_every_history : forall w,
  Reachable w -> w_coll w = false -> SmallStore (w_objs w) ->
  StronglySorted (fun a b => blt (e_path a) (e_path b) = true) (idx_of w) /\
  NoDup (paths (idx_of w)) /\ Forall TreeFacts.valid_entry (idx_of w).
Proof. exact staging_area_sorted. Qed.

(* ---------- Part 3: addressability on every reachable repository ---------- *)
(* every tracked path is found by Goit's binary search *)
Theorem C06_every_tracked_path_is_found : forall w p,
  Reachable w -> w_coll w = false -> SmallStore (w_objs w) ->
  (tracked w p = true <-> exists i e, get_entry (idx_of w) p = Some (i, e) /\ e_path e = p).
Proof. exact tracked_path_found_entry. Qed.

(* a name is treated as a tracked directory iff some tracked path lies beneath <name>/ *)
Theorem C06_tracked_directory_iff : forall w d,
  Reachable w -> w_coll w = false -> SmallStore (w_objs w) ->
  (is_dir (idx_of w) d = true <-> exists p, tracked w p = true /\ under_dir d p = true).
Proof. exact tracked_dir_iff. Qed.

(* "beneath d" means d ++ "/" ++ a non-empty rest: never a path that merely contains the name *)
Theorem C06_beneath_means_slash : forall d p, d <> [x2e] ->
  (under_dir d p = true <-> exists rest, rest <> [] /\ p = d ++ [c_slash] ++ rest).
Proof. exact under_dir_shape. Qed.

(* a directory operation selects exactly the tracked paths beneath it, each once, in index order *)
Theorem C06_directory_selection_on_every_history : forall w d,
  Reachable w -> w_coll w = false -> SmallStore (w_objs w) ->
  (forall e, In e (entries_by_dir (idx_of w) d) <-> In e (idx_of w) /\ under_dir d (e_path e) = true) /\
  (forall q, In q (map e_path (entries_by_dir (idx_of w) d)) <-> tracked w q = true /\ under_dir d q = true) /\
  Canonical (entries_by_dir (idx_of w) d) /\
  NoDup (entries_by_dir (idx_of w) d) /\ NoDup (map e_path (entries_by_dir (idx_of w) d)).
Proof. exact dir_selects_exactly. Qed.

(* d-old, ad/x and d itself are never selected by the name d *)
Theorem C06_lookalikes_never_selected : forall w d e, d <> [x2e] ->
  In e (entries_by_dir (idx_of w) d) ->
  (forall c rest, c <> c_slash -> e_path e <> d ++ c :: rest) /\
  (forall pre rest, pre <> [] -> ~ In c_slash pre -> ~ In c_slash d -> e_path e <> pre ++ d ++ c_slash :: rest) /\
  e_path e <> d.
Proof. exact dir_never_selects_lookalikes. Qed.

(* a name that is neither tracked nor above a tracked path is refused by rm and
   restore (and by restore --staged unless HEAD's snapshot has it, by add unless
   it exists on disk) with the world unchanged *)
Theorem C06_unmatched_name_refused : forall w a e,
  Reachable w -> w_coll w = false -> SmallStore (w_objs w) ->
  ~ listed w a -> (forall p, listed w p -> under_dir a p = false) ->
  step (ACmd e (CRm [a])) w = (w, OErr, []) /\
  step (ACmd e (CRestore false [a])) w = (w, OErr, []) /\
  ((forall x ns, ctx_of w = Some x -> head_nodes x w = Some ns -> head_file ns a = false /\ head_dir ns a = false) ->
   step (ACmd e (CRestore true [a])) w = (w, OErr, [])) /\
  (exists_on_disk w a = false -> step (ACmd e (CAdd [a])) w = (w, OErr, [])).
Proof. exact unmatched_name_step_refused. Qed.

Print Assumptions C06_index_roundtrip.
Print Assumptions C06_decode_count.
Print Assumptions C06_update_canonical.
Print Assumptions C06_delete_canonical.
Print Assumptions C06_get_entry_correct.
Print Assumptions C06_is_dir_iff.
Print Assumptions C06_under_dir_spec.
Print Assumptions C06_entries_by_dir_exact.
Print Assumptions C06_staging_area_canonical_on_every_history.
Print Assumptions C06_source_patterns_are_the_models.
Print Assumptions C06_every_tracked_path_is_found.
Print Assumptions C06_tracked_directory_iff.
Print Assumptions C06_beneath_means_slash.
Print Assumptions C06_directory_selection_on_every_history.
Print Assumptions C06_lookalikes_never_selected.
Print Assumptions C06_unmatched_name_refused.

(* the staging-area FILE of every reachable repository reads back: what Goit writes for the staging
   area decodes to the same entry list, as long as the two bounds of the file format hold (a 32-bit
   entry count, a 16-bit path length; the second is shown necessary by a witness: a path of 65536
   bytes is written with length 0) *)
Theorem C06_index_file_reads_back_on_every_reachable_repository : forall w,
  Reachable w -> w_coll w = false -> SmallStore (w_objs w) ->
  (N.of_nat (length (idx_of w)) < 2 ^ 32)%N ->
  Forall OutputFacts.short_path (idx_of w) ->
  decode_index (encode_index (idx_of w)) = Some (idx_of w).
Proof. exact OutputFacts.reachable_index_roundtrip. Qed.

Theorem C06_path_length_bound_is_the_formats :
  decode_index (encode_index [OutputFacts.long_entry]) = Some [mkE (repeat x00 20) []].
Proof. exact OutputFacts.long_path_not_lossless. Qed.
Print Assumptions C06_index_file_reads_back_on_every_reachable_repository.
Print Assumptions C06_path_length_bound_is_the_formats.
