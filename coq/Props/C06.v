(* C06 — Staging-area file is canonical and lossless; every tracked path is addressable.
   Statements only; each is closed by [exact]. *)
From Coq Require Import Strings.Byte.
From Coq Require Import List NArith Sorted.
From Goit Require Import Bytes Tree Index IndexFacts.
From Goit Require Import Obj World Repo Inv SnapshotFacts.
From Goit Require Import Bridge.
Import ListNotations.

(* T0 (tie to the source): every regexp literal of the current Go source denotes
   the same language, with the same anchoring, as the pattern of the model — proved
   by running the verified equivalence checker on SrcRegex.v, which is regenerated
   from /repo on every run (see Bridge.v) *)
Theorem C06_source_patterns_are_the_models : source_patterns_agree.
Proof. exact source_patterns. Qed.

(* T1: the file codec is lossless for every list of well-formed entries *)
Theorem C06_index_roundtrip : forall es,
  Forall wf_entry es -> (N.of_nat (length es) < 4294967296)%N ->
  decode_index (encode_index es) = Some es.
Proof. exact index_roundtrip. Qed.

(* whatever decodes has the entry count the header announces, and the count is
   bounded by the file size *)
Theorem C06_decode_count : forall b es,
  decode_index b = Some es -> N.of_nat (length es) = unbe (firstn 4 (skipn 8 b)).
Proof. exact decode_index_count. Qed.

(* T2: every update and deletion keeps the entry list strictly ascending (hence
   duplicate-free), and changes exactly the named path *)
Theorem C06_update_canonical : forall es id p es',
  Canonical es -> idx_update es id p = Some es' ->
  Canonical es' /\ (forall q, In q (paths es') <-> q = p \/ In q (paths es)) /\
  (forall e, In e es' -> e_path e = p -> e_id e = id) /\
  (forall e, e_path e <> p -> (In e es' <-> In e es)).
Proof. exact idx_update_spec. Qed.

Theorem C06_delete_canonical : forall es p es',
  Canonical es -> idx_delete es p = Some es' ->
  Canonical es' /\ ~ In p (paths es') /\ (forall e, e_path e <> p -> (In e es' <-> In e es)).
Proof. exact idx_delete_spec. Qed.

(* T3: on a canonical list the hand-written binary search terminates within its
   fuel and finds a path iff it is tracked *)
Theorem C06_get_entry_correct : forall es p,
  Canonical es ->
  (forall i e, get_entry es p = Some (i, e) -> nth_error es i = Some e /\ e_path e = p) /\
  ((exists e, In e es /\ e_path e = p) -> exists i e, get_entry es p = Some (i, e)).
Proof. exact get_entry_correct. Qed.

(* T4: a name is a tracked directory iff some tracked path lies beneath "<name>/" *)
Theorem C06_is_dir_iff : forall es name,
  is_dir es name = true <-> exists e, In e es /\ under_dir name (e_path e) = true.
Proof. exact is_dir_iff. Qed.

Theorem C06_under_dir_spec : forall name p,
  name <> [x2e] ->
  (under_dir name p = true <-> exists rest, rest <> [] /\ p = name ++ [c_slash] ++ rest).
Proof. exact under_dir_spec. Qed.

(* T5: a directory operation selects exactly the tracked paths beneath it *)
Theorem C06_entries_by_dir_exact : forall es name e,
  In e (entries_by_dir es name) <-> In e es /\ under_dir name (e_path e) = true.
Proof. exact entries_by_dir_exact. Qed.

(* never a path that merely contains the name *)
Example C06_ad_x_not_under_d : under_dir [x64] [x61; x64; x2f; x78] = false.
Proof. reflexivity. Qed.
Example C06_d_old_not_under_d : under_dir [x64] [x64; x2d; x6f; x6c; x64] = false.
Proof. reflexivity. Qed.


(* ---------- Part 2: every history ---------- *)
(* After EVERY history of commands (accepted or refused) and user edits that
   write valid paths — add, rm, restore, reset, commit in any order — the
   staging area is strictly ascending in byte order, duplicate-free, and holds
   only valid entries (20-byte id, well-formed path).  Guards: no flagged SHA-1
   collision, no object of 8 EiB or more. *)
Theorem C06_staging_area_canonical_on_every_history : forall w,
  Reachable w -> w_coll w = false -> SmallStore (w_objs w) ->
  StronglySorted (fun a b => blt (e_path a) (e_path b) = true) (idx_of w) /\
  NoDup (paths (idx_of w)) /\ Forall TreeFacts.valid_entry (idx_of w).
Proof. exact staging_area_sorted. Qed.

Print Assumptions C06_index_roundtrip.
Print Assumptions C06_decode_count.
Print Assumptions C06_update_canonical.
Print Assumptions C06_delete_canonical.
Print Assumptions C06_get_entry_correct.
Print Assumptions C06_is_dir_iff.
Print Assumptions C06_under_dir_spec.
Print Assumptions C06_entries_by_dir_exact.
Print Assumptions C06_staging_area_canonical_on_every_history.
Print Assumptions C06_source_patterns_are_the_models.
