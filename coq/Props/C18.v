(* C18 — No command crashes or hangs on any state Goit can produce (model half). *)
From Coq Require Import Strings.String Strings.Byte.
From Coq Require Import List NArith.
From Goit Require Import Bytes Tree Index Config World Repo MonadFacts BranchFacts TotalFacts.
From Goit Require Import Bridge.
From Goit Require RefusalFacts.
Import ListNotations.

(* T0 (tie to the source): every regexp literal of the current Go source denotes
   the same language, with the same anchoring, as the pattern of the model — proved
   by running the verified equivalence checker on SrcRegex.v, which is regenerated
   from /repo on every run (see Bridge.v) *)
Theorem C18_source_patterns_are_the_models : source_patterns_agree.
Proof. exact source_patterns. Qed.

(* T1: for EVERY world and EVERY command value the model never reaches a
   panicking site (after the repairs there is none left) *)
Theorem C18_no_panic : forall a w, snd (fst (step a w)) <> OPanic.
Proof. exact no_panic. Qed.

(* T2: a refused command that wrote nothing left the repository unchanged *)
Theorem C18_refused_without_effect_unchanged : forall a w w' tr,
  step a w = (w', OErr, tr) -> tr = [] -> w' = w.
Proof. exact refused_unchanged_generic. Qed.

(* T2 per command: invalid arguments are refused before anything is written *)
Theorem C18_not_initialised : forall e c w, c <> CInit -> w_inited w = false -> step (ACmd e c) w = (w, OErr, []).
Proof. exact not_inited_refused. Qed.
Theorem C18_add_unknown_path : forall e w x args a,
  w_inited w = true -> loaded w x -> In a args -> exists_on_disk w a = false -> tracked w a = false ->
  is_dir (idx_of w) a = false ->
  step (ACmd e (CAdd args)) w = (w, OErr, []).
Proof. exact add_missing_refused. Qed.
Theorem C18_rm_unknown_path : forall e w x args a,
  w_inited w = true -> loaded w x -> In a args -> tracked w a = false -> is_dir (idx_of w) a = false ->
  step (ACmd e (CRm args)) w = (w, OErr, []).
Proof. exact rm_unknown_refused. Qed.
Theorem C18_restore_unknown_path : forall e w x args a,
  w_inited w = true -> loaded w x -> In a args -> restore_targets w false [] a = [] ->
  step (ACmd e (CRestore false args)) w = (w, OErr, []).
Proof. exact restore_unknown_refused. Qed.
Theorem C18_reset_bad_request : forall e w x soft mixed hard args,
  w_inited w = true -> loaded w x ->
  reset_flags_ok soft mixed hard = false \/ reset_target w args = None ->
  step (ACmd e (CReset soft mixed hard args)) w = (w, OErr, []).
Proof. exact reset_refused. Qed.
Theorem C18_commit_without_identity : forall e w x msg,
  w_inited w = true -> loaded w x -> user_set (x_l x) (x_g x) = false ->
  step (ACmd e (CCommit msg)) w = (w, OErr, []).
Proof. exact commit_no_identity_refused. Qed.
Theorem C18_branch_family_refusals : forall h e c w' tr,
  branch_family c -> refs_commits_ok (run h w_empty) ->
  step (ACmd e c) (run h w_empty) = (w', OErr, tr) -> tr = [] /\ w' = run h w_empty.
Proof. exact refused_branch_ops_unchanged_reachable. Qed.

(* T3: the hand-written binary search never runs out of fuel, on any list *)
Theorem C18_binary_search_terminates : forall es p k,
  es <> [] -> bsearch (S (length es) + k) es p 0 (length es) = get_entry es p.
Proof. exact get_entry_fuel. Qed.

Print Assumptions C18_no_panic.
Print Assumptions C18_refused_without_effect_unchanged.
Print Assumptions C18_not_initialised.
Print Assumptions C18_add_unknown_path.
Print Assumptions C18_rm_unknown_path.
Print Assumptions C18_restore_unknown_path.
Print Assumptions C18_reset_bad_request.
Print Assumptions C18_commit_without_identity.
Print Assumptions C18_branch_family_refusals.
Print Assumptions C18_binary_search_terminates.
Print Assumptions C18_source_patterns_are_the_models.

(* "A command refused ... leaves the repository unchanged", for EVERY command on EVERY world: a refusal
   either wrote nothing (and the world is the same), or it is one of eleven late refusals, each
   characterised exactly by RefusalFacts.late_refusal (a commit whose identity does not make a valid
   signature line: tree objects only; reset --hard / restore stopped by the work tree: a prefix of the
   successful trace; add / rm / restore with repeated or overlapping arguments; ...) *)
Theorem C18_every_refusal_classified : forall e c w w' tr,
  step (ACmd e c) w = (w', OErr, tr) ->
  w' = apply_effects tr w /\ ((tr = [] /\ w' = w) \/ RefusalFacts.late_refusal e w c tr).
Proof. exact RefusalFacts.refusal_cases. Qed.

(* the commands for which a refusal NEVER writes, on every world: init, config, status, log, reflog,
   cat-file, hash-object, ls-files, rev-parse, write-tree, update-ref, branch <name> / --list,
   switch --create and wrong usage, reset --soft and every refused flag combination *)
Theorem C18_early_commands_refuse_without_writing : forall e c w w' tr,
  RefusalFacts.early_cmd c -> step (ACmd e c) w = (w', OErr, tr) -> tr = [] /\ w' = w.
Proof. exact RefusalFacts.refused_unchanged_all. Qed.

(* read-only commands never write, whatever the outcome *)
Theorem C18_read_only_commands_never_write : forall e c w w' o tr,
  RefusalFacts.readonly_cmd c -> step (ACmd e c) w = (w', o, tr) -> tr = [] /\ w' = w.
Proof. exact RefusalFacts.readonly_step. Qed.
Print Assumptions C18_every_refusal_classified.
Print Assumptions C18_early_commands_refuse_without_writing.
Print Assumptions C18_read_only_commands_never_write.
