(* C18 — No command crashes or hangs on any state Goit can produce (model half).
   Part 1: a refused command that emitted nothing left the repository
   unchanged, for every command value and every world.  Part 2 (no panicking
   site; per-command refusal theorems; fuel lemmas) is appended when
   TotalFacts.v is built. *)
From Coq Require Import Strings.String Strings.Byte.
From Coq Require Import List NArith.
From Goit Require Import Bytes World Repo MonadFacts.
Import ListNotations.

Theorem C18_refused_without_effect_unchanged : forall e c w w' tr,
  step (ACmd e c) w = (w', OErr, tr) -> tr = [] -> w' = w.
Proof.
  intros e c w w' tr Hs Ht. pose proof (step_trace _ _ _ _ _ Hs) as H. cbn in H. subst. reflexivity.
Qed.

(* every state a command passes through is its effects applied in order: there
   is no other way a command changes the disk *)
Theorem C18_effects_are_everything : forall a w w' o tr,
  step a w = (w', o, tr) ->
  match a with ACmd _ _ => w' = apply_effects tr w | AEdit _ => tr = [] end.
Proof. exact step_trace. Qed.

Print Assumptions C18_refused_without_effect_unchanged.
Print Assumptions C18_effects_are_everything.
