(* C08 — reset moves exactly what each mode promises.
   Part 1 (this file so far): the argument.  The theorems are about
   re_resetRegexp as REGENERATED from cmd/reset.go on every run. *)
From Coq Require Import Strings.String Strings.Byte.
From Coq Require Import List NArith.
From Goit Require Import Bytes Regex GoRegex Reflog Repo RegexFacts ReflogFacts.
From Goit Require Import Obj Tree Index Commit World ExactFacts.
From Goit Require Import Bridge.
From Goit Require JournalReachFacts.
From Goit Require Import Inv Reflog BranchFacts SnapshotFacts RestoreFacts GateFacts ResetFacts.
Import ListNotations.

(* T0 (tie to the source): every regexp literal of the current Go source denotes
   the same language, with the same anchoring, as the pattern of the model — proved
   by running the verified equivalence checker on SrcRegex.v, which is regenerated
   from /repo on every run (see Bridge.v) *)
Theorem C08_source_patterns_are_the_models : source_patterns_agree.
Proof. exact source_patterns. Qed.

(* every "HEAD@{<n>}" is accepted and denotes n, for every n (any number of digits) *)
Theorem C08_reset_arg_accepts : forall n,
  reset_arg (str "HEAD@{" ++ dec n ++ str "}") = Some n.
Proof. exact reset_arg_accepts. Qed.

(* and nothing else is accepted: no prefix, no suffix, at least one digit *)
Theorem C08_reset_arg_only : forall a n,
  reset_arg a = Some n ->
  exists ds, a = [x48; x45; x41; x44; x40; x7b] ++ ds ++ [x7d] /\ ds <> [] /\
             forallb is_digit ds = true /\ digits_val ds = n.
Proof. exact reset_arg_only. Qed.

(* position n is resolved by the same function `reflog` prints with; a position
   beyond the journal is refused *)
Theorem C08_position_is_what_reflog_shows : forall rs n r,
  get_record rs n = Some r ->
  nth_error (show_reflog rs) n = Some (short_id (r_id r), n, r_type r, r_msg r).
Proof. exact show_reflog_get_record. Qed.

Theorem C08_out_of_range_refused : forall rs n,
  (n < length rs)%nat <-> exists r, get_record rs n = Some r.
Proof. exact get_record_total. Qed.


(* ---------- Part 2: what each mode changes ---------- *)
(* refused: wrong flags, not exactly one argument, malformed argument, position
   out of range, zero-id record => error, empty trace, same world *)
Theorem C08_refused_changes_nothing : forall e c soft mixed hard args w r w' tr,
  run_m (cmd_reset e c soft mixed hard args) w = (r, w', tr) ->
  reset_mode_ok soft mixed hard = false \/ length args <> 1%nat \/ (exists a, args = [a] /\ reset_target w a = None) ->
  r = Err /\ w' = w /\ tr = [].
Proof. exact cmd_reset_refused_step. Qed.

(* --soft: the current branch moves to the target, HEAD and every other branch
   stay, staging area and work tree are untouched *)
Theorem C08_soft_spec : forall e c w a prev tid pc tc,
  reset_target w a = Some tid -> x_headc c = Some (prev, pc) -> get_commit (w_objs w) tid = Some tc ->
  am_mem (w_refs w) (w_head w) = true -> forall mixed,
  let tr := reset_head_trace e c w prev tid a in
  runs (cmd_reset e c true mixed false [a]) w (Ok []) tr /\ reset_common_post w tid (apply_effects tr w) /\
  w_index (apply_effects tr w) = w_index w /\ same_wt w (apply_effects tr w).
Proof. exact cmd_reset_soft_spec. Qed.

(* --mixed: additionally the staging area becomes the target snapshot as Goit
   reads it; the work tree is untouched *)
Theorem C08_mixed_spec : forall e c w a prev tid pc tc,
  reset_target w a = Some tid -> x_headc c = Some (prev, pc) -> get_commit (w_objs w) tid = Some tc ->
  am_mem (w_refs w) (w_head w) = true -> forall d ns,
  get_kind (w_objs w) KTree (c_tree tc) = Some d -> walk_tree (S (length (w_objs w))) (w_objs w) d = Some ns ->
  let tr := reset_head_trace e c w prev tid a ++ [ESetIndex (flatten [] ns)] in
  runs (cmd_reset e c false true false [a]) w (Ok []) tr /\ reset_common_post w tid (apply_effects tr w) /\
  idx_of (apply_effects tr w) = flatten [] ns /\ same_wt w (apply_effects tr w).
Proof. exact cmd_reset_mixed_spec. Qed.

(* --hard, when it succeeds: every file of the snapshot holds the committed bytes *)
Theorem C08_hard_spec : forall e c mixed a w out w' tr,
  run_m (cmd_reset e c false mixed true [a]) w = (Ok out, w', tr) ->
  exists tid es, reset_target w a = Some tid /\ reset_entries w a = Some es /\ reset_hard_post w tid es w' /\
                 w' = apply_effects tr w.
Proof. exact cmd_reset_hard_spec. Qed.

(* --hard, whatever the outcome: a file that is not in the target snapshot is
   never touched *)
Theorem C08_hard_never_touches_other_files : forall e c mixed a w r w' tr q,
  run_m (cmd_reset e c false mixed true [a]) w = (r, w', tr) ->
  (forall es, reset_entries w a = Some es -> ~ In q (IndexFacts.paths es)) -> file w' q = file w q.
Proof. exact cmd_reset_hard_frame. Qed.

(* ---------- Part 3: totality on every reachable repository ---------- *)
(* In what follows the argument is [head_at n] = "HEAD@{" ++ decimal n ++ "}",
   [rs] is the journal of the world as `reflog` reads it, and the record at
   position n carries the commit id [tid].  That tid is then a stored commit
   follows from reachability (ResetFacts.reachable_journal_ids). *)

(* --soft: succeeds; the current branch moves to tid; HEAD, every other branch,
   the staging area and the work tree are unchanged *)
Theorem C08_reset_soft_total : forall e w c prev pc n hl rs r tid,
  Reachable w -> w_coll w = false -> SmallStore (w_objs w) -> ctx_of w = Some c -> x_headc c = Some (prev, pc) ->
  (n <= 9223372036854775807)%N -> w_hlog w = Some hl -> parse_reflog hl = Some rs ->
  get_record rs (N.to_nat n) = Some r -> r_id r = Some tid -> forall mixed,
  let a := head_at n in let tr := reset_head_trace e c w prev tid a in let w' := apply_effects tr w in
  step (ACmd e (CReset true mixed false [a])) w = (w', OOk [], tr) /\
  reset_common_post w tid w' /\ w_index w' = w_index w /\ same_wt w w'.
Proof. exact reset_soft_total. Qed.

(* --mixed (the default): additionally the staging area becomes tid's snapshot *)
Theorem C08_reset_mixed_total : forall e w c prev pc n hl rs r tid,
  Reachable w -> w_coll w = false -> SmallStore (w_objs w) -> ctx_of w = Some c -> x_headc c = Some (prev, pc) ->
  (n <= 9223372036854775807)%N -> w_hlog w = Some hl -> parse_reflog hl = Some rs ->
  get_record rs (N.to_nat n) = Some r -> r_id r = Some tid ->
  exists es, snapshot (w_objs w) tid = Some es /\
    let a := head_at n in let tr := reset_head_trace e c w prev tid a ++ [ESetIndex es] in let w' := apply_effects tr w in
    step (ACmd e (CReset false true false [a])) w = (w', OOk [], tr) /\
    reset_common_post w tid w' /\ idx_of w' = es /\ same_wt w w'.
Proof. exact reset_mixed_total. Qed.

(* --hard: additionally every file of the snapshot holds the committed bytes and
   no other file is touched — provided the snapshot can be written to the work
   tree (no file where a directory is needed, no directory at a snapshot path,
   no snapshot path above another: each shown necessary by a witness) *)
Theorem C08_reset_hard_total : forall e w c prev pc n hl rs r tid es,
  Reachable w -> w_coll w = false -> SmallStore (w_objs w) -> ctx_of w = Some c -> x_headc c = Some (prev, pc) ->
  (n <= 9223372036854775807)%N -> w_hlog w = Some hl -> parse_reflog hl = Some rs ->
  get_record rs (N.to_nat n) = Some r -> r_id r = Some tid ->
  snapshot (w_objs w) tid = Some es ->
  (forall q, In q (IndexFacts.paths es) -> restorable w q) ->
  (forall q1 q2, In q1 (IndexFacts.paths es) -> In q2 (IndexFacts.paths es) -> ~ In q1 (ancestors q2)) ->
  forall mixed, let a := head_at n in
  exists tr, let w' := apply_effects tr w in
    step (ACmd e (CReset false mixed true [a])) w = (w', OOk [], tr) /\
    reset_hard_result w tid es w' /\ reset_hard_post w tid es w' /\
    Forall (fun ef => match ef with
                      | ESetRef nm id => nm = w_head w /\ id = tid
                      | ESetIndex i => i = es
                      | EWriteFile q _ => In q (IndexFacts.paths es)
                      | EAppendHlog _ | EAppendBlog _ _ | EMkdirAll _ => True
                      | _ => False
                      end) tr.
Proof. exact reset_hard_total. Qed.

(* malformed argument, no journal, position beyond the journal, or a record
   without a commit id (the one `branch --rename` journals): refused, world
   unchanged, in every mode *)
Theorem C08_reset_refused_on_every_reachable_repository : forall e soft mixed hard a w,
  Reachable w ->
  reset_arg a = None \/
  (exists n, a = head_at n /\
     (w_hlog w = None \/ (9223372036854775807 < n)%N \/
      exists hl rs, w_hlog w = Some hl /\ parse_reflog hl = Some rs /\
        ((N.of_nat (length rs) <= n)%N \/ exists r, get_record rs (N.to_nat n) = Some r /\ r_id r = None))) ->
  step (ACmd e (CReset soft mixed hard [a])) w = (w, OErr, []).
Proof. exact reset_refused_on_reachable. Qed.

(* every id recorded in the journal of a reachable repository is a stored commit *)
Theorem C08_journal_ids_are_stored_commits : forall w hl rs,
  Reachable w -> w_coll w = false -> SmallStore (w_objs w) ->
  w_hlog w = Some hl -> parse_reflog hl = Some rs ->
  Forall (fun r => forall id, r_id r = Some id -> commit_ok (w_objs w) id) rs.
Proof. exact reachable_journal_ids. Qed.

Print Assumptions C08_reset_arg_accepts.
Print Assumptions C08_reset_arg_only.
Print Assumptions C08_position_is_what_reflog_shows.
Print Assumptions C08_out_of_range_refused.
Print Assumptions C08_refused_changes_nothing.
Print Assumptions C08_soft_spec.
Print Assumptions C08_mixed_spec.
Print Assumptions C08_hard_spec.
Print Assumptions C08_hard_never_touches_other_files.
Print Assumptions C08_source_patterns_are_the_models.
Print Assumptions C08_reset_soft_total.
Print Assumptions C08_reset_mixed_total.
Print Assumptions C08_reset_hard_total.
Print Assumptions C08_reset_refused_on_every_reachable_repository.
Print Assumptions C08_journal_ids_are_stored_commits.

(* the three totals without the hypothesis that the current branch has a tip: a journal record that
   carries an id exists only in a repository whose current branch has one (an invariant of every
   history, JournalReachFacts.reachable_record_tip) *)
Theorem C08_reset_soft_total_no_tip_hypothesis : forall e w c n hl rs r tid,
  Reachable w -> w_coll w = false -> SmallStore (w_objs w) -> ctx_of w = Some c ->
  (n <= 9223372036854775807)%N -> w_hlog w = Some hl -> parse_reflog hl = Some rs ->
  get_record rs (N.to_nat n) = Some r -> r_id r = Some tid -> forall mixed,
  exists prev, am_get (w_refs w) (w_head w) = Some prev /\
  let a := head_at n in let tr := reset_head_trace e c w prev tid a in let w' := apply_effects tr w in
  step (ACmd e (CReset true mixed false [a])) w = (w', OOk [], tr) /\
  reset_common_post w tid w' /\ w_index w' = w_index w /\ same_wt w w'.
Proof. exact JournalReachFacts.reset_soft_total'. Qed.

Theorem C08_reset_mixed_total_no_tip_hypothesis : forall e w c n hl rs r tid,
  Reachable w -> w_coll w = false -> SmallStore (w_objs w) -> ctx_of w = Some c ->
  (n <= 9223372036854775807)%N -> w_hlog w = Some hl -> parse_reflog hl = Some rs ->
  get_record rs (N.to_nat n) = Some r -> r_id r = Some tid ->
  exists prev es, am_get (w_refs w) (w_head w) = Some prev /\ snapshot (w_objs w) tid = Some es /\
    let a := head_at n in let tr := reset_head_trace e c w prev tid a ++ [ESetIndex es] in let w' := apply_effects tr w in
    step (ACmd e (CReset false true false [a])) w = (w', OOk [], tr) /\
    reset_common_post w tid w' /\ idx_of w' = es /\ same_wt w w'.
Proof. exact JournalReachFacts.reset_mixed_total'. Qed.

Theorem C08_reset_hard_total_no_tip_hypothesis : forall e w c n hl rs r tid,
  Reachable w -> w_coll w = false -> SmallStore (w_objs w) -> ctx_of w = Some c ->
  (n <= 9223372036854775807)%N -> w_hlog w = Some hl -> parse_reflog hl = Some rs ->
  get_record rs (N.to_nat n) = Some r -> r_id r = Some tid -> forall es,
  snapshot (w_objs w) tid = Some es ->
  (forall q, In q (IndexFacts.paths es) -> restorable w q) ->
  (forall q1 q2, In q1 (IndexFacts.paths es) -> In q2 (IndexFacts.paths es) -> ~ In q1 (ancestors q2)) ->
  forall mixed, let a := head_at n in
  exists tr, let w' := apply_effects tr w in
    step (ACmd e (CReset false mixed true [a])) w = (w', OOk [], tr) /\
    reset_hard_result w tid es w' /\ reset_hard_post w tid es w' /\
    Forall (fun ef => match ef with
                      | ESetRef nm id => nm = w_head w /\ id = tid
                      | EAppendHlog _ | EAppendBlog _ _ | EMkdirAll _ => True
                      | ESetIndex i => i = es
                      | EWriteFile q _ => In q (IndexFacts.paths es)
                      | _ => False
                      end) tr.
Proof. exact JournalReachFacts.reset_hard_total'. Qed.
Print Assumptions C08_reset_soft_total_no_tip_hypothesis.
Print Assumptions C08_reset_mixed_total_no_tip_hypothesis.
Print Assumptions C08_reset_hard_total_no_tip_hypothesis.
