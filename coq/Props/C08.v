(* C08 — reset moves exactly what each mode promises.
   Part 1 (this file so far): the argument.  The theorems are about
   re_resetRegexp as REGENERATED from cmd/reset.go on every run. *)
From Coq Require Import Strings.String Strings.Byte.
From Coq Require Import List NArith.
From Goit Require Import Bytes Regex GoRegex Reflog Repo RegexFacts ReflogFacts.
Import ListNotations.

(* every "HEAD@{<n>}" is accepted and denotes n, for every n (any number of digits) *)
Theorem C08_reset_arg_accepts : forall n,
  reset_arg (str "HEAD@{" ++ dec n ++ str "}") = Some n.
Proof. exact reset_arg_accepts. Qed.

(* and nothing else is accepted: no prefix, no suffix, at least one digit *)
Theorem C08_reset_arg_only : forall a n,
  reset_arg a = Some n ->
  exists ds, a = [x48; x45; x41; x44; x40; x7b] ++ ds ++ [x7d] /\ ds <> [] /\
             forallb is_digit ds = true /\ digits_val ds = n.
Proof. exact reset_arg_only. Qed.

(* position n is resolved by the same function `reflog` prints with; a position
   beyond the journal is refused *)
Theorem C08_position_is_what_reflog_shows : forall rs n r,
  get_record rs n = Some r ->
  nth_error (show_reflog rs) n = Some (short_id (r_id r), n, r_type r, r_msg r).
Proof. exact show_reflog_get_record. Qed.

Theorem C08_out_of_range_refused : forall rs n,
  (n < length rs)%nat <-> exists r, get_record rs n = Some r.
Proof. exact get_record_total. Qed.

Print Assumptions C08_reset_arg_accepts.
Print Assumptions C08_reset_arg_only.
Print Assumptions C08_position_is_what_reflog_shows.
Print Assumptions C08_out_of_range_refused.
