(* C01 — Object store: content addressing and lossless round trip.
   This file only states the property theorems and closes each with [exact]. *)
From Coq Require Import Strings.String Strings.Byte.
From Coq Require Import List NArith ZArith.
From Goit Require Import Bytes Sha1 Obj BytesFacts ObjFacts.
From Goit Require Import World Repo BranchFacts ExactFacts ObjCmdFacts.
From Goit Require Import Bridge.
Import ListNotations.
Local Open Scope N_scope.

(* T0 (tie to the source): every regexp literal of the current Go source denotes
   the same language, with the same anchoring, as the pattern of the model — proved
   by running the verified equivalence checker on SrcRegex.v, which is regenerated
   from /repo on every run (see Bridge.v) *)
Theorem C01_source_patterns_are_the_models : source_patterns_agree.
Proof. exact source_patterns. Qed.

(* T1: what GetObject's decoder makes of "<kind> <len>\0<bytes>" is (kind, bytes),
   for every kind and every byte string (the size guard is int64, 8 EiB) *)
Theorem C01_payload_roundtrip : forall k d,
  lenN d < 2 ^ 63 -> parse_payload (payload k d) = Some (k, d).
Proof. exact payload_roundtrip. Qed.

(* T2: the id is the SHA-1 of '<kind> <len>\0<bytes>' (by definition) and equal
   content maps to the same id; storing then reading returns kind and bytes *)
Theorem C01_id_is_sha1_of_payload : forall k d,
  obj_id k d = sha1 (kind_s k ++ [c_sp] ++ dec (lenN d) ++ [c_nul] ++ d).
Proof. intros k d. unfold obj_id, payload, header. now rewrite <- !app_assoc. Qed.

Theorem C01_get_put : forall st k d,
  lenN d < 2 ^ 63 ->
  get_obj (st_set st (obj_id k d) (payload k d)) (obj_id k d) = Some (k, d).
Proof. exact get_put. Qed.

(* T3: frame — storing an object does not change what any other id returns *)
Theorem C01_get_frame : forall st k d id,
  id <> obj_id k d ->
  get_obj (st_set st (obj_id k d) (payload k d)) id = get_obj st id.
Proof. exact get_frame. Qed.

(* T4: storing an object again never changes or damages what is stored *)
Theorem C01_put_again : forall st k d id,
  get_obj (st_set (st_set st (obj_id k d) (payload k d)) (obj_id k d) (payload k d)) id
  = get_obj (st_set st (obj_id k d) (payload k d)) id.
Proof. exact put_twice_get. Qed.

(* T5: over any history of stores without a SHA-1 collision among the files
   involved, everything ever stored is returned with its kind and bytes, and
   everything retrievable before stays retrievable and unchanged *)
Theorem C01_history_retrievable : forall st l,
  no_collision st l -> Forall (fun kd => lenN (snd kd) < 2 ^ 63) l ->
  forall k d, In (k, d) l -> get_obj (put_all st l) (obj_id k d) = Some (k, d).
Proof. exact history_retrievable. Qed.

Theorem C01_history_preserves : forall st l,
  no_collision st l ->
  forall id kd, get_obj st id = Some kd -> get_obj (put_all st l) id = Some kd.
Proof. exact history_preserves. Qed.

(* T6: a file stored under the wrong name is never returned *)
Theorem C01_get_integrity : forall st id k d,
  get_obj st id = Some (k, d) ->
  exists p, st_lookup st id = Some p /\ sha1 p = id /\ parse_payload p = Some (k, d).
Proof. exact get_obj_integrity. Qed.

(* the hypotheses of T5 are satisfiable *)
Example C01_nonvacuous : no_collision ex_st ex_l /\ Forall (fun kd => lenN (snd kd) < 2 ^ 63) ex_l.
Proof. exact hypotheses_satisfiable. Qed.


(* ---------- Part 2: the commands ---------- *)
(* `add` of a file then `cat-file` / `hash-object`: for every byte string (empty,
   NULs, header-like ...) the blob comes back with kind blob and exactly the
   file's bytes, and hash-object prints the id under which it was stored *)
Theorem C01_add_then_cat_file : forall e e1 e2 e3 w x p data,
  w_inited w = true -> ctx_of w = Some x -> wt_stat w p = SFile -> ignored w (x_pats x) p = false ->
  am_get (w_files w) p = Some data -> lenN data < 2 ^ 63 ->
  (staged w p = Some (blob_id data) -> get_obj (w_objs w) (blob_id data) = Some (KBlob, data)) ->
  exists w' tr, step (ACmd e (CAdd [p])) w = (w', OOk [], tr) /\
    (w_coll w' = false ->
     step (ACmd e1 (CCatFile false true [hex (blob_id data)])) w' = (w', OOk [data], []) /\
     step (ACmd e2 (CCatFile true false [hex (blob_id data)])) w' = (w', OOk [kind_s KBlob], []) /\
     step (ACmd e3 (CHashObject [p])) w' = (w', OOk [hex (blob_id data)], [])).
Proof. exact step_add_then_cat_file. Qed.

(* the blob id is Git's: SHA-1 of "blob <len>\0<bytes>" *)
Theorem C01_blob_id_is_gits : forall data,
  blob_id data = sha1 (str "blob "%string ++ dec (lenN data) ++ [c_nul] ++ data).
Proof. exact blob_id_is_git_id. Qed.

(* whatever the store contains, cat-file -p only ever prints the content of a
   file that hashes to the requested id *)
Theorem C01_cat_file_integrity : forall t a s out s',
  cmd_cat_file t true [a] s = (Ok out, s') ->
  s' = s /\ t = false /\
  exists id k d payl, read_hash a = Some id /\ get_obj (w_objs (ms_w s)) id = Some (k, d) /\
    st_lookup (w_objs (ms_w s)) id = Some payl /\ sha1 payl = id /\ parse_payload payl = Some (k, d) /\
    (k <> KTree -> out = [d]).
Proof. exact cat_file_integrity. Qed.

(* over every history of commands and edits an object that can be read stays
   readable with the same kind and bytes (absent a flagged collision) *)
Theorem C01_objects_never_lost : forall h w id kd,
  get_obj (w_objs w) id = Some kd -> w_coll (run h w) = false -> get_obj (w_objs (run h w)) id = Some kd.
Proof. exact objects_never_lost. Qed.

Print Assumptions C01_payload_roundtrip.
Print Assumptions C01_id_is_sha1_of_payload.
Print Assumptions C01_get_put.
Print Assumptions C01_get_frame.
Print Assumptions C01_put_again.
Print Assumptions C01_history_retrievable.
Print Assumptions C01_history_preserves.
Print Assumptions C01_get_integrity.
Print Assumptions C01_add_then_cat_file.
Print Assumptions C01_blob_id_is_gits.
Print Assumptions C01_cat_file_integrity.
Print Assumptions C01_objects_never_lost.
Print Assumptions C01_source_patterns_are_the_models.
