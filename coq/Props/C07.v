(* C07 — Staged-changes report is exact, and committing nothing is refused. *)
From Coq Require Import Strings.String Strings.Byte.
From Coq Require Import List NArith.
From Goit Require Import Bytes Obj Tree Index IndexFacts TreeFacts DiffFacts.
From Goit Require Import Commit World Repo Inv SnapshotFacts.
Import ListNotations.

(* T1: the comparison of the staging area with the HEAD tree reports exactly
   the set differences, each with the right kind, and nothing else.  [its] is
   the HEAD tree as a pure datatype, [flat_items [] its] the HEAD snapshot. *)
Theorem C07_diff_exact : forall es its,
  Canonical es -> Forall wf_item its -> Canonical (flat_items [] its) ->
  forall k p,
  In (k, p) (diff_with_tree es (map node_of its)) <->
    (k = DDeleted /\ In p (map e_path (flat_items [] its)) /\ ~ In p (map e_path es)) \/
    (k = DModified /\ exists e h, In e es /\ In h (flat_items [] its) /\ e_path e = p /\ e_path h = p /\ e_id e <> e_id h) \/
    (k = DNew /\ In p (map e_path es) /\ ~ In p (map e_path (flat_items [] its))).
Proof. exact diff_exact. Qed.

(* T2: the report is empty — and `commit` therefore refused as "nothing to
   commit" — exactly when the staging area equals the HEAD snapshot *)
Theorem C07_nothing_to_commit_iff : forall es its,
  Canonical es -> Forall wf_item its -> Canonical (flat_items [] its) ->
  (diff_with_tree es (map node_of its) = [] <-> es = flat_items [] its).
Proof. exact diff_nil_eq. Qed.

(* T3: immediately after a commit of the staging area es0 the report is empty,
   for every sibling name set (test/, test.c, test-data ...) *)
Theorem C07_empty_after_commit : forall es0 its,
  Canonical es0 -> Forall valid_entry es0 -> group_top es0 = Some its ->
  diff_with_tree es0 (map node_of its) = [].
Proof. exact diff_after_commit. Qed.

(* T4: conversely any staged difference gives a non-empty report *)
Theorem C07_difference_is_reported : forall es0 its es,
  Canonical es0 -> Forall valid_entry es0 -> group_top es0 = Some its -> Canonical es ->
  diff_with_tree es (map node_of its) = [] -> es = es0.
Proof. exact diff_nil_after_commit_inv. Qed.

(* the lookup used for "new file": found as a file iff the path is in the snapshot *)
Theorem C07_get_node_leaf_iff : forall its,
  Forall wf_item its -> Canonical (flat_items [] its) ->
  forall p, (exists n, get_node (map node_of its) p = Some n /\ is_leaf n = true) <-> In p (paths_of its).
Proof. exact get_node_leaf_iff. Qed.


(* ---------- Part 2: the commit gate on reachable worlds ---------- *)
(* on a world satisfying the history invariants the gate's test is exactly
   "staging area = HEAD snapshot" *)
Theorem C07_gate_is_snapshot_equality : forall w hid cm d ns,
  GoodW w -> get_commit (w_objs w) hid = Some cm -> get_kind (w_objs w) KTree (c_tree cm) = Some d ->
  walk_tree (S (length (w_objs w))) (w_objs w) d = Some ns ->
  (diff_with_tree (idx_of w) ns = [] <-> snapshot (w_objs w) hid = Some (idx_of w)).
Proof. exact commit_guard. Qed.

(* a commit issued while the staging area equals the HEAD snapshot is refused,
   creates nothing and moves nothing: the world is unchanged, the trace empty *)
Theorem C07_commit_nothing_refused : forall e msg w hid,
  GoodW w -> am_get (w_refs w) (w_head w) = Some hid -> snapshot (w_objs w) hid = Some (idx_of w) ->
  step (ACmd e (CCommit msg)) w = (w, OErr, []).
Proof. exact commit_nothing_refused. Qed.

Print Assumptions C07_diff_exact.
Print Assumptions C07_nothing_to_commit_iff.
Print Assumptions C07_empty_after_commit.
Print Assumptions C07_difference_is_reported.
Print Assumptions C07_get_node_leaf_iff.
Print Assumptions C07_gate_is_snapshot_equality.
Print Assumptions C07_commit_nothing_refused.
