(* C07 — Staged-changes report is exact, and committing nothing is refused. *)
From Coq Require Import Strings.String Strings.Byte.
From Coq Require Import List NArith.
From Goit Require Import Bytes Obj Tree Index IndexFacts TreeFacts DiffFacts.
From Goit Require Import Commit World Repo Inv SnapshotFacts.
From Goit Require Import Config CommitFacts BranchFacts ExactFacts CommitCmdFacts GateFacts.
From Goit Require Import Bridge.
From Goit Require HeadFacts.
From Goit Require GateReachFacts.
Import ListNotations.

(* T0 (tie to the source): every regexp literal of the current Go source denotes
   the same language, with the same anchoring, as the pattern of the model — proved
   by running the verified equivalence checker on SrcRegex.v, which is regenerated
   from /repo on every run (see Bridge.v) *)
Theorem C07_source_patterns_are_the_models : source_patterns_agree.
Proof. exact source_patterns. Qed.

(* T1: the comparison of the staging area with the HEAD tree reports exactly
   the set differences, each with the right kind, and nothing else.  [its] is
   the HEAD tree as a pure datatype, [flat_items [] its] the HEAD snapshot. *)
Theorem C07_diff_exact : forall es its,
  Canonical es -> Forall wf_item its -> Canonical (flat_items [] its) ->
  forall k p,
  In (k, p) (diff_with_tree es (map node_of its)) <->
    (k = DDeleted /\ In p (map e_path (flat_items [] its)) /\ ~ In p (map e_path es)) \/
    (k = DModified /\ exists e h, In e es /\ In h (flat_items [] its) /\ e_path e = p /\ e_path h = p /\ e_id e <> e_id h) \/
    (k = DNew /\ In p (map e_path es) /\ ~ In p (map e_path (flat_items [] its))).
Proof. exact diff_exact. Qed.

(* T2: the report is empty — and `commit` therefore refused as "nothing to
   commit" — exactly when the staging area equals the HEAD snapshot *)
Theorem C07_nothing_to_commit_iff : forall es its,
  Canonical es -> Forall wf_item its -> Canonical (flat_items [] its) ->
  (diff_with_tree es (map node_of its) = [] <-> es = flat_items [] its).
Proof. exact diff_nil_eq. Qed.

(* T3: immediately after a commit of the staging area es0 the report is empty,
   for every sibling name set (test/, test.c, test-data ...) *)
Theorem C07_empty_after_commit : forall es0 its,
  Canonical es0 -> Forall valid_entry es0 -> group_top es0 = Some its ->
  diff_with_tree es0 (map node_of its) = [].
Proof. exact diff_after_commit. Qed.

(* T4: conversely any staged difference gives a non-empty report *)
Theorem C07_difference_is_reported : forall es0 its es,
  Canonical es0 -> Forall valid_entry es0 -> group_top es0 = Some its -> Canonical es ->
  diff_with_tree es (map node_of its) = [] -> es = es0.
Proof. exact diff_nil_after_commit_inv. Qed.

(* the lookup used for "new file": found as a file iff the path is in the snapshot *)
Theorem C07_get_node_leaf_iff : forall its,
  Forall wf_item its -> Canonical (flat_items [] its) ->
  forall p, (exists n, get_node (map node_of its) p = Some n /\ is_leaf n = true) <-> In p (paths_of its).
Proof. exact get_node_leaf_iff. Qed.


(* ---------- Part 2: the commit gate on reachable worlds ---------- *)
(* on a world satisfying the history invariants the gate's test is exactly
   "staging area = HEAD snapshot" *)
Theorem C07_gate_is_snapshot_equality : forall w hid cm d ns,
  GoodW w -> get_commit (w_objs w) hid = Some cm -> get_kind (w_objs w) KTree (c_tree cm) = Some d ->
  walk_tree (S (length (w_objs w))) (w_objs w) d = Some ns ->
  (diff_with_tree (idx_of w) ns = [] <-> snapshot (w_objs w) hid = Some (idx_of w)).
Proof. exact commit_guard. Qed.

(* a commit issued while the staging area equals the HEAD snapshot is refused,
   creates nothing and moves nothing: the world is unchanged, the trace empty *)
Theorem C07_commit_nothing_refused : forall e msg w hid,
  GoodW w -> am_get (w_refs w) (w_head w) = Some hid -> snapshot (w_objs w) hid = Some (idx_of w) ->
  step (ACmd e (CCommit msg)) w = (w, OErr, []).
Proof. exact commit_nothing_refused. Qed.

(* ---------- Part 3: over histories ---------- *)
(* "Conversely, any staged difference makes commit succeed": on every reachable
   repository (no flagged collision, no giant object) whose staging area differs
   from the snapshot of the commit HEAD resolves to, with an identity in the
   domain of C12 and any message, `commit` returns success and installs exactly
   the commit of C02_commit_spec *)
Theorem C07_commit_succeeds_on_any_staged_difference : forall w e msg c hid s,
  Reachable w -> w_coll w = false -> SmallStore (w_objs w) ->
  ctx_of w = Some c -> tip_of w = Some hid -> snapshot (w_objs w) hid = Some s ->
  s <> idx_of w ->
  user_set (x_l c) (x_g c) = true ->
  sign_ok (user_name (x_l c) (x_g c)) (user_email (x_l c) (x_g c)) (e_time e) (e_off e) ->
  exists root subs, write_tree_top (idx_of w) = Some (root, subs) /\
    step (ACmd e (CCommit msg)) w
    = (after_commit e c msg w root subs, OOk [], do_commit_trace e c msg w root subs).
Proof. exact history_commit_succeeds. Qed.

(* the very first commit: any non-empty staging area is a difference (that HEAD's branch name
   is a valid one is an invariant of every reachable repository: HeadFacts.reachable_names_valid) *)
Theorem C07_first_commit_succeeds : forall w e msg c,
  Reachable w -> ctx_of w = Some c -> w_refs w = [] -> idx_of w <> [] ->
  user_set (x_l c) (x_g c) = true ->
  sign_ok (user_name (x_l c) (x_g c)) (user_email (x_l c) (x_g c)) (e_time e) (e_off e) ->
  exists root subs, write_tree_top (idx_of w) = Some (root, subs) /\
    step (ACmd e (CCommit msg)) w
    = (after_commit e c msg w root subs, OOk [], do_commit_trace e c msg w root subs).
Proof. exact HeadFacts.history_first_commit_succeeds'. Qed.

(* exactly: commit succeeds iff an identity is configured and the staging area
   differs from the HEAD snapshot *)
Theorem C07_commit_succeeds_iff : forall e msg w c hid s,
  GoodW w -> w_inited w = true -> ctx_of w = Some c -> tip_of w = Some hid ->
  snapshot (w_objs w) hid = Some s ->
  (forall root subs, write_tree_top (idx_of w) = Some (root, subs) ->
     parse_commit (commit_data e c msg w root) <> None) ->
  ((exists out, snd (fst (step (ACmd e (CCommit msg)) w)) = OOk out) <->
   user_set (x_l c) (x_g c) = true /\ s <> idx_of w).
Proof. exact commit_succeeds_iff. Qed.

(* `status` on every reachable repository: the world is unchanged, and the
   "Changes to be committed" lines are exactly the paths whose staged entry
   differs from the HEAD snapshot, each once, each with the right kind *)
Theorem C07_status_staged_section_exact : forall w e c hid s,
  Reachable w -> w_coll w = false -> SmallStore (w_objs w) ->
  ctx_of w = Some c -> tip_of w = Some hid -> snapshot (w_objs w) hid = Some s ->
  exists ns, head_nodes c w = Some ns /\ flatten [] ns = s /\
    let out := staged_lines w ns ++ unstaged_lines w c in
    step (ACmd e CStatus) w = (w, OOk out, []) /\
    filter is_staged_line out
    = map (fun d => dkind_tag (fst d) ++ snd d) (diff_with_tree (idx_of w) ns) /\
    (forall k p, In (dkind_tag k ++ p) out <-> classify (stg s p) (staged w p) = Some k) /\
    (forall p, (exists k, In (dkind_tag k ++ p) out) <-> staged w p <> stg s p) /\
    NoDup (map snd (diff_with_tree (idx_of w) ns)).
Proof. exact history_status_exact. Qed.

(* "Immediately after a successful commit that list is empty" — after ANY
   history, and a second commit is then refused with the world unchanged *)
Theorem C07_status_after_commit_clean : forall h e msg w' out tr,
  Forall action_ok h ->
  step (ACmd e (CCommit msg)) (run h w_empty) = (w', OOk out, tr) ->
  w_coll w' = false -> SmallStore (w_objs w') ->
  Reachable w' /\
  exists c' cid ns', ctx_of w' = Some c' /\ tip_of w' = Some cid /\
    snapshot (w_objs w') cid = Some (idx_of w') /\
    head_nodes c' w' = Some ns' /\ diff_with_tree (idx_of w') ns' = [] /\
    (forall e', step (ACmd e' CStatus) w' = (w', OOk (unstaged_lines w' c'), [])) /\
    (forall l, In l (unstaged_lines w' c') -> is_staged_line l = false) /\
    (forall e' msg', step (ACmd e' (CCommit msg')) w' = (w', OErr, [])).
Proof. exact history_status_after_commit_clean. Qed.


Print Assumptions C07_diff_exact.
Print Assumptions C07_nothing_to_commit_iff.
Print Assumptions C07_empty_after_commit.
Print Assumptions C07_difference_is_reported.
Print Assumptions C07_get_node_leaf_iff.
Print Assumptions C07_gate_is_snapshot_equality.
Print Assumptions C07_commit_nothing_refused.
Print Assumptions C07_commit_succeeds_on_any_staged_difference.
Print Assumptions C07_first_commit_succeeds.
Print Assumptions C07_commit_succeeds_iff.
Print Assumptions C07_status_staged_section_exact.
Print Assumptions C07_status_after_commit_clean.
Print Assumptions C07_source_patterns_are_the_models.

(* on every reachable repository, with no hypothesis on the tip, its snapshot or the commit text
   (head_snapshot w = the snapshot of the current branch's commit, [] before the first commit): *)
Theorem C07_commit_succeeds_iff_on_every_reachable_repository : forall e msg w c,
  Reachable w -> w_coll w = false -> SmallStore (w_objs w) ->
  ctx_of w = Some c ->
  sign_ok (user_name (x_l c) (x_g c)) (user_email (x_l c) (x_g c)) (e_time e) (e_off e) ->
  ((exists out, snd (fst (step (ACmd e (CCommit msg)) w)) = OOk out) <->
   user_set (x_l c) (x_g c) = true /\ GateReachFacts.head_snapshot w <> idx_of w).
Proof. exact GateReachFacts.reachable_commit_succeeds_iff. Qed.

Theorem C07_commit_succeeds_on_every_reachable_repository : forall w e msg c,
  Reachable w -> w_coll w = false -> SmallStore (w_objs w) ->
  ctx_of w = Some c ->
  GateReachFacts.head_snapshot w <> idx_of w ->
  user_set (x_l c) (x_g c) = true ->
  sign_ok (user_name (x_l c) (x_g c)) (user_email (x_l c) (x_g c)) (e_time e) (e_off e) ->
  exists root subs, write_tree_top (idx_of w) = Some (root, subs) /\
    step (ACmd e (CCommit msg)) w
    = (after_commit e c msg w root subs, OOk [], do_commit_trace e c msg w root subs).
Proof. exact GateReachFacts.reachable_commit_succeeds. Qed.
Print Assumptions C07_commit_succeeds_iff_on_every_reachable_repository.
Print Assumptions C07_commit_succeeds_on_every_reachable_repository.
