(* C20 — Configuration round trip and precedence. *)
From Coq Require Import Strings.String Strings.Byte.
From Coq Require Import List NArith Permutation.
From Goit Require Import Bytes Config ConfigFacts.
From Goit Require Import World Repo BranchFacts ConfigCmdFacts.
From Goit Require Import Bridge.
From Goit Require Import Inv.
From Goit Require CtxFacts PersistFacts CommitFacts SnapshotFacts.
Import ListNotations.

(* T0 (tie to the source): every regexp literal of the current Go source denotes
   the same language, with the same anchoring, as the pattern of the model — proved
   by running the verified equivalence checker on SrcRegex.v, which is regenerated
   from /repo on every run (see Bridge.v) *)
Theorem C20_source_patterns_are_the_models : source_patterns_agree.
Proof. exact source_patterns. Qed.

(* T1: whatever order Go's map iteration writes sections and keys in, the next
   process loads the same mapping *)
Theorem C20_roundtrip_any_order : forall c c1,
  wf_cfg c -> cfg_perm c c1 -> exists c', cfg_load (cfg_render c1) = Some c' /\ cfg_equiv c c'.
Proof. exact cfg_roundtrip_perm. Qed.

(* T2: a value set with `config` is the value later commands read, unchanged
   (values may contain '=', '[', ']', '#', quotes, inner blanks, non-ASCII), and
   setting one key never loses or alters another key or section *)
Theorem C20_set_then_load : forall c s k v c1,
  wf_cfg c -> ok_sec s -> ok_key k -> ok_val v -> cfg_perm (cfg_add c s k v) c1 ->
  exists c', cfg_load (cfg_render c1) = Some c' /\ cfg_lookup c' s k = Some v /\
    (forall s' k', (s', k') <> (s, k) -> cfg_lookup c' s' k' = cfg_lookup c s' k') /\
    (forall s', sec_get c s' <> None -> sec_get c' s' <> None).
Proof. exact set_then_load_perm. Qed.

(* T3: a local setting overrides the global one; the global one is used when
   there is no local one *)
Theorem C20_local_first : forall l g key v,
  cfg_lookup l s_user key = Some v -> ident_get l g key = Some v.
Proof. exact ident_get_local_first. Qed.

Theorem C20_global_fallback : forall l g key,
  cfg_lookup l s_user key = None -> ident_get l g key = cfg_lookup g s_user key.
Proof. exact ident_get_global_fallback. Qed.

(* T4: commit's gate: both a name and an e-mail must be found *)
Theorem C20_user_set_iff : forall l g,
  user_set l g = true <->
  (exists n, ident_get l g (str "name") = Some n) /\ (exists e, ident_get l g (str "email") = Some e).
Proof. exact user_set_iff. Qed.

Example C20_nonvacuous : wf_cfg ex_cfg.
Proof. exact ex_cfg_wf. Qed.


(* ---------- Part 2: the commands ---------- *)
(* `config sec.key value` (local): exactly one write of .goit/config; the next
   process loads a config in which sec.key = value, every other key and section
   is unchanged, nothing else in the world changes (the global file included) *)
Theorem C20_config_local_spec : forall e w l key value sec k,
  w_inited w = true -> rest_loads w -> cfg_of (w_gcfg w) <> None -> w_lcfg w = CfgFile (Some l) -> wf_cfg l ->
  split_all x2e key = [sec; k] -> ok_sec sec -> ok_key k -> ok_val value ->
  let l' := cfg_add l sec k value in
  step (ACmd e (CConfig false [key; value])) w
    = (set_lcfg w (CfgFile (Some l')), OOk [], [ESetLcfg (CfgFile (Some l'))]) /\
  cfg_of (w_lcfg (set_lcfg w (CfgFile (Some l')))) = Some l' /\ cfg_updated l l' sec k value /\
  w_gcfg (set_lcfg w (CfgFile (Some l'))) = w_gcfg w /\
  config_post w (CfgFile (Some l')) (w_gcfg w) (set_lcfg w (CfgFile (Some l'))).
Proof. exact config_local_spec. Qed.

(* whatever any history does, a config file that loads is well formed (distinct
   sections and keys, no newline/TAB, trimmed) *)
Theorem C20_configs_well_formed_on_every_history : forall h, WfCfg (run h w_empty).
Proof. exact WfCfg_run. Qed.

(* a successful commit records the effective identity (local over global) in
   both the author and the committer line *)
Theorem C20_commit_records_effective_identity : forall e w x msg w' out tr,
  w_inited w = true -> ctx_of w = Some x -> step (ACmd e (CCommit msg)) w = (w', OOk out, tr) ->
  user_set (x_l x) (x_g x) = true /\
  exists root subs from,
    Tree.write_tree_top (idx_of w) = Some (root, subs) /\
    let sg := Commit.sign_string (user_name (x_l x) (x_g x)) (user_email (x_l x) (x_g x)) (e_time e) (e_off e) in
    let data := Commit.commit_text (Obj.obj_id Obj.KTree root) (commit_parent w) sg sg msg in
    let cid := Obj.obj_id Obj.KCommit data in
    tr = commit_trace e x msg w root subs from /\ In (EPutObj cid (Obj.payload Obj.KCommit data)) tr /\
    Commit.parse_commit data <> None /\ w_head w' = w_head w /\
    am_get (w_refs w') (w_head w') = Some cid /\ Obj.st_lookup (w_objs w') cid = Some (Obj.payload Obj.KCommit data).
Proof. exact commit_records_identity. Qed.

(* on every reachable repository both configuration files load, as well-formed
   configurations: `config` refuses the arguments (an empty section name, a
   line feed in "<section>.<key>" or in the value) that would write a file no
   command can load afterwards *)
Theorem C20_config_files_always_load : forall w, Reachable w -> ConfigCmdFacts.CfgGood w.
Proof. exact CtxFacts.reachable_cfgs_load. Qed.

(* the refusals (exit 1, nothing written, the world unchanged): in general, and
   by computation for `init; config .k v`, `init; config user.name "a\nb"`,
   `init; config "us\ner.name" x`; `config user.name "ok name"` still works *)
Theorem C20_hostile_config_refused :
  (forall e g key value w, In c_nl value -> step (ACmd e (CConfig g [key; value])) w = (w, OErr, [])) /\
  (forall e g key value w, In c_nl key -> step (ACmd e (CConfig g [key; value])) w = (w, OErr, [])) /\
  (forall e g k value w, step (ACmd e (CConfig g [x2e :: k; value])) w = (w, OErr, [])) /\
  (forall c, In c [CConfig false [str ".k"; str "v"];
                   CConfig false [str "user.name"; [x61; x0a; x62]];
                   CConfig false [(str "us" ++ [x0a] ++ str "er.name")%list; str "x"]] ->
     step (ACmd env0 c) (run [ACmd env0 CInit] w_empty) = (run [ACmd env0 CInit] w_empty, OErr, []) /\
     run [ACmd env0 CInit; ACmd env0 c] w_empty = run [ACmd env0 CInit] w_empty) /\
  w_lcfg (run [ACmd env0 CInit; ACmd env0 (CConfig false [str "user.name"; str "ok name"])] w_empty)
    = CfgFile (Some [(str "user", [(str "name", str "ok name")])]).
Proof. exact hostile_config_refused_summary. Qed.

(* ---------- Part 3: over histories, for EVERY accepted `config` call ---------- *)
(* `config` refuses (exit 1, nothing written or created, in every world) a key
   part with an '=' or a TAB in it or with white space around it: the loader
   (tabs removed, line split at the first '=', both sides trimmed) would read
   it back as ANOTHER key, whose value the call would overwrite *)
Theorem C20_ambiguous_key_refused : forall e g key value sec k w,
  split_all x2e key = [sec; k] ->
  In x3d k \/ In c_tab k \/ trim_space k <> k ->
  step (ACmd e (CConfig g [key; value])) w = (w, OErr, []).
Proof. exact config_ambiguous_key_refused. Qed.

(* hence the key of an accepted call is read back as itself *)
Theorem C20_accepted_key_is_read_back_as_itself : forall e glob key v w0 w1 out tr sec k,
  split_all x2e key = [sec; k] ->
  step (ACmd e (CConfig glob [key; v])) w0 = (w1, OOk out, tr) ->
  ok_key k /\ PersistFacts.eff_key k v = k.
Proof. exact PersistFacts.accepted_config_key_ok. Qed.

(* setting one key never loses or alters another key or section of the same
   file, and never touches the other file: for EVERY `config` call answered Ok
   on a reachable repository, whatever its arguments.  [setting glob w s k] is
   what the next process finds under <s>.<k> in ~/.goitconfig (glob = true) or
   .goit/config; the value found under the key just set is the value given,
   as the loader reads it back (no final CR, no TABs, no white space around) *)
Theorem C20_one_key_never_alters_another : forall e glob key v w0 w1 out tr sec k,
  Reachable w0 -> split_all x2e key = [sec; k] ->
  step (ACmd e (CConfig glob [key; v])) w0 = (w1, OOk out, tr) ->
  (forall s' k', (s', k') <> (sec, k) ->
     PersistFacts.setting glob w1 s' k' = PersistFacts.setting glob w0 s' k') /\
  PersistFacts.setting glob w1 sec k = Some (PersistFacts.eff_val k v) /\
  PersistFacts.eff_val k v = trim_space (remove_tabs (drop_cr v)) /\
  (forall s', PersistFacts.has_section glob w0 s' -> PersistFacts.has_section glob w1 s') /\
  PersistFacts.file_of (negb glob) w1 = PersistFacts.file_of (negb glob) w0.
Proof. exact PersistFacts.config_never_alters_another_key. Qed.

(* a value of the C20 domain is read back as it was given *)
Theorem C20_value_read_back : forall k v, ok_key k -> ok_val v -> PersistFacts.eff_val k v = v.
Proof. exact PersistFacts.eff_val_ok. Qed.

(* an accepted setting is still there after ANY later history (commands,
   edits, refused calls) that does not set the same key of the same file again:
   [no_reconfig glob sec k h] says that no `config` call of [h] whose arguments
   pass the guard of the command names file [glob], section [sec], key [k] *)
Theorem C20_setting_persists : forall e glob key v sec k w0 w1 out tr h,
  Reachable w0 -> split_all x2e key = [sec; k] ->
  step (ACmd e (CConfig glob [key; v])) w0 = (w1, OOk out, tr) ->
  PersistFacts.no_reconfig glob sec k h = true ->
  PersistFacts.setting glob (run h w1) sec k = Some (PersistFacts.eff_val k v).
Proof. exact PersistFacts.setting_persists. Qed.

(* ... and every other key of either file is, after the call and that history,
   what it was before the call, unless the history sets it *)
Theorem C20_other_settings_persist : forall e glob key v sec k w0 w1 out tr h g' s' k',
  Reachable w0 -> split_all x2e key = [sec; k] ->
  step (ACmd e (CConfig glob [key; v])) w0 = (w1, OOk out, tr) ->
  (g', s', k') <> (glob, sec, k) ->
  PersistFacts.no_reconfig g' s' k' h = true ->
  PersistFacts.setting g' (run h w1) s' k' = PersistFacts.setting g' w0 s' k'.
Proof. exact PersistFacts.other_settings_persist. Qed.

(* the identity later commands work with is the LAST one configured: after an
   accepted local `config user.<key> <v>` and any history without another
   local `config user.<key>` (global calls are unrestricted: local wins), the
   context of the next command yields that value under <key>; after an
   accepted global one, in a repository without a local user.<key>, and any
   history with neither a global nor a local `config user.<key>`, likewise *)
Theorem C20_identity_is_the_last_configured :
  (forall e fullkey key v w0 w1 out tr h x,
     Reachable w0 -> split_all x2e fullkey = [s_user; key] ->
     step (ACmd e (CConfig false [fullkey; v])) w0 = (w1, OOk out, tr) ->
     PersistFacts.no_reconfig false s_user key h = true ->
     ctx_of (run h w1) = Some x ->
     ident_get (x_l x) (x_g x) key = Some (trim_space (remove_tabs (drop_cr v)))) /\
  (forall e fullkey key v w0 w1 out tr h x,
     Reachable w0 -> split_all x2e fullkey = [s_user; key] ->
     PersistFacts.setting false w0 s_user key = None ->
     step (ACmd e (CConfig true [fullkey; v])) w0 = (w1, OOk out, tr) ->
     PersistFacts.no_reconfig true s_user key h = true ->
     PersistFacts.no_reconfig false s_user key h = true ->
     ctx_of (run h w1) = Some x ->
     ident_get (x_l x) (x_g x) key = Some (trim_space (remove_tabs (drop_cr v)))).
Proof.
  exact (conj PersistFacts.local_identity_persists_any PersistFacts.global_identity_persists_any).
Qed.

(* ... and it is the identity `log` shows: `config user.name N`, a history,
   `config user.email E`, a history, `commit -m msg`, with no other local
   `config user.name` / `config user.email` in between: the commit succeeds and
   `log` shows N, E, the instant and the offset of the `commit` call and
   exactly [msg], at once and after any later history
   ([PersistFacts.commit_logged]) *)
Theorem C20_log_shows_the_configured_identity :
  forall eN N eE E w0 w1 w2 outN trN outE trE h1 h2 e msg c,
  Reachable w0 -> ok_val N -> ok_val E ->
  step (ACmd eN (CConfig false [str "user.name"; N])) w0 = (w1, OOk outN, trN) ->
  Forall action_ok h1 -> PersistFacts.no_reconfig false s_user PersistFacts.k_name h1 = true ->
  step (ACmd eE (CConfig false [str "user.email"; E])) (run h1 w1) = (w2, OOk outE, trE) ->
  Forall action_ok h2 ->
  PersistFacts.no_reconfig false s_user PersistFacts.k_name h2 = true ->
  PersistFacts.no_reconfig false s_user PersistFacts.k_email h2 = true ->
  ctx_of (run h2 w2) = Some c -> CommitCmdFacts.gate_open (run h2 w2) c ->
  CommitFacts.sign_ok N E (e_time e) (e_off e) ->
  w_coll (step_w (ACmd e (CCommit msg)) (run h2 w2)) = false ->
  SnapshotFacts.SmallStore (w_objs (step_w (ACmd e (CCommit msg)) (run h2 w2))) ->
  user_name (x_l c) (x_g c) = N /\ user_email (x_l c) (x_g c) = E /\
  PersistFacts.commit_logged e msg (run h2 w2) c N E.
Proof. exact PersistFacts.log_shows_configured_identity. Qed.

Print Assumptions C20_config_files_always_load.
Print Assumptions C20_hostile_config_refused.
Print Assumptions C20_ambiguous_key_refused.
Print Assumptions C20_accepted_key_is_read_back_as_itself.
Print Assumptions C20_one_key_never_alters_another.
Print Assumptions C20_value_read_back.
Print Assumptions C20_setting_persists.
Print Assumptions C20_other_settings_persist.
Print Assumptions C20_identity_is_the_last_configured.
Print Assumptions C20_log_shows_the_configured_identity.
Print Assumptions C20_roundtrip_any_order.
Print Assumptions C20_set_then_load.
Print Assumptions C20_local_first.
Print Assumptions C20_global_fallback.
Print Assumptions C20_user_set_iff.
Print Assumptions C20_config_local_spec.
Print Assumptions C20_configs_well_formed_on_every_history.
Print Assumptions C20_commit_records_effective_identity.
Print Assumptions C20_source_patterns_are_the_models.
