(* C20 — Configuration round trip and precedence. *)
From Coq Require Import Strings.String Strings.Byte.
From Coq Require Import List NArith Permutation.
From Goit Require Import Bytes Config ConfigFacts.
Import ListNotations.

(* T1: whatever order Go's map iteration writes sections and keys in, the next
   process loads the same mapping *)
Theorem C20_roundtrip_any_order : forall c c1,
  wf_cfg c -> cfg_perm c c1 -> exists c', cfg_load (cfg_render c1) = Some c' /\ cfg_equiv c c'.
Proof. exact cfg_roundtrip_perm. Qed.

(* T2: a value set with `config` is the value later commands read, unchanged
   (values may contain '=', '[', ']', '#', quotes, inner blanks, non-ASCII), and
   setting one key never loses or alters another key or section *)
Theorem C20_set_then_load : forall c s k v c1,
  wf_cfg c -> ok_sec s -> ok_key k -> ok_val v -> cfg_perm (cfg_add c s k v) c1 ->
  exists c', cfg_load (cfg_render c1) = Some c' /\ cfg_lookup c' s k = Some v /\
    (forall s' k', (s', k') <> (s, k) -> cfg_lookup c' s' k' = cfg_lookup c s' k') /\
    (forall s', sec_get c s' <> None -> sec_get c' s' <> None).
Proof. exact set_then_load_perm. Qed.

(* T3: a local setting overrides the global one; the global one is used when
   there is no local one *)
Theorem C20_local_first : forall l g key v,
  cfg_lookup l s_user key = Some v -> ident_get l g key = Some v.
Proof. exact ident_get_local_first. Qed.

Theorem C20_global_fallback : forall l g key,
  cfg_lookup l s_user key = None -> ident_get l g key = cfg_lookup g s_user key.
Proof. exact ident_get_global_fallback. Qed.

(* T4: commit's gate: both a name and an e-mail must be found *)
Theorem C20_user_set_iff : forall l g,
  user_set l g = true <->
  (exists n, ident_get l g (str "name") = Some n) /\ (exists e, ident_get l g (str "email") = Some e).
Proof. exact user_set_iff. Qed.

Example C20_nonvacuous : wf_cfg ex_cfg.
Proof. exact ex_cfg_wf. Qed.

Print Assumptions C20_roundtrip_any_order.
Print Assumptions C20_set_then_load.
Print Assumptions C20_local_first.
Print Assumptions C20_global_fallback.
Print Assumptions C20_user_set_iff.
