(* C03 — Connectivity: the repository never references something that is not there.
   Part 1: no command deletes a stored object or changes its content; a file is
   only ever returned under the SHA-1 of its content.  Part 2 (the Connected
   invariant over all histories) is appended when ConnectedFacts.v is built. *)
From Coq Require Import Strings.String Strings.Byte.
From Coq Require Import List NArith.
From Goit Require Import Bytes Sha1 Obj World Repo ObjFacts MonadFacts.
From Goit Require Import Tree Index Commit Inv ConnectedFacts.
From Goit Require Import Bridge.
From Goit Require Import Refs BranchFacts.
From Goit Require HeadFacts.
Import ListNotations.

(* T0 (tie to the source): every regexp literal of the current Go source denotes
   the same language, with the same anchoring, as the pattern of the model — proved
   by running the verified equivalence checker on SrcRegex.v, which is regenerated
   from /repo on every run (see Bridge.v) *)
Theorem C03_source_patterns_are_the_models : source_patterns_agree.
Proof. exact source_patterns. Qed.

(* T2: over every history of commands (accepted or refused) and user edits, an
   object file once stored keeps its bytes, unless the model flagged a SHA-1
   collision *)
Theorem C03_store_monotone : forall h w,
  w_coll (run h w) = false ->
  forall id p, st_lookup (w_objs w) id = Some p -> st_lookup (w_objs (run h w)) id = Some p.
Proof. exact run_store_grows. Qed.

Theorem C03_collision_flag_is_sticky : forall h w, w_coll w = true -> w_coll (run h w) = true.
Proof. exact run_coll_sticky. Qed.

(* T3: what a command's world becomes is exactly its effect trace applied in
   order: nothing happens to the disk outside the listed effects *)
Theorem C03_effects_are_everything : forall a w w' o tr,
  step a w = (w', o, tr) ->
  match a with ACmd _ _ => w' = apply_effects tr w | AEdit _ => tr = [] end.
Proof. exact step_trace. Qed.

(* T4: an object is only ever read back under the SHA-1 of its file content *)
Theorem C03_read_only_under_own_name : forall st id k d,
  get_obj st id = Some (k, d) ->
  exists p, st_lookup st id = Some p /\ sha1 p = id /\ parse_payload p = Some (k, d).
Proof. exact get_obj_integrity. Qed.


(* ---------- Part 2: connectivity over every history ---------- *)
(* [Connected w] (Inv.v): every branch holds the id of an existing commit; HEAD
   names an existing branch as soon as there is one; every staged path refers to
   an existing blob; every stored commit's tree and parents, and every entry of
   every stored tree, exist with the matching kind; every object file is named
   by the SHA-1 of its content.
   [Bad w]: the model flagged a SHA-1 collision, or some object is >= 2^63 bytes.
   [action_ok]: user edits write only valid paths (no NUL, no empty component). *)

(* T1: after ANY sequence of commands — accepted or refused, with any arguments
   (unknown ids, blob ids to update-ref, names with / .. \, zero-id reflog
   positions, resets after renames) — and user edits, the repository is connected *)
Theorem C03_connected_on_every_history : forall h,
  Forall action_ok h -> ~ Bad (run h w_empty) -> Connected (run h w_empty).
Proof. exact connected_run. Qed.

(* the invariant is inductive only together with the auxiliary facts of [Good]
   (valid staged paths, well-formed stored trees, newline-free config values):
   Connected alone is NOT preserved — the witness is a commit of a staged path
   containing NUL, which no file system can produce *)
Theorem C03_connected_alone_not_inductive :
  exists w a, action_ok a /\ Connected w /\ ~ Bad (step_w a w) /\ ~ Connected (step_w a w).
Proof. exact connected_not_inductive. Qed.

Theorem C03_step : forall a w, action_ok a -> Good w -> ~ Bad (step_w a w) -> Connected (step_w a w).
Proof. exact connected_step. Qed.

(* every branch names a commit that has its snapshot and its parents *)
Theorem C03_branches_name_complete_commits : forall w,
  Connected w -> forall n id, am_get (w_refs w) n = Some id ->
  exists c, get_commit (w_objs w) id = Some c /\ tree_ok (w_objs w) (c_tree c) /\ Forall (commit_ok (w_objs w)) (c_parents c).
Proof. exact refs_commits. Qed.

Print Assumptions C03_store_monotone.
Print Assumptions C03_collision_flag_is_sticky.
Print Assumptions C03_effects_are_everything.
Print Assumptions C03_read_only_under_own_name.
Print Assumptions C03_connected_on_every_history.
Print Assumptions C03_connected_alone_not_inductive.
Print Assumptions C03_step.
Print Assumptions C03_branches_name_complete_commits.
Print Assumptions C03_source_patterns_are_the_models.

(* names: after any history HEAD (once the repository exists) and every branch carry a name that is a
   single, non-empty path component other than "." and "..", free of '/', '\\', control bytes and
   newlines -- so no branch file lies outside refs/heads and the HEAD file always reads back *)
Theorem C03_names_valid_on_every_history : forall w, Reachable w ->
  (w_inited w = true -> valid_branch_name (w_head w) = true) /\
  Forall (fun kv => valid_branch_name (fst kv) = true) (w_refs w).
Proof. exact HeadFacts.reachable_names_valid. Qed.

Theorem C03_branch_name_shape : forall w n id,
  Reachable w -> am_get (w_refs w) n = Some id ->
  n <> [] /\ n <> [x2e] /\ n <> [x2e; x2e] /\
  contains_byte c_slash n = false /\ contains_byte x5c n = false /\ ~ In c_nl n.
Proof. exact HeadFacts.reachable_branch_name_shape. Qed.

Theorem C03_head_file_reads_back : forall w,
  Reachable w -> w_inited w = true -> parse_head (render_head (w_head w)) = Some (w_head w).
Proof. exact HeadFacts.reachable_head_file_reads_back. Qed.

(* also in the world a command stops in when one of its writes fails *)
Theorem C03_names_valid_under_fault : forall e c w k r s',
  HeadFacts.NamesValid w -> run_cmd e c (mkMS w [] (Some k)) = (r, s') -> HeadFacts.NamesValid (ms_w s').
Proof. exact HeadFacts.names_valid_fault. Qed.
Print Assumptions C03_names_valid_on_every_history.
Print Assumptions C03_branch_name_shape.
Print Assumptions C03_head_file_reads_back.
Print Assumptions C03_names_valid_under_fault.
