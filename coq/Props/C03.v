(* C03 — Connectivity: the repository never references something that is not there.
   Part 1: no command deletes a stored object or changes its content; a file is
   only ever returned under the SHA-1 of its content.  Part 2 (the Connected
   invariant over all histories) is appended when ConnectedFacts.v is built. *)
From Coq Require Import Strings.String Strings.Byte.
From Coq Require Import List NArith.
From Goit Require Import Bytes Sha1 Obj World Repo ObjFacts MonadFacts.
Import ListNotations.

(* T2: over every history of commands (accepted or refused) and user edits, an
   object file once stored keeps its bytes, unless the model flagged a SHA-1
   collision *)
Theorem C03_store_monotone : forall h w,
  w_coll (run h w) = false ->
  forall id p, st_lookup (w_objs w) id = Some p -> st_lookup (w_objs (run h w)) id = Some p.
Proof. exact run_store_grows. Qed.

Theorem C03_collision_flag_is_sticky : forall h w, w_coll w = true -> w_coll (run h w) = true.
Proof. exact run_coll_sticky. Qed.

(* T3: what a command's world becomes is exactly its effect trace applied in
   order: nothing happens to the disk outside the listed effects *)
Theorem C03_effects_are_everything : forall a w w' o tr,
  step a w = (w', o, tr) ->
  match a with ACmd _ _ => w' = apply_effects tr w | AEdit _ => tr = [] end.
Proof. exact step_trace. Qed.

(* T4: an object is only ever read back under the SHA-1 of its file content *)
Theorem C03_read_only_under_own_name : forall st id k d,
  get_obj st id = Some (k, d) ->
  exists p, st_lookup st id = Some p /\ sha1 p = id /\ parse_payload p = Some (k, d).
Proof. exact get_obj_integrity. Qed.

Print Assumptions C03_store_monotone.
Print Assumptions C03_collision_flag_is_sticky.
Print Assumptions C03_effects_are_everything.
Print Assumptions C03_read_only_under_own_name.
