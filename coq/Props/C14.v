(* C14 — log lists the history reachable from HEAD, newest first, bounded by -n. *)
From Coq Require Import Strings.String Strings.Byte.
From Coq Require Import List NArith ZArith.
From Goit Require Import Bytes Obj Commit World Repo LogFacts.
From Goit Require Import BranchFacts ChainFacts LogView LogViewFacts.
From Goit Require Import Bridge.
From Goit Require RefusalFacts.
Import ListNotations.

(* T0 (tie to the source): every regexp literal of the current Go source denotes
   the same language, with the same anchoring, as the pattern of the model — proved
   by running the verified equivalence checker on SrcRegex.v, which is regenerated
   from /repo on every run (see Bridge.v) *)
Theorem C14_source_patterns_are_the_models : source_patterns_agree.
Proof. exact source_patterns. Qed.

(* T1: on the parent chain l of the tip, `log -n k` prints exactly the first
   min(k, |l|) commits, newest first, each once — for every integer k, with the
   fuel cmd_log really uses *)
Theorem C14_log_spec : forall c n s tip cm l,
  w_refs (ms_w s) <> [] -> x_headc c = Some (tip, cm) ->
  chain (w_objs (ms_w s)) tip l -> NoDup l ->
  cmd_log c n s = (Ok (map hex (firstn (Z.to_nat n) l)), s).
Proof. exact cmd_log_chain. Qed.

Theorem C14_fuel_suffices : forall st tip l k,
  chain st tip l -> NoDup l ->
  walk_history (S (S (2 * length st))) st [tip] [] 0 k = Some (firstn (Z.to_nat k) l).
Proof. exact cmd_log_fuel. Qed.

(* T2: the listing depends only on the commit graph and the tip: not on the
   staging area, the work tree or other branches *)
Theorem C14_independence : forall c1 c2 n s1 s2,
  w_objs (ms_w s1) = w_objs (ms_w s2) ->
  is_nil (w_refs (ms_w s1)) = is_nil (w_refs (ms_w s2)) ->
  option_map fst (x_headc c1) = option_map fst (x_headc c2) ->
  fst (cmd_log c1 n s1) = fst (cmd_log c2 n s2).
Proof. exact cmd_log_indep. Qed.

(* T3: on ANY store (merges, cycles, damaged graphs): never more than k lines,
   no commit twice *)
Theorem C14_bounded : forall fuel st tip k ids,
  walk_history fuel st [tip] [] 0 k = Some ids -> (length ids <= Z.to_nat k)%nat.
Proof. exact cmd_log_bounded. Qed.

Theorem C14_each_once : forall fuel st queue vis cnt k ids,
  walk_history fuel st queue vis cnt k = Some ids -> NoDup ids /\ forall x, In x ids -> ~ In x vis.
Proof. exact walk_history_nodup. Qed.

(* the chain hypotheses are satisfiable (three real commits, real SHA-1) *)
Example C14_nonvacuous : chain ex_st LogFacts.ex_id3 ex_l /\ NoDup ex_l.
Proof. split; [exact ex_chain | exact ex_nodup]. Qed.


(* ---------- Part 2: every history ---------- *)
(* After ANY history of commands and edits from an empty directory (absent a
   flagged SHA-1 collision), when HEAD resolves to a commit its parent chain
   exists and is duplicate-free, and `log -n k` — for every integer k — changes
   nothing and prints exactly the first min(k, length) commits of that chain,
   newest first.  No hypothesis on the history: resets to earlier commits
   followed by new commits, several branches, identical snapshots reachable
   twice are all covered. *)
Theorem C14_log_on_every_reachable_repository : forall h e x tip cm n,
  w_coll (run h w_empty) = false -> w_inited (run h w_empty) = true ->
  ctx_of (run h w_empty) = Some x -> x_headc x = Some (tip, cm) ->
  exists l, chain (w_objs (run h w_empty)) tip l /\ NoDup l /\
    step (ACmd e (CLog n)) (run h w_empty) = (run h w_empty, OOk (map hex (firstn (Z.to_nat n) l)), []).
Proof. exact step_log_on_reachable. Qed.

(* the same for the tip of any branch (or any stored commit) *)
Theorem C14_chain_of_every_commit : forall h,
  w_coll (run h w_empty) = false -> forall tip cm,
  get_commit (w_objs (run h w_empty)) tip = Some cm -> forall n,
  exists l, chain (w_objs (run h w_empty)) tip l /\ NoDup l /\
    walk_history (S (S (2 * length (w_objs (run h w_empty))))) (w_objs (run h w_empty)) [tip] [] 0 n
    = Some (firstn (Z.to_nat n) l).
Proof. exact log_on_reachable_any. Qed.

(* each listed commit is shown with its own id, author and message: every line
   printed on a reachable repository is a stored commit, and the author and
   message shown for it are the ones its object holds *)
Theorem C14_each_with_its_own_author_and_message : forall h e x tip cm n,
  w_coll (run h w_empty) = false -> w_inited (run h w_empty) = true ->
  ctx_of (run h w_empty) = Some x -> x_headc x = Some (tip, cm) ->
  exists l, chain (w_objs (run h w_empty)) tip l /\ NoDup l /\
    step (ACmd e (CLog n)) (run h w_empty) = (run h w_empty, OOk (map hex (firstn (Z.to_nat n) l)), []) /\
    Forall (fun id => exists c, get_commit (w_objs (run h w_empty)) id = Some c /\
              log_entry (w_objs (run h w_empty)) id = Some (hex id, c_author c, c_msg c))
           (firstn (Z.to_nat n) l).
Proof. exact log_lines_have_entries. Qed.

Print Assumptions C14_log_spec.
Print Assumptions C14_fuel_suffices.
Print Assumptions C14_independence.
Print Assumptions C14_bounded.
Print Assumptions C14_each_once.
Print Assumptions C14_log_on_every_reachable_repository.
Print Assumptions C14_chain_of_every_commit.
Print Assumptions C14_each_with_its_own_author_and_message.
Print Assumptions C14_source_patterns_are_the_models.

(* corners: log never changes anything, whatever its outcome, on every world; with no commit yet it is
   refused; with k <= 0 it prints nothing *)
Theorem C14_log_never_writes : forall e n w w' o tr,
  step (ACmd e (CLog n)) w = (w', o, tr) -> tr = [] /\ w' = w.
Proof. exact RefusalFacts.log_never_writes. Qed.

Theorem C14_log_without_a_commit_is_refused : forall e n w,
  (forall x, ctx_of w = Some x -> x_headc x = None) ->
  step (ACmd e (CLog n)) w = (w, OErr, []).
Proof. exact RefusalFacts.log_no_commit_refused. Qed.

Theorem C14_log_nonpositive_count_prints_nothing : forall e n w x tip cm,
  w_inited w = true -> ctx_of w = Some x -> x_headc x = Some (tip, cm) -> (n <= 0)%Z ->
  step (ACmd e (CLog n)) w = (w, OOk [], []).
Proof. exact RefusalFacts.log_nonpositive. Qed.
Print Assumptions C14_log_never_writes.
Print Assumptions C14_log_without_a_commit_is_refused.
Print Assumptions C14_log_nonpositive_count_prints_nothing.
