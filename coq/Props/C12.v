(* C12 — Commit metadata survives a write/read round trip in every time zone. *)
From Coq Require Import Strings.Byte.
From Coq Require Import List NArith ZArith.
From Goit Require Import Bytes Obj Regex GoRegex Commit RegexFacts CommitFacts.
Import ListNotations.
Local Open Scope Z_scope.

(* T0: the theorems below are about the pattern the current Go source contains:
   this equation is checked against the regenerated GoRegex.v on every run *)
Theorem C12_sign_pattern_is_the_source_pattern :
  re_signRegexp = mkPat true (RCat (RStar (RCls cls_not_lt)) (RCat (RLit [c_sp; x3c])
                    (RCat email_re (RCat (RLit [x3e; c_sp]) ts_re)))) true.
Proof. exact sign_regex_shape. Qed.

(* T1: the stored line has the Git form  Name <email> <unix-seconds> +HHMM|-HHMM *)
Theorem C12_sign_shape : forall n e t off, 0 <= t ->
  sign_string n e t off
  = n ++ [c_sp; x3c] ++ e ++ [x3e; c_sp] ++ dec (Z.to_N t) ++ [c_sp] ++ tz_string off.
Proof. exact sign_string_shape. Qed.

Theorem C12_tz_form : forall off, -360000 < off < 360000 -> off mod 60 = 0 ->
  exists sg h1 h2 m1 m2, tz_string off = [sg; h1; h2; m1; m2] /\ (sg = x2b \/ sg = x2d) /\
    is_digit h1 = true /\ is_digit h2 = true /\ is_digit m1 = true /\ is_digit m2 = true.
Proof. exact tz_string_form. Qed.

(* T2: Goit's reader returns exactly the name, e-mail, instant and UTC offset
   that were written, for every name without '<', every e-mail of the language
   of the source pattern, every positive instant, every whole-minute offset
   below 100 h — in particular every quarter hour in [-12:00, +14:00] *)
Theorem C12_sign_roundtrip : forall n e t off,
  valid_name n -> valid_email e -> 0 < t <= 9223372036854775807 ->
  -360000 < off < 360000 -> off mod 60 = 0 ->
  read_sign (sign_string n e t off) = Some (mkSign n e t off).
Proof. exact sign_roundtrip. Qed.

Corollary C12_sign_roundtrip_quarter_hours : forall n e t q,
  valid_name n -> valid_email e -> 0 < t <= 9223372036854775807 -> -48 <= q <= 56 ->
  read_sign (sign_string n e t (q * 900)) = Some (mkSign n e t (q * 900)).
Proof. exact sign_roundtrip_quarter_hours. Qed.

(* T3: the whole commit text reads back: tree, parent, both signatures and the
   message, for every message without '\r' (several lines, blank lines, colons,
   non-ASCII, trailing newlines, the empty message) *)
Theorem C12_commit_roundtrip : forall tree parent na ea ta oa nc ec tc oc msg,
  length tree = 20%nat -> (forall p, parent = Some p -> length p = 20%nat) ->
  sign_ok na ea ta oa -> sign_ok nc ec tc oc -> msg_ok msg ->
  parse_commit (commit_text tree (option_map hex parent) (sign_string na ea ta oa)
                            (sign_string nc ec tc oc) msg)
  = Some (mkCommit tree (parent_list parent) (Some (mkSign na ea ta oa))
                   (Some (mkSign nc ec tc oc)) msg).
Proof. exact commit_roundtrip. Qed.

(* non-vacuity: a non-ASCII name with a space, a dotted e-mail with '+', -03:30 *)
Example C12_nonvacuous : sign_ok ex_name ex_email 1700000000 (-12600).
Proof. exact ex_sign_ok. Qed.

Print Assumptions C12_sign_pattern_is_the_source_pattern.
Print Assumptions C12_sign_shape.
Print Assumptions C12_tz_form.
Print Assumptions C12_sign_roundtrip.
Print Assumptions C12_sign_roundtrip_quarter_hours.
Print Assumptions C12_commit_roundtrip.
