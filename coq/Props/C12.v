(* C12 — Commit metadata survives a write/read round trip in every time zone. *)
From Coq Require Import Strings.Byte.
From Coq Require Import List NArith ZArith.
From Goit Require Import Bytes Obj Regex GoRegex Commit RegexFacts CommitFacts.
From Goit Require Import Tree Index Config World Repo TreeFacts ExactFacts CommitCmdFacts LogView LogViewFacts.
From Goit Require Import Bridge.
From Goit Require Import BranchFacts.
From Goit Require Inv LogFacts SnapshotFacts PersistFacts.
Import ListNotations.
Local Open Scope Z_scope.

(* T0 (tie to the source): every regexp literal of the current Go source denotes
   the same language, with the same anchoring, as the pattern of the model — proved
   by running the verified equivalence checker on SrcRegex.v, which is regenerated
   from /repo on every run (see Bridge.v) *)
Theorem C12_source_patterns_are_the_models : source_patterns_agree.
Proof. exact source_patterns. Qed.

(* T0: the theorems below are about the pattern the current Go source contains:
   this equation is checked against the regenerated GoRegex.v on every run *)
Theorem C12_sign_pattern_is_the_source_pattern :
  re_signRegexp = mkPat true sign_body_flat true.
Proof. exact sign_regex_shape. Qed.

(* ... whose language is that of  [^<]* " <" email "> " timestamp  (the
   translator emits concatenations flattened; grouping does not matter) *)
Theorem C12_sign_pattern_language : forall s,
  lang sign_body_flat s <->
  lang (RCat (RStar (RCls cls_not_lt)) (RCat (RLit [c_sp; x3c])
         (RCat email_re (RCat (RLit [x3e; c_sp]) ts_re)))) s.
Proof. exact sign_body_flat_eq. Qed.

(* T1: the stored line has the Git form  Name <email> <unix-seconds> +HHMM|-HHMM *)
Theorem C12_sign_shape : forall n e t off, 0 <= t ->
  sign_string n e t off
  = n ++ [c_sp; x3c] ++ e ++ [x3e; c_sp] ++ dec (Z.to_N t) ++ [c_sp] ++ tz_string off.
Proof. exact sign_string_shape. Qed.

Theorem C12_tz_form : forall off, -360000 < off < 360000 -> off mod 60 = 0 ->
  exists sg h1 h2 m1 m2, tz_string off = [sg; h1; h2; m1; m2] /\ (sg = x2b \/ sg = x2d) /\
    is_digit h1 = true /\ is_digit h2 = true /\ is_digit m1 = true /\ is_digit m2 = true.
Proof. exact tz_string_form. Qed.

(* T2: Goit's reader returns exactly the name, e-mail, instant and UTC offset
   that were written, for every name without '<', every e-mail of the language
   of the source pattern, every positive instant, every whole-minute offset
   below 100 h — in particular every quarter hour in [-12:00, +14:00] *)
Theorem C12_sign_roundtrip : forall n e t off,
  valid_name n -> valid_email e -> 0 < t <= 9223372036854775807 ->
  -360000 < off < 360000 -> off mod 60 = 0 ->
  read_sign (sign_string n e t off) = Some (mkSign n e t off).
Proof. exact sign_roundtrip. Qed.

Corollary C12_sign_roundtrip_quarter_hours : forall n e t q,
  valid_name n -> valid_email e -> 0 < t <= 9223372036854775807 -> -48 <= q <= 56 ->
  read_sign (sign_string n e t (q * 900)) = Some (mkSign n e t (q * 900)).
Proof. exact sign_roundtrip_quarter_hours. Qed.

(* T3: the whole commit text reads back: tree, parent, both signatures and the
   message, for EVERY message (any bytes: carriage returns, several lines,
   blank lines, colons, non-ASCII, trailing newlines, the empty message, lines of
   any length): the reader splits the text at line feeds only *)
Theorem C12_commit_roundtrip : forall tree parent na ea ta oa nc ec tc oc msg,
  length tree = 20%nat -> (forall p, parent = Some p -> length p = 20%nat) ->
  sign_ok na ea ta oa -> sign_ok nc ec tc oc ->
  parse_commit (commit_text tree (option_map hex parent) (sign_string na ea ta oa)
                            (sign_string nc ec tc oc) msg)
  = Some (mkCommit tree (parent_list parent) (Some (mkSign na ea ta oa))
                   (Some (mkSign nc ec tc oc)) msg).
Proof. exact commit_roundtrip. Qed.

(* the message part alone: the lines the reader finds in a message followed by
   its final line feed, joined again, are the message *)
Theorem C12_message_lines : forall msg, join [c_nl] (lf_lines (msg ++ [c_nl])) = msg.
Proof. exact msg_lines. Qed.

(* a concrete commit whose message is "l1\r\nl2\r" (a carriage return inside
   and one at the very end) reads back with exactly that message *)
Theorem C12_message_with_carriage_returns :
  parse_commit (commit_text (repeat x01 20) (Some (hex (repeat x02 20)))
                  (sign_string CommitFacts.ex_name CommitFacts.ex_email 1700000000 (-12600))
                  (sign_string CommitFacts.ex_name CommitFacts.ex_email 1700000000 50400)
                  [x6c; x31; c_cr; c_nl; x6c; x32; c_cr])
  = Some (mkCommit (repeat x01 20) [repeat x02 20]
            (Some (mkSign CommitFacts.ex_name CommitFacts.ex_email 1700000000 (-12600)))
            (Some (mkSign CommitFacts.ex_name CommitFacts.ex_email 1700000000 50400))
            [x6c; x31; c_cr; c_nl; x6c; x32; c_cr]).
Proof. exact CommitFacts.ex_commit_cr_roundtrip. Qed.

(* non-vacuity: a non-ASCII name with a space, a dotted e-mail with '+', -03:30 *)
Example C12_nonvacuous : sign_ok CommitFacts.ex_name CommitFacts.ex_email 1700000000 (-12600).
Proof. exact CommitFacts.ex_sign_ok. Qed.


(* ---------- Part 2: the commands ---------- *)
(* T4: what `log` reads back of a commit whose text is the text commit()
   formats: name, e-mail, instant and UTC offset of the author and the message *)
Theorem C12_log_reads_back_what_was_written : forall st id tree parent na ea ta oa nc ec tc oc msg,
  get_kind st KCommit id
  = Some (commit_text tree (option_map hex parent) (sign_string na ea ta oa) (sign_string nc ec tc oc) msg) ->
  length tree = 20%nat -> (forall p, parent = Some p -> length p = 20%nat) ->
  sign_ok na ea ta oa -> sign_ok nc ec tc oc ->
  log_entry st id = Some (hex id, Some (mkSign na ea ta oa), msg).
Proof. exact log_entry_of_commit_text. Qed.

(* T5: the commit a successful `commit` writes, on ANY world, is shown by `log`
   with the configured identity, the clock reading and zone offset of that
   moment and the message given — and keeps being shown so after any later
   history of commands and edits (absent a flagged SHA-1 collision) *)
Theorem C12_commit_then_log : forall e c msg w root subs h,
  Forall valid_entry (idx_of w) -> write_tree_top (idx_of w) = Some (root, subs) ->
  (forall d, In d (subs ++ [root]) -> (lenN d < 2 ^ 63)%N) ->
  (lenN (commit_data e c msg w root) < 2 ^ 63)%N ->
  sign_ok (user_name (x_l c) (x_g c)) (user_email (x_l c) (x_g c)) (e_time e) (e_off e) ->
  (forall tip, tip_of w = Some tip -> length tip = 20%nat) -> head_ok w c ->
  w_coll (run h (after_commit e c msg w root subs)) = false ->
  log_entry (w_objs (run h (after_commit e c msg w root subs))) (commit_id e c msg w root)
  = Some (hex (commit_id e c msg w root),
          Some (mkSign (user_name (x_l c) (x_g c)) (user_email (x_l c) (x_g c)) (e_time e) (e_off e)), msg).
Proof. exact log_entry_after_commit_for_ever. Qed.

(* T6: the same on EVERY reachable repository, with no hypothesis on the index,
   the tree, the sizes or the tip (they follow from reachability): in a
   repository whose context loads and whose gate is open (an identity is
   configured, something is staged), with an identity and a clock in the C12
   domain, `commit -m msg` succeeds; `log` shows the new commit first, with
   the configured name and e-mail, the instant and the offset of the call and
   exactly [msg] ([PersistFacts.shown]); the entry stays what it is after any
   later history, and `log` then prints the chain of HEAD, in which the commit,
   when still there, has that entry (absent a flagged SHA-1 collision, the
   object store within the size the model covers) *)
Theorem C12_commit_then_log_on_every_reachable_repository : forall e msg w c,
  Inv.Reachable w -> ctx_of w = Some c -> gate_open w c ->
  sign_ok (user_name (x_l c) (x_g c)) (user_email (x_l c) (x_g c)) (e_time e) (e_off e) ->
  w_coll (step_w (ACmd e (CCommit msg)) w) = false ->
  SnapshotFacts.SmallStore (w_objs (step_w (ACmd e (CCommit msg)) w)) ->
  exists root subs,
    let cid := commit_id e c msg w root in
    let w' := after_commit e c msg w root subs in
    write_tree_top (idx_of w) = Some (root, subs) /\
    step (ACmd e (CCommit msg)) w = (w', OOk [], do_commit_trace e c msg w root subs) /\
    tip_of w' = Some cid /\
    log_entry (w_objs w') cid = PersistFacts.shown e c msg cid /\
    (forall e' n, 0 < n ->
       exists rest, step (ACmd e' (CLog n)) w' = (w', OOk (hex cid :: rest), [])) /\
    (forall h, w_coll (run h w') = false ->
       log_entry (w_objs (run h w')) cid = PersistFacts.shown e c msg cid) /\
    (forall h e' n x2 tip cm2,
       w_coll (run h w') = false -> ctx_of (run h w') = Some x2 -> x_headc x2 = Some (tip, cm2) ->
       exists l, LogFacts.chain (w_objs (run h w')) tip l /\ NoDup l /\
         step (ACmd e' (CLog n)) (run h w')
           = (run h w', OOk (map hex (firstn (Z.to_nat n) l)), []) /\
         (In cid (firstn (Z.to_nat n) l) ->
          In (hex cid) (map hex (firstn (Z.to_nat n) l)) /\
          In (PersistFacts.shown e c msg cid)
             (log_view (w_objs (run h w')) (map hex (firstn (Z.to_nat n) l))))).
Proof. exact PersistFacts.commit_then_log_reachable. Qed.

(* what [shown] is: the id in hex, the configured identity with the clock
   reading and the zone offset of the `commit` call, the message *)
Theorem C12_shown : forall e c msg cid,
  PersistFacts.shown e c msg cid
  = Some (hex cid,
          Some (mkSign (user_name (x_l c) (x_g c)) (user_email (x_l c) (x_g c)) (e_time e) (e_off e)),
          msg).
Proof. reflexivity. Qed.

Print Assumptions C12_sign_pattern_is_the_source_pattern.
Print Assumptions C12_sign_shape.
Print Assumptions C12_tz_form.
Print Assumptions C12_sign_roundtrip.
Print Assumptions C12_sign_roundtrip_quarter_hours.
Print Assumptions C12_commit_roundtrip.
Print Assumptions C12_message_lines.
Print Assumptions C12_message_with_carriage_returns.
Print Assumptions C12_log_reads_back_what_was_written.
Print Assumptions C12_commit_then_log.
Print Assumptions C12_commit_then_log_on_every_reachable_repository.
Print Assumptions C12_shown.
Print Assumptions C12_sign_pattern_language.
Print Assumptions C12_source_patterns_are_the_models.
