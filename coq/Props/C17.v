(* C17 — Goit's own directory and ignored paths never enter the staging area. *)
From Coq Require Import Strings.String Strings.Byte.
From Coq Require Import List NArith.
From Goit Require Import Bytes Regex Ignore World Repo IgnoreFacts.
From Goit Require Import Index Inv IndexFacts BranchFacts ExactFacts SnapshotFacts IgnoreCmdFacts.
From Goit Require Import Bridge.
From Goit Require GateReachFacts.
Import ListNotations.

(* T0 (tie to the source): every regexp literal of the current Go source denotes
   the same language, with the same anchoring, as the pattern of the model — proved
   by running the verified equivalence checker on SrcRegex.v, which is regenerated
   from /repo on every run (see Bridge.v) *)
Theorem C17_source_patterns_are_the_models : source_patterns_agree.
Proof. exact source_patterns. Qed.

(* T1: whatever .goitignore contains, the walk of `add <dir>` / `add .` skips
   every path under .goit/ without touching the world *)
Theorem C17_add_never_stages_goit : forall c file w tr fl rest,
  ign_load file = Some (x_pats c) ->
  add_dir_body c (str ".goit/" ++ rest) (mkMS w tr fl) = (Ok tt, mkMS w tr fl).
Proof. exact add_never_stages_goit. Qed.

(* T2: an ignored path found under a directory argument is skipped the same way *)
Theorem C17_add_skips_ignored : forall c w tr fl f,
  ignored w (x_pats c) f = true ->
  bind getw (fun w' => if ignored w' (x_pats c) f then ret tt else add_file f) (mkMS w tr fl)
  = (Ok tt, mkMS w tr fl).
Proof. exact add_body_ignored. Qed.

(* T3: the built-in pattern hides only paths with a component ".goit" — with no
   .goitignore nothing else is hidden or skipped (x.goit/f is not) *)
Theorem C17_builtin_only : forall t,
  ign_match [ign_builtin] t = true ->
  exists a rest, t = a ++ str ".goit/" ++ rest /\ (a = [] \/ last a x00 = c_slash).
Proof. exact builtin_only. Qed.

Theorem C17_no_ignore_all_visible : forall w f,
  ~ In (str ".goit") (comps f) -> visible w [ign_builtin] f = true.
Proof. exact no_ignore_visible. Qed.

(* T4: a `name/` entry excludes exactly what lies beneath a directory of that
   name (at a component boundary: out/ does not hide about/b) *)
Theorem C17_dir_entry : forall name r p,
  inert_comp name -> ign_line (name ++ [c_slash]) = Some r ->
  (boundary_match r true p = true <-> under_named [name] p).
Proof. exact dir_entry_under_named1. Qed.

(* T5: a `*.ext` entry excludes exactly the paths that end in ".ext" *)
Theorem C17_ext_entry : forall ext r p,
  inert_comp ext -> ign_line ([x2a; x2e] ++ ext) = Some r ->
  (boundary_match r true p = true <-> has_ext ([x2e] ++ ext) p).
Proof. exact ext_entry_has_ext. Qed.

(* ---------- Part 2: the commands ---------- *)
(* [goit_path q]: q has a component ".goit" followed by something (at any depth,
   any bytes: finding F46 is repaired, the patterns are compiled with the `s`
   flag, so a line break in the name no longer lets a path escape) *)

(* No form of add — any argument list, any world with a canonical staging area,
   any outcome — newly stages a path inside Goit's directory; and on a
   consistent work tree it newly stages no path the ignore patterns exclude *)
Theorem C17_add_never_stages_excluded : forall e args w w' o tr,
  Canonical (idx_of w) -> step (ACmd e (CAdd args)) w = (w', o, tr) ->
  (forall q, goit_path q -> staged w' q = staged w q \/ staged w' q = None) /\
  (ex_wt_consistent w -> forall c, ctx_of w = Some c -> forall q,
     staged w' q <> staged w q -> staged w' q <> None ->
     ignored w (x_pats c) q = false /\ ign_match (x_pats c) q = false).
Proof. exact add_step_never_stages_excluded. Qed.

(* on every reachable repository no tracked path, no staged path and no path of
   any stored commit's snapshot lies inside Goit's directory *)
Theorem C17_nothing_inside_goit_is_ever_tracked : forall w,
  Reachable w -> w_coll w = false -> SmallStore (w_objs w) ->
  (forall p, tracked w p = true -> ~ goit_path p) /\
  (forall p, In p (paths (idx_of w)) -> ~ goit_path p) /\
  (forall cid es p, snapshot (w_objs w) cid = Some es -> In p (paths es) -> ~ goit_path p).
Proof. exact reachable_tracks_no_goit_path. Qed.

(* status never lists such paths: every line of every class names a path outside
   Goit's directory, and untracked lines name paths that are not excluded *)
Theorem C17_status_never_lists_excluded : forall w,
  Reachable w -> w_coll w = false -> SmallStore (w_objs w) ->
  forall e w' out tr, step (ACmd e CStatus) w = (w', OOk out, tr) ->
  w' = w /\ tr = [] /\
  exists c, ctx_of w = Some c /\
    (forall p, In (str "untracked " ++ p) out ->
       file w p <> None /\ tracked w p = false /\ ignored w (x_pats c) p = false /\ ~ goit_path p) /\
    (forall p, In (str "modified " ++ p) out -> tracked w p = true /\ ~ goit_path p) /\
    (forall p, In (str "deleted " ++ p) out -> tracked w p = true /\ ~ goit_path p) /\
    (forall k p, In (dkind_tag k ++ p) out -> ~ goit_path p).
Proof. exact status_step_never_lists_excluded. Qed.

(* hence restore and reset (every mode, every argument list, every outcome)
   never write or remove anything inside Goit's directory *)
Theorem C17_goit_dir_never_overwritten : forall w,
  Reachable w -> w_coll w = false -> SmallStore (w_objs w) ->
  forall e cm,
  (exists st args, cm = CRestore st args) \/ (exists s m h args, cm = CReset s m h args) ->
  forall w' o tr, step (ACmd e cm) w = (w', o, tr) ->
  Forall spares_goit tr /\ (forall q, goit_path q -> file w' q = file w q).
Proof. exact goit_dir_never_overwritten. Qed.

(* with no .goitignore nothing outside Goit's directory is hidden or skipped:
   every such path is visible, and `add .` stages every such file *)
Theorem C17_no_ignore_nothing_hidden : forall w c f,
  ctx_of w = Some c -> am_get (w_files w) (str ".goitignore") = None ->
  ~ In (str ".goit") (comps f) -> visible w (x_pats c) f = true /\ ignored w (x_pats c) f = false.
Proof. exact no_ignore_nothing_hidden. Qed.

Theorem C17_no_ignore_add_dot_stages_everything : forall c w,
  x_pats c = [ign_builtin] -> Canonical (idx_of w) -> ex_wt_consistent w ->
  exists tr, runs (cmd_add c [[x2e]]) w (Ok []) tr /\ Forall add_eff tr /\
    forall q data, file w q = Some data -> q <> [] -> ~ In (str ".goit") (comps q) ->
      staged (apply_effects tr w) q = Some (blob_id data).
Proof. exact no_ignore_add_dot_all_staged. Qed.

(* an EMPTY line of .goitignore is not an entry (finding F55: it used to be the
   empty pattern, which matched every directory target "d/" — one blank line hid
   every untracked directory from `status` and made `add .` stage nothing beneath
   any directory).  Blank lines change nothing, wherever they stand: on the list
   of lines, and on the bytes of the file for ALL b1, b2 (which may contain
   line feeds, carriage returns and further blank lines themselves) *)
Theorem C17_blank_lines_change_nothing : forall l1 l2,
  ign_lines (l1 ++ [] :: l2) = ign_lines (l1 ++ l2).
Proof. exact blank_lines_change_nothing. Qed.

Theorem C17_blank_line_bytes_change_nothing : forall b1 b2,
  ign_load (Some (b1 ++ [c_nl] ++ [c_nl] ++ b2)) = ign_load (Some (b1 ++ [c_nl] ++ b2)).
Proof. exact blank_line_bytes_change_nothing. Qed.

(* a line holding a carriage return only is empty once the scanner has removed
   it; an empty first line; a file of empty lines only *)
Theorem C17_blank_crlf_line_bytes_change_nothing : forall b1 b2,
  ign_load (Some (b1 ++ [c_nl] ++ [c_cr; c_nl] ++ b2)) = ign_load (Some (b1 ++ [c_nl] ++ b2)).
Proof. exact blank_crlf_line_bytes_change_nothing. Qed.

Theorem C17_blank_first_line_changes_nothing : forall b,
  ign_load (Some ([c_nl] ++ b)) = ign_load (Some b) /\
  ign_load (Some ([c_cr; c_nl] ++ b)) = ign_load (Some b).
Proof. exact blank_first_line_changes_nothing. Qed.

Theorem C17_only_blank_lines_load_builtin : forall n,
  ign_load (Some (repeat c_nl n)) = Some [ign_builtin].
Proof. exact only_blank_lines_load_builtin. Qed.

(* only the non-empty lines count *)
Theorem C17_only_nonempty_lines_count : forall ls,
  ign_lines ls = ign_lines (filter (fun l => match l with [] => false | _ => true end) ls).
Proof. exact ign_lines_nonempty. Qed.

(* the former misbehaviour, gone: with .goitignore = "*.log\n\n" no directory
   target is matched (d/a.log and .goit/ still are, by the entries that are there);
   the empty pattern the blank line used to become matches every directory target *)
Example C17_blank_line_hides_no_directory :
  match ign_load (Some (str "*.log" ++ [c_nl] ++ [c_nl])) with
  | Some pats => map (ign_match pats) [str "d/"; str "src/deep/"; str "d/f"; str "d/a.log"; str ".goit/"]
  | None => []
  end = [false; false; false; true; true].
Proof. exact blank_line_hides_no_directory. Qed.

Theorem C17_empty_pattern_matched_every_directory :
  ign_line [] = Some REps /\ forall d, boundary_match REps true (d ++ [c_slash]) = true.
Proof. exact (conj empty_line_was_empty_pattern empty_pattern_matches_every_dir). Qed.

(* and in a history: `status` lists d/f and src/deep/h, `add .` and `add d` stage
   them (statement: IgnoreCmdFacts.c17_blank_line_hides_nothing) *)
Example C17_blank_line_history :
  snd (fst (step (ACmd c17_env CStatus) c17_blank_w))
    = OOk [str "untracked .goitignore"; str "untracked d/f"; str "untracked src/deep/h"] /\
  paths (idx_of (step_w (ACmd c17_env (CAdd [str "."])) c17_blank_w))
    = [str ".goitignore"; str "d/f"; str "src/deep/h"] /\
  paths (idx_of (step_w (ACmd c17_env (CAdd [str "d"])) c17_blank_w)) = [str "d/f"].
Proof.
  destruct c17_blank_line_hides_nothing as (_ & H1 & H2 & H3 & _).
  exact (conj H1 (conj H2 H3)).
Qed.

Print Assumptions C17_blank_lines_change_nothing.
Print Assumptions C17_blank_line_bytes_change_nothing.
Print Assumptions C17_blank_crlf_line_bytes_change_nothing.
Print Assumptions C17_blank_first_line_changes_nothing.
Print Assumptions C17_only_blank_lines_load_builtin.
Print Assumptions C17_only_nonempty_lines_count.
Print Assumptions C17_blank_line_hides_no_directory.
Print Assumptions C17_empty_pattern_matched_every_directory.
Print Assumptions C17_blank_line_history.
Print Assumptions C17_add_never_stages_goit.
Print Assumptions C17_add_skips_ignored.
Print Assumptions C17_builtin_only.
Print Assumptions C17_no_ignore_all_visible.
Print Assumptions C17_dir_entry.
Print Assumptions C17_ext_entry.
Print Assumptions C17_add_never_stages_excluded.
Print Assumptions C17_nothing_inside_goit_is_ever_tracked.
Print Assumptions C17_status_never_lists_excluded.
Print Assumptions C17_goit_dir_never_overwritten.
Print Assumptions C17_no_ignore_nothing_hidden.
Print Assumptions C17_no_ignore_add_dot_stages_everything.
Print Assumptions C17_source_patterns_are_the_models.

(* C17_add_never_stages_excluded over histories, with neither `Canonical (idx_of w)` nor
   `ex_wt_consistent w` assumed: both are invariants of every history whose user edits are ones a file
   system can perform (edits_wt_okb: no write below a file or onto a directory, no removal of a non-empty
   directory as a file; checked edit by edit in the world where it is made) *)
Theorem C17_add_never_stages_excluded_on_every_history : forall h e args w w' o tr,
  Forall action_ok h -> GateReachFacts.edits_wt_okb h w_empty = true -> w = run h w_empty ->
  w_coll w = false -> SmallStore (w_objs w) ->
  step (ACmd e (CAdd args)) w = (w', o, tr) ->
  (forall q, goit_path q -> staged w' q = staged w q \/ staged w' q = None) /\
  (forall c, ctx_of w = Some c -> forall q,
     staged w' q <> staged w q -> staged w' q <> None ->
     ignored w (x_pats c) q = false /\ ign_match (x_pats c) q = false).
Proof. exact GateReachFacts.history_add_never_stages_excluded. Qed.
Print Assumptions C17_add_never_stages_excluded_on_every_history.
