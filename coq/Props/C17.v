(* C17 — Goit's own directory and ignored paths never enter the staging area. *)
From Coq Require Import Strings.String Strings.Byte.
From Coq Require Import List NArith.
From Goit Require Import Bytes Regex Ignore World Repo IgnoreFacts.
Import ListNotations.

(* T1: whatever .goitignore contains, the walk of `add <dir>` / `add .` skips
   every path under .goit/ without touching the world *)
Theorem C17_add_never_stages_goit : forall c file w tr fl rest,
  ign_load file = Some (x_pats c) -> ~ In c_nl rest ->
  add_dir_body c (str ".goit/" ++ rest) (mkMS w tr fl) = (Ok tt, mkMS w tr fl).
Proof. exact add_never_stages_goit. Qed.

(* T2: an ignored path found under a directory argument is skipped the same way *)
Theorem C17_add_skips_ignored : forall c w tr fl f,
  ignored w (x_pats c) f = true ->
  bind getw (fun w' => if ignored w' (x_pats c) f then ret tt else add_file f) (mkMS w tr fl)
  = (Ok tt, mkMS w tr fl).
Proof. exact add_body_ignored. Qed.

(* T3: the built-in pattern hides only paths with a component ".goit" — with no
   .goitignore nothing else is hidden or skipped (x.goit/f is not) *)
Theorem C17_builtin_only : forall t,
  ign_match [ign_builtin] t = true ->
  exists a rest, t = a ++ str ".goit/" ++ rest /\ (a = [] \/ last a x00 = c_slash).
Proof. exact builtin_only. Qed.

Theorem C17_no_ignore_all_visible : forall w f,
  ~ In (str ".goit") (comps f) -> visible w [ign_builtin] f = true.
Proof. exact no_ignore_visible. Qed.

(* T4: a `name/` entry excludes exactly what lies beneath a directory of that
   name (at a component boundary: out/ does not hide about/b) *)
Theorem C17_dir_entry : forall name r p,
  inert_comp name -> ign_line (name ++ [c_slash]) = Some r -> ~ In c_nl p ->
  (boundary_match r true p = true <-> under_named [name] p).
Proof. exact dir_entry_under_named1. Qed.

(* T5: a `*.ext` entry excludes exactly the paths that end in ".ext" *)
Theorem C17_ext_entry : forall ext r p,
  inert_comp ext -> ign_line ([x2a; x2e] ++ ext) = Some r -> ~ In c_nl p ->
  (boundary_match r true p = true <-> has_ext ([x2e] ++ ext) p).
Proof. exact ext_entry_has_ext. Qed.

Print Assumptions C17_add_never_stages_goit.
Print Assumptions C17_add_skips_ignored.
Print Assumptions C17_builtin_only.
Print Assumptions C17_no_ignore_all_visible.
Print Assumptions C17_dir_entry.
Print Assumptions C17_ext_entry.
