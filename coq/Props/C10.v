(* C10 — Branch and HEAD state machine: refinement of every branch / switch /
   update-ref operation to an abstract machine (current branch, name -> commit). *)
From Coq Require Import Strings.String Strings.Byte.
From Coq Require Import List NArith.
From Goit Require Import Bytes Obj Regex GoRegex Refs Ignore World Repo ObjFacts RegexFacts BranchFacts.
From Goit Require Import Bridge.
From Goit Require Import Inv SnapshotFacts.
From Goit Require BranchReachFacts.
Import ListNotations.

(* the abstract state is (w_head w, w_refs w); [frame] says index, objects,
   configs and work tree are untouched.  In each theorem: if the abstract
   operation is defined the command succeeds and lands exactly on its result;
   otherwise it is refused with an EMPTY trace and the world is unchanged. *)

(* T0 (tie to the source): every regexp literal of the current Go source denotes
   the same language, with the same anchoring, as the pattern of the model — proved
   by running the verified equivalence checker on SrcRegex.v, which is regenerated
   from /repo on every run (see Bridge.v) *)
Theorem C10_source_patterns_are_the_models : source_patterns_agree.
Proof. exact source_patterns. Qed.

(* creating a branch adds exactly one branch at the current HEAD commit;
   duplicate or unsafe names are refused *)
Theorem C10_branch_create : forall e name w x w' o tr,
  w_inited w = true -> ctx_of w = Some x ->
  step (ACmd e (CBranch [name] false [] [])) w = (w', o, tr) ->
  match a_branch name (abs w) with
  | Some s' => o = OOk [] /\ abs w' = s' /\ frame w w'
  | None => o = OErr /\ tr = [] /\ w' = w
  end.
Proof. exact branch_create_refines. Qed.

Theorem C10_branch_create_spec : forall name s s',
  a_branch name s = Some s' ->
  fst s' = fst s /\ am_get (snd s) name = None /\ am_get (snd s') name = am_get (snd s) (fst s) /\
  (forall n, n <> name -> am_get (snd s') n = am_get (snd s) n) /\ length (snd s') = S (length (snd s)).
Proof. exact a_branch_spec. Qed.

(* deleting removes exactly that branch; refused for the current branch or an unknown name *)
Theorem C10_branch_delete : forall e d w x w' o tr,
  w_inited w = true -> ctx_of w = Some x -> is_nil d = false -> blogs_cover_refs w ->
  step (ACmd e (CBranch [] false [] d)) w = (w', o, tr) ->
  match a_delete d (abs w) with
  | Some s' => o = OOk [] /\ abs w' = s' /\ frame w w'
  | None => o = OErr /\ tr = [] /\ w' = w
  end.
Proof. exact branch_delete_refines. Qed.

(* renaming gives the current branch a new name with the same commit; HEAD follows *)
Theorem C10_branch_rename : forall e new w x w' o tr,
  w_inited w = true -> ctx_of w = Some x -> is_nil new = false -> blogs_cover_refs w ->
  step (ACmd e (CBranch [] false new [])) w = (w', o, tr) ->
  match a_rename new (abs w) with
  | Some s' => o = OOk [] /\ abs w' = s' /\ frame w w'
  | None => o = OErr /\ tr = [] /\ w' = w
  end.
Proof. exact branch_rename_refines. Qed.

Theorem C10_switch : forall e a w x w' o tr,
  w_inited w = true -> ctx_of w = Some x -> refs_commits_ok w ->
  step (ACmd e (CSwitch [a] [])) w = (w', o, tr) ->
  match a_switch a (abs w) with
  | Some s' => o = OOk [] /\ abs w' = s' /\ frame w w'
  | None => o = OErr /\ tr = [] /\ w' = w
  end.
Proof. exact switch_refines. Qed.

Theorem C10_switch_create : forall e name w x w' o tr,
  w_inited w = true -> ctx_of w = Some x -> is_nil name = false ->
  step (ACmd e (CSwitch [] name)) w = (w', o, tr) ->
  match a_switch_create name (abs w) with
  | Some s' => o = OOk [] /\ abs w' = s' /\ frame w w'
  | None => o = OErr /\ tr = [] /\ w' = w
  end.
Proof. exact switch_create_refines. Qed.

(* update-ref sets the named existing branch to the given existing commit
   (and, as the program does, makes HEAD name that branch) *)
Theorem C10_update_ref : forall e r h w x w' o tr,
  w_inited w = true -> ctx_of w = Some x ->
  step (ACmd e (CUpdateRef [r; h])) w = (w', o, tr) ->
  match a_update_ref (commit_loads w) r h (abs w) with
  | Some s' => o = OOk [] /\ abs w' = s' /\ frame w w'
  | None => o = OErr /\ tr = [] /\ w' = w
  end.
Proof. exact update_ref_refines. Qed.

(* on every state reachable from an empty directory a refused branch, switch or
   update-ref command — whatever its arguments — changes nothing *)
Theorem C10_refused_changes_nothing : forall h e c w' tr,
  branch_family c -> refs_commits_ok (run h w_empty) ->
  step (ACmd e c) (run h w_empty) = (w', OErr, tr) -> tr = [] /\ w' = run h w_empty.
Proof. exact refused_branch_ops_unchanged_reachable. Qed.

(* `branch --list` and `rev-parse` report exactly the stored state *)
Theorem C10_list_reports_state : forall e w x,
  w_inited w = true -> ctx_of w = Some x ->
  step (ACmd e (CBranch [] true [] [])) w = (w, OOk (branch_listing w), []).
Proof. exact branch_list_reports. Qed.

Theorem C10_rev_parse_reports_state : forall e args w x,
  w_inited w = true -> ctx_of w = Some x ->
  step (ACmd e (CRevParse args)) w
  = (w, match rev_parse_out w args with Some out => OOk out | None => OErr end, []).
Proof. exact rev_parse_reports. Qed.

(* the branch list stays sorted (the binary search over it relies on that) and
   every branch has its log, after every history *)
Theorem C10_refs_sorted : forall h, refs_sorted (run h w_empty).
Proof. exact refs_sorted_run. Qed.
Theorem C10_logs_cover_branches : forall h, blogs_cover_refs (run h w_empty).
Proof. exact blogs_cover_refs_run. Qed.

(* codecs of the two files that hold this state *)
Theorem C10_head_file_roundtrip : forall n,
  valid_branch_name n = true -> ~ In c_nl n -> parse_head (render_head n) = Some n.
Proof. exact parse_head_render. Qed.
Theorem C10_branch_file_roundtrip : forall id, length id = 20 -> parse_ref (render_ref id) = Some id.
Proof. exact read_hash_hex. Qed.

Print Assumptions C10_branch_create.
Print Assumptions C10_branch_create_spec.
Print Assumptions C10_branch_delete.
Print Assumptions C10_branch_rename.
Print Assumptions C10_switch.
Print Assumptions C10_switch_create.
Print Assumptions C10_update_ref.
Print Assumptions C10_refused_changes_nothing.
Print Assumptions C10_list_reports_state.
Print Assumptions C10_rev_parse_reports_state.
Print Assumptions C10_refs_sorted.
Print Assumptions C10_logs_cover_branches.
Print Assumptions C10_head_file_roundtrip.
Print Assumptions C10_branch_file_roundtrip.
Print Assumptions C10_source_patterns_are_the_models.

(* on reachable repositories.  The single-step refinements above hold from an arbitrary world under
   hypotheses (`refs_commits_ok`, `blogs_cover_refs`, `ctx_of w = Some x`); on a reachable world the
   first two are invariants, and so is "the two config files load" (`config` refuses an empty section
   name and line feeds: C20_config_files_always_load).  What is left of the third is ONE condition:
   the user's own .goitignore reads (its lines are in the model's alphabet) — shown necessary by a
   witness in BranchReachFacts (cx_files_do_not_load, cx_switch_defined_but_refused).  One abstract
   machine a_cmd for every parameter shape of branch / switch / update-ref: *)
Theorem C10_step_refines_on_every_reachable_repository : forall e c w w' o tr,
  Reachable w -> w_coll w = false -> SmallStore (w_objs w) ->
  branch_family c -> w_inited w = true ->
  ign_load (am_get (w_files w) (str ".goitignore"%string)) <> None ->
  step (ACmd e c) w = (w', o, tr) ->
  match BranchReachFacts.a_cmd (commit_loads w) c (abs w) with
  | Some s' => o = OOk (BranchReachFacts.a_print c (abs w)) /\ abs w' = s' /\ frame w w'
  | None => o = OErr /\ tr = [] /\ w' = w
  end.
Proof. exact BranchReachFacts.family_step_refines''. Qed.

(* and over histories: after ANY sequence of branch / switch / update-ref commands (accepted or
   refused, hostile arguments included) from a reachable repository, HEAD and the branch map are the
   fold of the abstract operations, refused ones being the identity, and nothing else changed but
   the journals; every answer (the lines of `branch --list` included) is the abstract machine's *)
Theorem C10_history_refines : forall h w,
  Reachable w -> w_coll w = false -> SmallStore (w_objs w) ->
  ign_load (am_get (w_files w) (str ".goitignore"%string)) <> None ->
  Forall BranchReachFacts.family_action h ->
  abs (run h w) = BranchReachFacts.a_run (commit_loads w) h (abs w) /\ frame w (run h w).
Proof. exact BranchReachFacts.branch_history_refines'. Qed.

Theorem C10_history_answers : forall h w,
  Reachable w -> w_coll w = false -> SmallStore (w_objs w) ->
  w_inited w = true ->
  ign_load (am_get (w_files w) (str ".goitignore"%string)) <> None ->
  Forall BranchReachFacts.family_action h ->
  BranchReachFacts.outcomes h w = BranchReachFacts.a_outcomes (commit_loads w) h (abs w).
Proof. exact BranchReachFacts.branch_history_observable'. Qed.
Print Assumptions C10_step_refines_on_every_reachable_repository.
Print Assumptions C10_history_refines.
Print Assumptions C10_history_answers.

(* which stored value `rev-parse <name>` reports: the current branch's for the exact name HEAD, the
   named branch's for every other name -- a branch called "head" or "Head" included (repair F57) *)
Theorem C10_rev_parse_names_are_exact : forall w a,
  (a = str "HEAD"%string -> rev_name w a = w_head w) /\ (a <> str "HEAD"%string -> rev_name w a = a).
Proof. intros w a. split; [intros ->; exact (rev_name_head w) | exact (rev_name_other w a)]. Qed.
Print Assumptions C10_rev_parse_names_are_exact.
