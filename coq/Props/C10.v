(* C10 — Branch and HEAD state machine.
   Part 1: the branch-file codec and HEAD's regexp gate.  Part 2 (refinement of
   every branch/switch/update-ref operation to the abstract machine) is
   appended when BranchFacts.v is built. *)
From Coq Require Import Strings.String Strings.Byte.
From Coq Require Import List NArith.
From Goit Require Import Bytes Obj Regex GoRegex Refs ObjFacts RegexFacts.
Import ListNotations.

(* a branch file written for a 20-byte id reads back as that id *)
Theorem C10_branch_file_roundtrip : forall id,
  length id = 20 -> parse_ref (render_ref id) = Some id.
Proof. exact read_hash_hex. Qed.

(* the HEAD text written for a branch name passes NewHead's regexp gate (the
   pattern REGENERATED from internal/store/head.go) *)
Theorem C10_head_line_accepted : forall n,
  n <> [] -> ~ In x0a n -> re_search re_headRegexp (str "ref: refs/heads/" ++ n) = true.
Proof. exact head_line_accepts. Qed.

Print Assumptions C10_branch_file_roundtrip.
Print Assumptions C10_head_line_accepted.
