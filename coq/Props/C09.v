(* C09 — restore is exact, in the working tree and in the staging area.
   Part 1: selection of the paths a restore argument names, and the exactness
   of the staging-area operations `restore --staged` performs.  Part 2
   (command-level specifications) is appended when ExactFacts.v is built. *)
From Coq Require Import Strings.String Strings.Byte.
From Coq Require Import List NArith.
From Goit Require Import Bytes Tree Index IndexFacts DiffFacts TreeFacts.
From Goit Require Import Obj World Repo ExactFacts.
From Goit Require Import Bridge.
From Goit Require TreeUniqueFacts.
From Goit Require Import Inv BranchFacts SnapshotFacts RestoreFacts.
Import ListNotations.

(* T0 (tie to the source): every regexp literal of the current Go source denotes
   the same language, with the same anchoring, as the pattern of the model — proved
   by running the verified equivalence checker on SrcRegex.v, which is regenerated
   from /repo on every run (see Bridge.v) *)
Theorem C09_source_patterns_are_the_models : source_patterns_agree.
Proof. exact source_patterns. Qed.

(* a directory argument selects exactly the tracked paths beneath "<name>/",
   whether or not they exist on disk; never a path that merely contains the
   name, whatever characters the name contains (no regular expression is built
   from it) *)
Theorem C09_dir_selects_exactly : forall es name e,
  In e (entries_by_dir es name) <-> In e es /\ under_dir name (e_path e) = true.
Proof. exact entries_by_dir_exact. Qed.

Theorem C09_under_dir_is_a_prefix_relation : forall name p,
  name <> [x2e] ->
  (under_dir name p = true <-> exists rest, rest <> [] /\ p = name ++ [c_slash] ++ rest).
Proof. exact under_dir_spec. Qed.

(* `restore --staged p` takes the entry from the HEAD snapshot: the lookup
   finds a file node iff p is in the snapshot, with the snapshot's id *)
Theorem C09_head_lookup_exact : forall its,
  Forall wf_item its -> Canonical (flat_items [] its) ->
  forall p, (exists n, get_node (map node_of its) p = Some n /\ is_leaf n = true) <-> In p (paths_of its).
Proof. exact get_node_leaf_iff. Qed.

(* and it sets / removes exactly that entry *)
Theorem C09_set_entry_exact : forall es id p es',
  Canonical es -> idx_update es id p = Some es' ->
  Canonical es' /\ (forall q, In q (paths es') <-> q = p \/ In q (paths es)) /\
  (forall e, In e es' -> e_path e = p -> e_id e = id) /\
  (forall e, e_path e <> p -> (In e es' <-> In e es)).
Proof. exact idx_update_spec. Qed.

Theorem C09_remove_entry_exact : forall es p es',
  Canonical es -> idx_delete es p = Some es' ->
  Canonical es' /\ ~ In p (paths es') /\ (forall e, e_path e <> p -> (In e es' <-> In e es)).
Proof. exact idx_delete_spec. Qed.


(* ---------- Part 2: the commands ---------- *)
(* restore <paths>: every target (a named tracked file, or every tracked path
   beneath a named directory, whether or not it exists on disk) ends up
   byte-identical to its staged blob; no other file, nothing in the staging
   area, no object and no ref changes; only files that are targets are written *)
Theorem C09_restore_worktree_spec : forall c args w out w' tr,
  run_m (cmd_restore c false args) w = (Ok out, w', tr) ->
  restore_wd_post w (wd_targets w args) w' /\ w' = apply_effects tr w /\
  Forall (fun e => match e with EWriteFile q _ => In q (wd_targets w args) | EMkdirAll _ => True | _ => False end) tr.
Proof. exact cmd_restore_wd_spec. Qed.

(* a path known to neither is refused and nothing is written *)
Theorem C09_restore_unknown_refused : forall c w args a,
  In a args -> staged w a = None -> entries_by_dir (idx_of w) a = [] ->
  runs (cmd_restore c false args) w Err [] /\ run_m (cmd_restore c false args) w = (Err, w, []).
Proof. exact cmd_restore_wd_unknown. Qed.

(* restore --staged <paths>: the staged entry of every target becomes its entry
   in the HEAD snapshot (removed if HEAD has none, re-created if it had been
   unstaged); every other entry and the whole work tree are unchanged *)
Theorem C09_restore_staged_spec : forall c args w out w' tr,
  IndexFacts.Canonical (idx_of w) -> run_m (cmd_restore c true args) w = (Ok out, w', tr) ->
  exists ns, head_nodes c w = Some ns /\ restore_idx_post w ns (idx_targets w ns args) w' /\
             w' = apply_effects tr w /\ Forall (fun e => is_idx e = true) tr.
Proof. exact cmd_restore_idx_spec. Qed.

(* ---------- Part 2: totality on every reachable repository, argument lists ---------- *)
(* restore <paths>: on every reachable repository, for ANY non-empty list of
   arguments each naming a tracked file or a directory with tracked files
   beneath (whether or not it exists on disk), provided no file sits where a
   directory is needed and no directory at a selected path ([restorable]; both
   shown necessary by witnesses in RestoreFacts.v) and no selected path lies
   above another ([wd_flat]: the staging area can hold d and d/x, see DESIGN.md):
   the command SUCCEEDS; every selected file holds the bytes of its staged blob;
   every other file, the staging area, objects, refs, HEAD, logs, configs are
   unchanged; only missing parent directories are created *)
Theorem C09_restore_worktree_total : forall e c w args,
  Reachable w -> w_coll w = false -> SmallStore (w_objs w) -> w_inited w = true -> ctx_of w = Some c ->
  args <> [] -> (forall a, In a args -> wd_known w a) ->
  (forall q, wd_selected w args q -> restorable w q) -> wd_flat w args ->
  exists w' tr, step (ACmd e (CRestore false args)) w = (w', OOk [], tr) /\
    restore_wt_result w args w' /\ w' = apply_effects tr w /\
    Forall (fun ef => match ef with EWriteFile q _ => wd_selected w args q | EMkdirAll _ => True | _ => False end) tr.
Proof. exact restore_worktree_total. Qed.

(* restore --staged <paths>: every selected entry (named, or beneath a named
   directory, in the staging area or in HEAD's snapshot) becomes HEAD's entry
   (removed if HEAD has none, re-created if it had been unstaged); every other
   entry and the work tree are unchanged; the staging area stays canonical *)
Theorem C09_restore_staged_total : forall e c w args ns,
  Reachable w -> w_coll w = false -> SmallStore (w_objs w) -> w_inited w = true -> ctx_of w = Some c ->
  head_nodes c w = Some ns -> args <> [] -> (forall a, In a args -> st_known w ns a) ->
  repeats_in_head ns (idx_targets w ns args) ->
  exists w' tr, step (ACmd e (CRestore true args)) w = (w', OOk [], tr) /\
    restore_st_result w ns args w' /\ w' = apply_effects tr w /\ Forall (fun ef => is_idx ef = true) tr.
Proof. exact restore_staged_total. Qed.

(* a path known to neither is refused: if SOME argument names nothing, the whole
   command is refused with the world unchanged, whatever the other arguments
   (with --staged, "." names the root of HEAD's snapshot: it names nothing only
   when the snapshot is empty) *)
Theorem C09_unknown_argument_refuses_all : forall e w stg_mode args a,
  In a args -> staged w a = None ->
  (forall en, In en (idx_of w) -> under_dir a (e_path en) = false) ->
  (stg_mode = true -> forall c ns, ctx_of w = Some c -> head_nodes c w = Some ns ->
     get_node ns a = None /\ (a = [x2e] -> flatten [] ns = [])) ->
  step (ACmd e (CRestore stg_mode args)) w = (w, OErr, []).
Proof. exact restore_unknown_refused. Qed.

(* restore --staged . resets the WHOLE staging area to HEAD's snapshot: paths
   staged but not in HEAD are unstaged, paths of HEAD that were removed from
   the staging area are re-created, every id is HEAD's; the work tree, objects,
   refs, HEAD, logs and configs are unchanged *)
Theorem C09_restore_staged_dot_resets_everything : forall e c w ns,
  Reachable w -> w_coll w = false -> SmallStore (w_objs w) -> w_inited w = true -> ctx_of w = Some c ->
  head_nodes c w = Some ns ->
  staged w [x2e] = None -> stg (flatten [] ns) [x2e] = None ->
  idx_of w <> [] \/ flatten [] ns <> [] ->
  exists w' tr, step (ACmd e (CRestore true [[x2e]])) w = (w', OOk [], tr) /\
    idx_of w' = flatten [] ns /\
    (forall q, staged w' q = stg (flatten [] ns) q) /\
    same_wt w w' /\ same_objs w w' /\ ExactFacts.same_meta w w' /\
    w' = apply_effects tr w /\ Forall (fun ef => is_idx ef = true) tr.
Proof. exact restore_staged_dot_resets_everything. Qed.

Print Assumptions C09_dir_selects_exactly.
Print Assumptions C09_under_dir_is_a_prefix_relation.
Print Assumptions C09_head_lookup_exact.
Print Assumptions C09_set_entry_exact.
Print Assumptions C09_remove_entry_exact.
Print Assumptions C09_restore_worktree_spec.
Print Assumptions C09_restore_unknown_refused.
Print Assumptions C09_restore_staged_spec.
Print Assumptions C09_source_patterns_are_the_models.
Print Assumptions C09_restore_worktree_total.
Print Assumptions C09_restore_staged_total.
Print Assumptions C09_unknown_argument_refuses_all.
Print Assumptions C09_restore_staged_dot_resets_everything.

(* restore --staged on every reachable repository, with the selection stated on HEAD's snapshot only
   (no hypothesis on the shape of HEAD's tree: that no directory name occurs twice in a tree Goit wrote
   is an invariant of every history, TreeUniqueFacts.reachable_unique): exactly the selected entries
   become HEAD's entries, every other entry, the work tree, the store and the refs are unchanged *)
Theorem C09_restore_staged_total_spec : forall e c w args ns,
  Reachable w -> w_coll w = false -> SmallStore (w_objs w) ->
  w_inited w = true -> ctx_of w = Some c ->
  head_nodes c w = Some ns ->
  args <> [] ->
  (forall a, In a args -> st_known w ns a) ->
  repeats_in_head ns (idx_targets w ns args) ->
  exists w' tr,
    step (ACmd e (CRestore true args)) w = (w', OOk [], tr) /\
    Canonical (idx_of w') /\
    (forall q, st_selected_spec w (flatten [] ns) args q -> staged w' q = stg (flatten [] ns) q) /\
    (forall q, ~ st_selected_spec w (flatten [] ns) args q -> staged w' q = staged w q) /\
    same_wt w w' /\ same_objs w w' /\ ExactFacts.same_meta w w' /\
    w' = apply_effects tr w /\ Forall (fun ef => is_idx ef = true) tr.
Proof. exact TreeUniqueFacts.restore_staged_total_spec'. Qed.

(* the selection computed by Goit's walk over HEAD's tree is the selection by path prefix *)
Theorem C09_selection_is_by_prefix : forall w c ns args q,
  Reachable w -> w_coll w = false -> SmallStore (w_objs w) -> ctx_of w = Some c ->
  head_nodes c w = Some ns ->
  (st_selected w ns args q <-> st_selected_spec w (flatten [] ns) args q).
Proof. exact TreeUniqueFacts.st_selected_iff_reachable. Qed.
Print Assumptions C09_restore_staged_total_spec.
Print Assumptions C09_selection_is_by_prefix.
