(* C19 — Decoders are total: damaged files give errors, not crashes or wrong data.
   In the model every decoder is a total function into [option]; that they
   mirror the Go decoders (including "no panic") is what the correspondence on
   mutated files checks.  The theorems here are the integrity and boundedness
   halves. *)
From Coq Require Import Strings.String Strings.Byte.
From Coq Require Import List NArith.
From Goit Require Import Bytes Sha1 Obj Tree Index BytesFacts ObjFacts IndexFacts.
From Goit Require Import Sha1 Refs Tree Commit Reflog Config ConfigFacts ReflogFacts RegexFacts Regex GoRegex World Repo DecoderFacts.
From Goit Require Import Bridge.
Import ListNotations.

(* T0 (tie to the source): every regexp literal of the current Go source denotes
   the same language, with the same anchoring, as the pattern of the model — proved
   by running the verified equivalence checker on SrcRegex.v, which is regenerated
   from /repo on every run (see Bridge.v) *)
Theorem C19_source_patterns_are_the_models : source_patterns_agree.
Proof. exact source_patterns. Qed.

(* T1: whatever bytes sit in an object file, GetObject returns an object only
   if those bytes hash to the id that was asked for — a truncated, bit-flipped
   or misplaced file is never returned as the requested content *)
Theorem C19_get_integrity : forall st id k d,
  get_obj st id = Some (k, d) ->
  exists p, st_lookup st id = Some p /\ sha1 p = id /\ parse_payload p = Some (k, d).
Proof. exact get_obj_integrity. Qed.

(* T2: the entry count announced by a staging-area file cannot exceed what the
   file holds: the attacker-chosen count does not drive the decoder *)
Theorem C19_index_count_bounded : forall b es,
  decode_index b = Some es -> 12 + 22 * length es <= length b.
Proof. exact decode_index_bounded. Qed.

(* T3: whatever the staging-area decoder accepts is well-formed and is a fixed
   point of the codec *)
Theorem C19_index_decoded_wf : forall b es,
  decode_index b = Some es -> Forall wf_entry es /\ (N.of_nat (length es) < 2 ^ 32)%N.
Proof. exact decode_index_wf. Qed.

Theorem C19_index_decode_stable : forall b es,
  decode_index b = Some es -> decode_index (encode_index es) = Some es.
Proof. exact decode_encode_decode. Qed.

(* T4: an object header announcing more than int64 is rejected, not wrapped *)
Theorem C19_oversize_header_rejected : forall k d,
  (2 ^ 63 <= lenN d)%N -> parse_payload (payload k d) = None.
Proof. exact payload_too_big. Qed.

(* ---------- Part 2: what the decoders accept, and the commands built on them ---------- *)
(* a file stored under a name that is not the SHA-1 of its bytes is never returned *)
Theorem C19_wrong_name_never_returned : forall st id p,
  st_lookup st id = Some p -> sha1 p <> id -> get_obj st id = None.
Proof. exact get_obj_wrong_name. Qed.

(* two different ids never answer with the same file *)
Theorem C19_names_distinct : forall st id1 id2 kd1 kd2,
  get_obj st id1 = Some kd1 -> get_obj st id2 = Some kd2 -> st_lookup st id1 = st_lookup st id2 -> id1 = id2.
Proof. exact get_obj_names_distinct. Qed.

(* a truncated or extended object file does not load, whatever its name *)
Theorem C19_truncated_rejected : forall k d n,
  (n < length d)%nat -> parse_payload (header k (lenN d) ++ firstn n d) = None.
Proof. exact payload_truncated_rejected. Qed.

Theorem C19_extended_rejected : forall k d x, x <> [] -> parse_payload (payload k d ++ x) = None.
Proof. exact payload_extended_rejected. Qed.

Theorem C19_resized_rejected : forall h d d' kd,
  ~ In c_nul h -> parse_payload (h ++ c_nul :: d) = Some kd -> length d' <> length d ->
  parse_payload (h ++ c_nul :: d') = None.
Proof. exact payload_resized_rejected. Qed.

(* whatever a tree object holds, an accepted walk yields 20-byte ids and
   NUL-free names at every depth, and is no deeper than its fuel *)
Theorem C19_tree_walk_sound : forall fuel st data ns,
  walk_tree fuel st data = Some ns -> Forall node_ok ns /\ (forest_depth ns <= fuel)%nat.
Proof. exact walk_tree_sound. Qed.

(* an accepted id text is hex, at least 40 digits long, and decodes to itself *)
Theorem C19_read_hash_sound : forall s id,
  read_hash s = Some id ->
  unhex s = Some id /\ hexsub 40 s /\ length s = (2 * length id)%nat /\ hex id = map lower s /\ (20 <= length id)%nat.
Proof. exact read_hash_sound. Qed.

(* an accepted HEAD names what follows its last '/' *)
Theorem C19_head_sound : forall raw n,
  parse_head raw = Some n ->
  re_search re_headRegexp raw = true /\ ~ In c_slash n /\ exists a, raw = a ++ c_slash :: n.
Proof. exact parse_head_sound. Qed.

(* an accepted journal: every record comes from a line of the file, ids are
   absent or real, and a position beyond the records is answered None — never
   an out-of-range access *)
Theorem C19_reflog_sound : forall b rs,
  parse_reflog b = Some rs ->
  Forall (fun r => match r_id r with Some h => (20 <= length h)%nat /\ h <> zero_id | None => True end) rs /\
  Forall (fun r => exists l, In l (scan_lines b) /\ parse_log_line l = Some (Some r)) rs /\
  (length rs <= length (scan_lines b))%nat.
Proof. exact parse_reflog_sound. Qed.

Theorem C19_reflog_position_beyond : forall rs n, (length rs <= n)%nat -> get_record rs n = None.
Proof. exact get_record_beyond. Qed.

(* an accepted config file is well formed (non-empty section names, keys and
   values without line break or TAB) *)
Theorem C19_config_sound : forall b c, cfg_load b = Some c -> wf_cfg c.
Proof. exact cfg_load_sound. Qed.

(* the reading commands (status, log, reflog, ls-files, cat-file, rev-parse,
   hash-object, branch --list) on ANY world — arbitrary bytes in the object
   store, any staging area, any journal text, any configuration — end without a
   panic and change nothing: the world is the same and the trace is empty *)
Theorem C19_reading_commands_total_and_read_only : forall e c w,
  read_only c = true -> exists out, step (ACmd e c) w = (w, out, []) /\ out <> OPanic.
Proof. exact read_only_commands_are_read_only. Qed.

Print Assumptions C19_get_integrity.
Print Assumptions C19_index_count_bounded.
Print Assumptions C19_index_decoded_wf.
Print Assumptions C19_index_decode_stable.
Print Assumptions C19_oversize_header_rejected.
Print Assumptions C19_wrong_name_never_returned.
Print Assumptions C19_names_distinct.
Print Assumptions C19_truncated_rejected.
Print Assumptions C19_extended_rejected.
Print Assumptions C19_resized_rejected.
Print Assumptions C19_tree_walk_sound.
Print Assumptions C19_read_hash_sound.
Print Assumptions C19_head_sound.
Print Assumptions C19_reflog_sound.
Print Assumptions C19_reflog_position_beyond.
Print Assumptions C19_config_sound.
Print Assumptions C19_reading_commands_total_and_read_only.
Print Assumptions C19_source_patterns_are_the_models.
