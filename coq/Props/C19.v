(* C19 — Decoders are total: damaged files give errors, not crashes or wrong data.
   In the model every decoder is a total function into [option]; that they
   mirror the Go decoders (including "no panic") is what the correspondence on
   mutated files checks.  The theorems here are the integrity and boundedness
   halves. *)
From Coq Require Import Strings.String Strings.Byte.
From Coq Require Import List NArith.
From Goit Require Import Bytes Sha1 Obj Tree Index BytesFacts ObjFacts IndexFacts.
Import ListNotations.

(* T1: whatever bytes sit in an object file, GetObject returns an object only
   if those bytes hash to the id that was asked for — a truncated, bit-flipped
   or misplaced file is never returned as the requested content *)
Theorem C19_get_integrity : forall st id k d,
  get_obj st id = Some (k, d) ->
  exists p, st_lookup st id = Some p /\ sha1 p = id /\ parse_payload p = Some (k, d).
Proof. exact get_obj_integrity. Qed.

(* T2: the entry count announced by a staging-area file cannot exceed what the
   file holds: the attacker-chosen count does not drive the decoder *)
Theorem C19_index_count_bounded : forall b es,
  decode_index b = Some es -> 12 + 22 * length es <= length b.
Proof. exact decode_index_bounded. Qed.

(* T3: whatever the staging-area decoder accepts is well-formed and is a fixed
   point of the codec *)
Theorem C19_index_decoded_wf : forall b es,
  decode_index b = Some es -> Forall wf_entry es /\ (N.of_nat (length es) < 2 ^ 32)%N.
Proof. exact decode_index_wf. Qed.

Theorem C19_index_decode_stable : forall b es,
  decode_index b = Some es -> decode_index (encode_index es) = Some es.
Proof. exact decode_encode_decode. Qed.

(* T4: an object header announcing more than int64 is rejected, not wrapped *)
Theorem C19_oversize_header_rejected : forall k d,
  (2 ^ 63 <= lenN d)%N -> parse_payload (payload k d) = None.
Proof. exact payload_too_big. Qed.

Print Assumptions C19_get_integrity.
Print Assumptions C19_index_count_bounded.
Print Assumptions C19_index_decoded_wf.
Print Assumptions C19_index_decode_stable.
Print Assumptions C19_oversize_header_rejected.
