(* C16 — I/O failures are reported, never silently absorbed.
   Fault semantics of the model: the k-th modifying effect of the command (one
   created-and-written file, mkdir, rename or remove) fails and leaves the disk
   alone.  Read failures and the failure of a write AFTER its truncating create
   succeeded are covered on the implementation only (see DESIGN, C16). *)
From Coq Require Import Strings.String Strings.Byte.
From Coq Require Import List NArith.
From Goit Require Import Bytes World Repo MonadFacts.
Import ListNotations.

(* T1: if the failing effect is one the fault-free run performs, the command
   ends with an error — it never reports success after a modification it
   depends on failed — and the disk holds exactly the effects before it *)
Theorem C16_failure_is_reported : forall e c w r w' tr k,
  run_m (run_cmd e c) w = (r, w', tr) -> k < length tr ->
  run_cmd e c (mkMS w [] (Some k))
  = (Err, mkMS (apply_effects (firstn k tr) w) (firstn k tr) None).
Proof. exact cmd_fault_prefix. Qed.

(* T2: otherwise the command produces exactly the result it would have
   produced without the failure *)
Theorem C16_no_failure_no_difference : forall e c w r w' tr k,
  run_m (run_cmd e c) w = (r, w', tr) -> length tr <= k ->
  run_cmd e c (mkMS w [] (Some k)) = (r, mkMS w' tr (Some (k - length tr))).
Proof. exact cmd_fault_beyond. Qed.

Print Assumptions C16_failure_is_reported.
Print Assumptions C16_no_failure_no_difference.
