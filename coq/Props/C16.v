(* C16 — I/O failures are reported, never silently absorbed.
   Fault semantics of the model: the k-th modifying effect of the command (one
   created-and-written file, mkdir, rename or remove) fails and leaves the disk
   alone.  Read failures and the failure of a write AFTER its truncating create
   succeeded are covered on the implementation only (see DESIGN, C16). *)
From Coq Require Import Strings.String Strings.Byte.
From Coq Require Import List NArith.
From Goit Require Import Bytes World Repo MonadFacts.
From Goit Require Import Inv ConnectedFacts.
From Goit Require Import Bridge.
From Goit Require Import Refs BranchFacts.
From Goit Require FaultReachFacts CrashBranchFacts.
Import ListNotations.

(* T0 (tie to the source): every regexp literal of the current Go source denotes
   the same language, with the same anchoring, as the pattern of the model — proved
   by running the verified equivalence checker on SrcRegex.v, which is regenerated
   from /repo on every run (see Bridge.v) *)
Theorem C16_source_patterns_are_the_models : source_patterns_agree.
Proof. exact source_patterns. Qed.

(* T1: if the failing effect is one the fault-free run performs, the command
   ends with an error — it never reports success after a modification it
   depends on failed — and the disk holds exactly the effects before it *)
Theorem C16_failure_is_reported : forall e c w r w' tr k,
  run_m (run_cmd e c) w = (r, w', tr) -> k < length tr ->
  run_cmd e c (mkMS w [] (Some k))
  = (Err, mkMS (apply_effects (firstn k tr) w) (firstn k tr) None).
Proof. exact cmd_fault_prefix. Qed.

(* T2: otherwise the command produces exactly the result it would have
   produced without the failure *)
Theorem C16_no_failure_no_difference : forall e c w r w' tr k,
  run_m (run_cmd e c) w = (r, w', tr) -> length tr <= k ->
  run_cmd e c (mkMS w [] (Some k)) = (r, mkMS w' tr (Some (k - length tr))).
Proof. exact cmd_fault_beyond. Qed.


(* ---------- Part 2: a failure on any reachable repository ---------- *)
(* Make the k-th modifying effect of any command fail, on any reachable
   repository: the repository stays connected (`branch --rename` included: it
   writes the new branch, re-points HEAD and only then removes the old branch),
   and if that effect belongs to the fault-free run the command
   answers with an error and the disk holds exactly the earlier effects — no
   branch is ever advanced to a commit lacking its parent link, snapshot or
   blobs, because every prefix state is connected *)
Theorem C16_fault_safe : forall h e c k r s',
  Forall action_ok h -> run_cmd e c (mkMS (run h w_empty) [] (Some k)) = (r, s') -> ~ Bad (ms_w s') ->
  Connected (ms_w s') /\
  (forall r0 w0 tr, run_m (run_cmd e c) (run h w_empty) = (r0, w0, tr) -> k < length tr ->
     r = Err /\ ms_w s' = apply_effects (firstn k tr) (run h w_empty)).
Proof. exact reachable_fault_safe. Qed.

Print Assumptions C16_failure_is_reported.
Print Assumptions C16_no_failure_no_difference.
Print Assumptions C16_fault_safe.
Print Assumptions C16_source_patterns_are_the_models.

(* "Afterwards the repository is still connected ...": also when the history goes on.  The world a
   failed command stops in belongs to the closure FReachable (commands, valid edits, failed
   commands), on which C15_invariants_after_crashes_and_faults gives every invariant of the
   fault-free histories; in particular a further command, failing or not, starts from a world with
   those invariants again *)
Theorem C16_failed_command_stays_in_the_closure : forall e c k w r s',
  FaultReachFacts.FReachable w -> run_cmd e c (mkMS w [] (Some k)) = (r, s') ->
  FaultReachFacts.FReachable (ms_w s').
Proof. exact FaultReachFacts.FRf. Qed.

(* "no branch has been advanced to a commit that lacks ...": in the world a failed command stops in,
   every branch holds what it held before or what the fault-free run installs *)
Theorem C16_fault_branch_old_or_new : forall h e c k r s' n id,
  Forall action_ok h ->
  run_cmd e c (mkMS (run h w_empty) [] (Some k)) = (r, s') ->
  am_get (w_refs (ms_w s')) n = Some id ->
  am_get (w_refs (run h w_empty)) n = Some id \/
  am_get (w_refs (run (h ++ [ACmd e c]) w_empty)) n = Some id.
Proof. exact CrashBranchFacts.reachable_fault_branch_old_or_new. Qed.
Print Assumptions C16_failed_command_stays_in_the_closure.
Print Assumptions C16_fault_branch_old_or_new.
