(* C04 — Staging is exact: add and rm change precisely the named paths.
   Part 1: the two staging-area operations every add / rm / restore goes
   through.  Part 2 (command-level specifications) is appended when
   ExactFacts.v is built. *)
From Coq Require Import Strings.String Strings.Byte.
From Coq Require Import List NArith.
From Goit Require Import Bytes Tree Index IndexFacts.
From Goit Require Import Obj World Repo ExactFacts.
From Goit Require Import Bridge.
From Goit Require Import Inv BranchFacts SnapshotFacts AddressFacts AddTotalFacts.
Import ListNotations.

(* T0 (tie to the source): every regexp literal of the current Go source denotes
   the same language, with the same anchoring, as the pattern of the model — proved
   by running the verified equivalence checker on SrcRegex.v, which is regenerated
   from /repo on every run (see Bridge.v) *)
Theorem C04_source_patterns_are_the_models : source_patterns_agree.
Proof. exact source_patterns. Qed.

(* staging path p with id: afterwards p is staged with exactly that id, every
   other entry is unchanged, the list stays strictly ascending *)
Theorem C04_stage_exact : forall es id p es',
  Canonical es -> idx_update es id p = Some es' ->
  Canonical es' /\ (forall q, In q (paths es') <-> q = p \/ In q (paths es)) /\
  (forall e, In e es' -> e_path e = p -> e_id e = id) /\
  (forall e, e_path e <> p -> (In e es' <-> In e es)).
Proof. exact idx_update_spec. Qed.

(* re-adding an unchanged file changes nothing: the operation reports "nothing
   to do" exactly when that id is already staged for p *)
Theorem C04_restage_noop : forall es id p,
  Canonical es -> (idx_update es id p = None <-> exists e, In e es /\ e_path e = p /\ e_id e = id).
Proof. exact idx_update_none_iff. Qed.

(* unstaging p removes exactly p *)
Theorem C04_unstage_exact : forall es p es',
  Canonical es -> idx_delete es p = Some es' ->
  Canonical es' /\ ~ In p (paths es') /\ (forall e, e_path e <> p -> (In e es' <-> In e es)).
Proof. exact idx_delete_spec. Qed.

Theorem C04_unstage_unknown_refused : forall es p,
  Canonical es -> (idx_delete es p = None <-> ~ In p (paths es)).
Proof. exact idx_delete_none. Qed.

(* a directory argument selects exactly the tracked paths beneath it *)
Theorem C04_dir_selects_exactly : forall es name e,
  In e (entries_by_dir es name) <-> In e es /\ under_dir name (e_path e) = true.
Proof. exact entries_by_dir_exact. Qed.


(* ---------- Part 2: the commands ---------- *)
(* views: what is staged at a path, what file is at a path *)

(* add of one file: afterwards the path is staged with the id of its current
   bytes and that blob is stored; every other staged entry, the work tree,
   refs, HEAD, logs and configs are unchanged; every stored object is kept;
   if that id was already staged NOTHING changes (empty trace, same world) *)
Theorem C04_add_file_spec : forall w p data,
  IndexFacts.Canonical (idx_of w) -> file w p = Some data ->
  exists tr, runs (add_file p) w (Ok tt) tr /\ Forall add_eff tr /\
             (staged w p = Some (blob_id data) -> tr = []) /\ add_file_post w p data (apply_effects tr w).
Proof. exact add_file_spec. Qed.

(* a directory argument: every non-ignored file beneath it is staged with its
   id, everything else keeps its staged value, the work tree is untouched *)
Theorem C04_add_dir_spec : forall c w d,
  IndexFacts.Canonical (idx_of w) -> ex_wt_consistent w -> wt_stat w d = SDir -> ignored w (x_pats c) d = false ->
  exists tr, runs (cmd_add c [d]) w (Ok []) tr /\ Forall add_eff tr /\
             add_dir_post w (x_pats c) (fun q => In q (files_under w d)) (apply_effects tr w) /\
             (w_coll (apply_effects tr w) = false -> objs_kept w (apply_effects tr w)).
Proof. exact cmd_add_dir_spec. Qed.

(* a tracked path that no longer exists is unstaged, nothing else changes *)
Theorem C04_add_missing_spec : forall c w a,
  IndexFacts.Canonical (idx_of w) -> wt_stat w a = SNone -> staged w a <> None -> ignored w (x_pats c) a = false ->
  exists i, idx_delete (idx_of w) a = Some i /\ runs (cmd_add c [a]) w (Ok []) [ESetIndex i] /\
             add_missing_post w a (apply_effects [ESetIndex i] w).
Proof. exact cmd_add_missing_spec. Qed.

(* a directory holding tracked paths that no longer exists on disk (or whose name is
   now below a file): every tracked path beneath it is unstaged, one staging-area write
   each; every other staged value, the work tree, refs, HEAD, logs, configs and the
   object store are unchanged *)
Theorem C04_add_missing_dir_spec : forall c w a,
  IndexFacts.Canonical (idx_of w) -> (wt_stat w a = SNone \/ wt_stat w a = SNotDir) ->
  tracked w a = false -> is_dir (idx_of w) a = true -> ignored w (x_pats c) a = false ->
  exists tr, runs (cmd_add c [a]) w (Ok []) tr /\
             Forall (fun e => is_idx e = true) tr /\
             length tr = length (entries_by_dir (idx_of w) a) /\
             add_missing_dir_post w (fun q => under_dir a q = true) (apply_effects tr w).
Proof. exact cmd_add_missing_dir_spec. Qed.

(* the whole command, any argument list, any outcome: only object and
   staging-area writes; work tree, refs, HEAD, logs, configs untouched; stored
   objects kept; a staged value changes only at an argument or beneath one
   (an existing file, or a staged path when the argument is not on disk) *)
Theorem C04_add_frame : forall c w args r w' tr,
  IndexFacts.Canonical (idx_of w) -> run_m (cmd_add c args) w = (r, w', tr) ->
  w' = apply_effects tr w /\ Forall add_eff tr /\ same_wt w w' /\ same_meta w w' /\
  (w_coll w' = false -> objs_kept w w') /\ IndexFacts.Canonical (idx_of w') /\
  (forall q, staged w' q <> staged w q -> add_sel w args q).
Proof. exact cmd_add_frame. Qed.

Theorem C04_add_unknown_refused : forall c w args,
  forallb (fun a => exists_on_disk w a || tracked w a || is_dir (idx_of w) a)%bool args = false ->
  runs (cmd_add c args) w Err [] /\ run_m (cmd_add c args) w = (Err, w, []).
Proof. exact cmd_add_refuses. Qed.

(* rm of a directory: exactly the tracked paths beneath it leave both the
   staging area and the work tree *)
Theorem C04_rm_dir_spec : forall w d,
  IndexFacts.Canonical (idx_of w) -> ex_nodup_keys (w_files w) -> staged w d = None -> is_dir (idx_of w) d = true ->
  (forall q, staged w q <> None -> under_dir d q = true -> wt_stat w q = SFile \/ wt_stat w q = SNone) ->
  exists tr, runs (cmd_rm [d]) w (Ok []) tr /\
    Forall (fun e => rm_eff e /\ (forall q, e = ERemovePath q -> staged w q <> None /\ under_dir d q = true)) tr /\
    rm_many_post w (fun q => staged w q <> None /\ under_dir d q = true) (apply_effects tr w).
Proof. exact cmd_rm_dir_spec. Qed.

(* the whole command, any outcome: objects, refs, HEAD, logs, configs untouched
   and NO untracked file is removed or modified *)
Theorem C04_rm_frame : forall w args r w' tr,
  IndexFacts.Canonical (idx_of w) -> run_m (cmd_rm args) w = (r, w', tr) ->
  w' = apply_effects tr w /\ Forall (rm_allowed w) tr /\ same_objs w w' /\ same_meta w w' /\
  (forall q, staged w q = None -> file w' q = file w q).
Proof. exact cmd_rm_frame. Qed.

Theorem C04_rm_unknown_refused : forall w args,
  forallb (fun a => tracked w a || is_dir (idx_of w) a)%bool args = false ->
  runs (cmd_rm args) w Err [] /\ run_m (cmd_rm args) w = (Err, w, []).
Proof. exact cmd_rm_refuses. Qed.

(* ---------- Part 3: total specifications for argument lists, on every reachable repository ---------- *)
(* add <paths>: for ANY non-empty list of pairwise non-overlapping arguments
   each of which exists on disk, is tracked, or is a tracked directory, on a
   consistent work tree: the command SUCCEEDS; every selected, not excluded file
   is staged with the id of its current bytes and (no collision flagged) that
   blob is stored with exactly those bytes; every named tracked path that no
   longer exists (or lies beneath a named tracked directory that no longer
   exists) is unstaged; every other path keeps its staged value; the work tree,
   refs, HEAD, logs, configs are untouched; stored objects are kept; the staging
   area stays canonical *)
Theorem C04_add_total : forall e c w args,
  Reachable w -> w_coll w = false -> SmallStore (w_objs w) -> w_inited w = true -> ctx_of w = Some c ->
  ex_wt_consistent w -> args <> [] -> (forall a, In a args -> add_valid w a = true) -> no_overlap args ->
  exists w' tr, step (ACmd e (CAdd args)) w = (w', OOk [], tr) /\ w' = apply_effects tr w /\
    Forall add_eff tr /\ add_result w (x_pats c) args w'.
Proof. exact add_total. Qed.

(* re-adding unchanged files changes nothing: same world, empty trace (repeated
   arguments allowed) *)
Theorem C04_re_add_unchanged_changes_nothing : forall e c w args,
  Reachable w -> w_coll w = false -> SmallStore (w_objs w) -> w_inited w = true -> ctx_of w = Some c ->
  args <> [] -> (forall a, In a args -> add_valid w a = true) ->
  (forall q data, add_stages w (x_pats c) args q data -> staged w q = Some (blob_id data)) ->
  (forall q, ~ add_unstages w (x_pats c) args q) ->
  step (ACmd e (CAdd args)) w = (w, OOk [], []).
Proof. exact re_add_unchanged_changes_nothing. Qed.

(* rm <paths>: exactly the selected tracked paths leave the staging area and
   the work tree; no untracked file is touched; objects, refs, HEAD, logs,
   configs untouched (each selected path a file or absent: a tracked path that
   has become a non-empty directory makes rm fail, witness W-3) *)
Theorem C04_rm_total : forall e c w args,
  Reachable w -> w_coll w = false -> SmallStore (w_objs w) -> w_inited w = true -> ctx_of w = Some c ->
  (forall a, In a args -> rm_valid w a = true) -> no_overlap args ->
  (forall q, rm_selected w args q -> wt_stat w q = SFile \/ wt_stat w q = SNone) ->
  exists w' tr, step (ACmd e (CRm args)) w = (w', OOk [], tr) /\ w' = apply_effects tr w /\
    Forall (fun ef => rm_eff ef /\ (forall q, ef = ERemovePath q -> rm_selected w args q)) tr /\
    rm_many_post w (rm_selected w args) w' /\
    (forall q, staged w q = None -> file w' q = file w q) /\
    (forall d, ~ rm_selected w args d -> set_mem (w_dirs w') d = set_mem (w_dirs w) d).
Proof. exact rm_total. Qed.

Print Assumptions C04_stage_exact.
Print Assumptions C04_restage_noop.
Print Assumptions C04_unstage_exact.
Print Assumptions C04_unstage_unknown_refused.
Print Assumptions C04_dir_selects_exactly.
Print Assumptions C04_add_file_spec.
Print Assumptions C04_add_dir_spec.
Print Assumptions C04_add_missing_spec.
Print Assumptions C04_add_missing_dir_spec.
Print Assumptions C04_add_frame.
Print Assumptions C04_add_unknown_refused.
Print Assumptions C04_rm_dir_spec.
Print Assumptions C04_rm_frame.
Print Assumptions C04_rm_unknown_refused.
Print Assumptions C04_source_patterns_are_the_models.
Print Assumptions C04_add_total.
Print Assumptions C04_re_add_unchanged_changes_nothing.
Print Assumptions C04_rm_total.
