(* C04 — Staging is exact: add and rm change precisely the named paths.
   Part 1: the two staging-area operations every add / rm / restore goes
   through.  Part 2 (command-level specifications) is appended when
   ExactFacts.v is built. *)
From Coq Require Import Strings.String Strings.Byte.
From Coq Require Import List NArith.
From Goit Require Import Bytes Tree Index IndexFacts.
Import ListNotations.

(* staging path p with id: afterwards p is staged with exactly that id, every
   other entry is unchanged, the list stays strictly ascending *)
Theorem C04_stage_exact : forall es id p es',
  Canonical es -> idx_update es id p = Some es' ->
  Canonical es' /\ (forall q, In q (paths es') <-> q = p \/ In q (paths es)) /\
  (forall e, In e es' -> e_path e = p -> e_id e = id) /\
  (forall e, e_path e <> p -> (In e es' <-> In e es)).
Proof. exact idx_update_spec. Qed.

(* re-adding an unchanged file changes nothing: the operation reports "nothing
   to do" exactly when that id is already staged for p *)
Theorem C04_restage_noop : forall es id p,
  Canonical es -> (idx_update es id p = None <-> exists e, In e es /\ e_path e = p /\ e_id e = id).
Proof. exact idx_update_none_iff. Qed.

(* unstaging p removes exactly p *)
Theorem C04_unstage_exact : forall es p es',
  Canonical es -> idx_delete es p = Some es' ->
  Canonical es' /\ ~ In p (paths es') /\ (forall e, e_path e <> p -> (In e es' <-> In e es)).
Proof. exact idx_delete_spec. Qed.

Theorem C04_unstage_unknown_refused : forall es p,
  Canonical es -> (idx_delete es p = None <-> ~ In p (paths es)).
Proof. exact idx_delete_none. Qed.

(* a directory argument selects exactly the tracked paths beneath it *)
Theorem C04_dir_selects_exactly : forall es name e,
  In e (entries_by_dir es name) <-> In e es /\ under_dir name (e_path e) = true.
Proof. exact entries_by_dir_exact. Qed.

Print Assumptions C04_stage_exact.
Print Assumptions C04_restage_noop.
Print Assumptions C04_unstage_exact.
Print Assumptions C04_unstage_unknown_refused.
Print Assumptions C04_dir_selects_exactly.
