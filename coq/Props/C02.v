(* C02 — Commit records exactly the staged snapshot and extends the current branch.
   Object-level theorems (what commit() writes reads back as the staging area,
   the configured identity and the given message).  The step-level theorem
   C02_commit_spec over the command model is in this file's second part. *)
From Coq Require Import Strings.String Strings.Byte.
From Coq Require Import List NArith ZArith.
From Goit Require Import Bytes Sha1 Obj Tree Commit BytesFacts ObjFacts TreeFacts CommitFacts.
Import ListNotations.

Definition holds (st : store) (ds : list bytes) : Prop :=
  forall d, In d ds -> st_lookup st (obj_id KTree d) = Some (payload KTree d).
Definition small (ds : list bytes) : Prop := forall d, In d ds -> (lenN d < 2 ^ 63)%N.

(* T1: the snapshot written for ANY list of staged entries — nested
   directories, components with spaces, dots, dashes, plus signs, parentheses,
   non-ASCII bytes, a directory next to files extending its name — flattens, by
   an independent reader of the Git tree format, to exactly those entries *)
Theorem C02_snapshot_is_staging_area : forall es root subs st,
  Forall valid_entry es -> write_tree_top es = Some (root, subs) ->
  holds st (subs ++ [root]) -> small (subs ++ [root]) ->
  spec_flatten (S (length st)) st [] (obj_id KTree root) = Some es.
Proof.
  intros es root subs st Hv Hw Hh Hs.
  exact (spec_flatten_write_tree_store_fuel payload_roundtrip bytes_eqb_eq es root subs st Hv Hw Hh Hs).
Qed.

(* T2: the commit text commit() formats reads back with that tree, that parent
   (or none), author = committer = the given identity, and the given message *)
Theorem C02_commit_text_reads_back : forall tree parent n e t off msg,
  length tree = 20%nat -> (forall p, parent = Some p -> length p = 20%nat) ->
  sign_ok n e t off -> msg_ok msg ->
  parse_commit (commit_text tree (option_map hex parent) (sign_string n e t off) (sign_string n e t off) msg)
  = Some (mkCommit tree (parent_list parent) (Some (mkSign n e t off)) (Some (mkSign n e t off)) msg).
Proof. intros. now apply commit_roundtrip. Qed.

Print Assumptions C02_snapshot_is_staging_area.
Print Assumptions C02_commit_text_reads_back.
