(* C02 — Commit records exactly the staged snapshot and extends the current branch.
   Object-level theorems (what commit() writes reads back as the staging area,
   the configured identity and the given message).  The step-level theorem
   C02_commit_spec over the command model is in this file's second part. *)
From Coq Require Import Strings.String Strings.Byte.
From Coq Require Import List NArith ZArith.
From Goit Require Import Bytes Sha1 Obj Tree Index Commit Config World Repo BytesFacts ObjFacts TreeFacts CommitFacts.
From Goit Require Import BranchFacts ExactFacts CommitCmdFacts.
From Goit Require Import Bridge.
From Goit Require Import Inv.
From Goit Require HeadFacts.
From Goit Require Import Ignore.
From Goit Require ConfigFacts SnapshotFacts CtxFacts.
Import ListNotations.

Definition holds (st : store) (ds : list bytes) : Prop :=
  forall d, In d ds -> st_lookup st (obj_id KTree d) = Some (payload KTree d).
Definition small (ds : list bytes) : Prop := forall d, In d ds -> (lenN d < 2 ^ 63)%N.

(* T0 (tie to the source): every regexp literal of the current Go source denotes
   the same language, with the same anchoring, as the pattern of the model — proved
   by running the verified equivalence checker on SrcRegex.v, which is regenerated
   from /repo on every run (see Bridge.v) *)
Theorem C02_source_patterns_are_the_models : source_patterns_agree.
Proof. exact source_patterns. Qed.

(* T1: the snapshot written for ANY list of staged entries — nested
   directories, components with spaces, dots, dashes, plus signs, parentheses,
   non-ASCII bytes, a directory next to files extending its name — flattens, by
   an independent reader of the Git tree format, to exactly those entries *)
Theorem C02_snapshot_is_staging_area : forall es root subs st,
  Forall valid_entry es -> write_tree_top es = Some (root, subs) ->
  holds st (subs ++ [root]) -> small (subs ++ [root]) ->
  spec_flatten (S (length st)) st [] (obj_id KTree root) = Some es.
Proof.
  intros es root subs st Hv Hw Hh Hs.
  exact (spec_flatten_write_tree_store_fuel payload_roundtrip bytes_eqb_eq es root subs st Hv Hw Hh Hs).
Qed.

(* T2: the commit text commit() formats reads back with that tree, that parent
   (or none), author = committer = the given identity, and the given message *)
Theorem C02_commit_text_reads_back : forall tree parent n e t off msg,
  length tree = 20%nat -> (forall p, parent = Some p -> length p = 20%nat) ->
  sign_ok n e t off ->
  parse_commit (commit_text tree (option_map hex parent) (sign_string n e t off) (sign_string n e t off) msg)
  = Some (mkCommit tree (parent_list parent) (Some (mkSign n e t off)) (Some (mkSign n e t off)) msg).
Proof. intros. now apply commit_roundtrip. Qed.


(* ---------- Part 2: the command ---------- *)
(* C02_commit_spec: a `commit` that passes its gate, on ANY world, is exactly:
   the tree objects of the staging area (children first), the commit object,
   the branch file, two journal lines, HEAD rewritten with the same name; and
   in the world after it ([commit_post]):
   - the current branch names the new commit, every other branch is unchanged,
     HEAD still names the same branch, the staging area, every working file and
     both config files are unchanged;
   - the new commit reads back with tree = the written root, parents = [the
     previous tip] (none for the first commit), author = committer;
   - without a flagged collision every object stored before is kept, and the
     new commit's snapshot, read by the independent reader, is exactly the
     staging area at that moment. *)
Theorem C02_commit_spec : forall e msg w c root subs cm,
  w_inited w = true -> ctx_of w = Some c -> gate_open w c ->
  (tip_of w = None -> valid_branch_name (w_head w) = true) ->
  Forall valid_entry (idx_of w) -> write_tree_top (idx_of w) = Some (root, subs) ->
  (forall d, In d (subs ++ [root]) -> (lenN d < 2 ^ 63)%N) ->
  (lenN (commit_data e c msg w root) < 2 ^ 63)%N ->
  parse_commit (commit_data e c msg w root) = Some cm -> ~ In c_nl (commit_sign e c) ->
  let w' := after_commit e c msg w root subs in
  step (ACmd e (CCommit msg)) w = (w', OOk [], do_commit_trace e c msg w root subs) /\
  commit_post e c msg w root cm w'.
Proof. exact commit_step_spec. Qed.

(* with an identity in the domain of C12 and ANY message the recorded author and
   committer are the configured identity and the recorded message is the message given *)
Theorem C02_commit_records_identity_and_message : forall e c msg w root subs,
  Forall valid_entry (idx_of w) -> write_tree_top (idx_of w) = Some (root, subs) ->
  (forall d, In d (subs ++ [root]) -> (lenN d < 2 ^ 63)%N) ->
  (lenN (commit_data e c msg w root) < 2 ^ 63)%N ->
  sign_ok (user_name (x_l c) (x_g c)) (user_email (x_l c) (x_g c)) (e_time e) (e_off e) ->
  (forall tip, tip_of w = Some tip -> length tip = 20%nat) -> head_ok w c ->
  let tr := do_commit_trace e c msg w root subs in
  let w' := after_commit e c msg w root subs in
  run_m (do_commit e c msg) w = (Ok tt, w', tr) /\ commit_post e c msg w root (commit_of e c msg w root) w' /\
  c_msg (commit_of e c msg w root) = msg.
Proof. exact commit_spec_ok. Qed.

(* the effect order: objects before the branch that names them, HEAD last *)
Theorem C02_commit_effect_order : forall e c msg w root subs,
  do_commit_trace e c msg w root subs
  = map put_tree_eff (subs ++ [root])
    ++ [EPutObj (commit_id e c msg w root) (payload KCommit (commit_data e c msg w root));
        ESetRef (w_head w) (commit_id e c msg w root);
        EAppendHlog (commit_line e c msg w root); EAppendBlog (w_head w) (commit_line e c msg w root);
        ESetHead (w_head w)].
Proof. reflexivity. Qed.

Print Assumptions C02_snapshot_is_staging_area.
Print Assumptions C02_commit_text_reads_back.
Print Assumptions C02_commit_spec.
Print Assumptions C02_commit_records_identity_and_message.
Print Assumptions C02_commit_effect_order.
Print Assumptions C02_source_patterns_are_the_models.

(* C02_commit_spec on every reachable repository: neither "the repository is initialised" nor "the
   current branch has a valid name" is a hypothesis any more, both follow from reachability *)
Theorem C02_commit_spec_reachable : forall e msg w c root subs cm,
  Reachable w -> ctx_of w = Some c -> gate_open w c ->
  Forall valid_entry (idx_of w) -> write_tree_top (idx_of w) = Some (root, subs) ->
  (forall d, In d (subs ++ [root]) -> (lenN d < 2 ^ 63)%N) ->
  (lenN (commit_data e c msg w root) < 2 ^ 63)%N ->
  parse_commit (commit_data e c msg w root) = Some cm -> ~ In c_nl (commit_sign e c) ->
  let w' := after_commit e c msg w root subs in
  step (ACmd e (CCommit msg)) w = (w', OOk [], do_commit_trace e c msg w root subs) /\
  commit_post e c msg w root cm w'.
Proof. exact HeadFacts.commit_step_spec'. Qed.
Print Assumptions C02_commit_spec_reachable.

(* C02 as a TOTAL statement on EVERY history (any `config` calls: those that would make a
   configuration file unloadable are refused): the context loads, and — the identity being
   configured, something being staged that differs from HEAD's snapshot, the identity and clock
   in the domain of C12 — `commit` succeeds with exactly the specified effect.  What is left
   to assume: the user's own .goitignore is in the model's alphabet, and the guard (no SHA-1
   collision, no object of 2^63 bytes) on the world the step ends in *)
Theorem C02_commit_total_on_every_history : forall h w e msg,
  Forall action_ok h ->
  w = run h w_empty ->
  ign_load (am_get (w_files w) (str ".goitignore"%string)) <> None ->
  w_coll (step_w (ACmd e (CCommit msg)) w) = false ->
  SnapshotFacts.SmallStore (w_objs (step_w (ACmd e (CCommit msg)) w)) ->
  exists c,
    ctx_of w = Some c /\ ConfigFacts.wf_cfg (x_l c) /\ ConfigFacts.wf_cfg (x_g c) /\
    (user_set (x_l c) (x_g c) = true ->
     (match tip_of w with
      | Some hid => exists s, SnapshotFacts.snapshot (w_objs w) hid = Some s /\ s <> idx_of w
      | None => w_refs w = [] /\ idx_of w <> []
      end) ->
     sign_ok (user_name (x_l c) (x_g c)) (user_email (x_l c) (x_g c)) (e_time e) (e_off e) ->
     exists root subs cm,
       write_tree_top (idx_of w) = Some (root, subs) /\
       cm = commit_of e c msg w root /\
       step (ACmd e (CCommit msg)) w =
         (after_commit e c msg w root subs, OOk [], do_commit_trace e c msg w root subs) /\
       commit_post e c msg w root cm (after_commit e c msg w root subs) /\
       c_msg cm = msg /\
       c_parents cm = parent_list (tip_of w)).
Proof. exact CtxFacts.history_commit_total'. Qed.
Print Assumptions C02_commit_total_on_every_history.
