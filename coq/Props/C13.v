(* C13 — Working-tree report is exact and content-based. *)
From Coq Require Import Strings.String Strings.Byte.
From Coq Require Import List NArith.
From Goit Require Import Bytes Obj Tree Index Regex Ignore World Repo IgnoreFacts.
From Goit Require Import Inv IndexFacts BranchFacts ExactFacts SnapshotFacts StatusFacts.
From Goit Require Import Bridge.
Import ListNotations.

(* T0 (tie to the source): every regexp literal of the current Go source denotes
   the same language, with the same anchoring, as the pattern of the model — proved
   by running the verified equivalence checker on SrcRegex.v, which is regenerated
   from /repo on every run (see Bridge.v) *)
Theorem C13_source_patterns_are_the_models : source_patterns_agree.
Proof. exact source_patterns. Qed.

(* status is exactly these four filters (by computation) *)
Theorem C13_status_is_the_filters : forall c,
  cmd_status c =
  bind getw (fun w => bind (head_tree_nodes c) (fun ns =>
    ret (map (fun d => dkind_tag (fst d) ++ snd d) (diff_with_tree (idx_of w) ns)
         ++ map (fun kv => str "modified " ++ fst kv) (st_modified w (x_pats c))
         ++ map (fun e => str "deleted " ++ e_path e) (st_deleted w)
         ++ map (fun kv => str "untracked " ++ fst kv) (st_untracked w (x_pats c))))).
Proof. exact cmd_status_uses_filters. Qed.

(* modified: exactly the visible tracked files whose bytes hash to another id *)
Theorem C13_modified_exact : forall w pats p data,
  In (p, data) (st_modified w pats) <->
  In (p, data) (w_files w) /\ visible w pats p = true /\
  exists i e, get_entry (idx_of w) p = Some (i, e) /\ e_id e <> obj_id KBlob data.
Proof. exact modified_exact. Qed.

(* content-based: equal bytes are never reported (the model has no time stamps) *)
Theorem C13_same_content_not_reported : forall w pats p data i e,
  get_entry (idx_of w) p = Some (i, e) -> e_id e = obj_id KBlob data ->
  ~ In (p, data) (st_modified w pats).
Proof. exact same_content_not_modified. Qed.

(* a tracked file is never hidden, whatever .goitignore says *)
Theorem C13_tracked_never_hidden : forall w pats f,
  tracked w f = true -> last f x00 <> c_slash -> visible w pats f = true.
Proof. exact tracked_visible. Qed.

(* deleted: exactly the tracked paths at which there is no file *)
Theorem C13_deleted_exact : forall w p,
  In p (map e_path (st_deleted w)) <->
  (exists e, In e (idx_of w) /\ e_path e = p) /\ wt_stat w p <> SFile.
Proof. exact deleted_paths_exact. Qed.

(* untracked: exactly the visible files that are not tracked *)
Theorem C13_untracked_exact : forall w pats kv,
  In kv (st_untracked w pats) <->
  In kv (w_files w) /\ visible w pats (fst kv) = true /\ tracked w (fst kv) = false.
Proof. exact untracked_exact. Qed.

(* with no .goitignore nothing outside .goit is invisible *)
Theorem C13_no_ignore_all_visible : forall w f,
  ~ In (str ".goit") (comps f) -> visible w [ign_builtin] f = true.
Proof. exact no_ignore_visible. Qed.

(* ---------- Part 2: the command, on every reachable repository ---------- *)
(* status never writes: the world is unchanged and the trace empty, whatever
   the world and the outcome; it never panics *)
Theorem C13_status_is_read_only : forall e w,
  exists o, step (ACmd e CStatus) w = (w, o, []) /\ o <> OPanic.
Proof. exact status_pure. Qed.

(* on every reachable repository (no flagged collision, no giant object) status
   succeeds and its lines are exactly: "modified p" iff p is a visible tracked
   file whose bytes hash to another id than the staged one; "deleted p" iff p is
   tracked and there is no file at p; "untracked p" iff p is a file, visible
   (neither ignored nor inside Goit's directory) and not tracked; and the staged
   section is the difference with the HEAD snapshot (C07) *)
Theorem C13_status_report_on_every_reachable_repository : forall e w c,
  Reachable w -> w_coll w = false -> SmallStore (w_objs w) -> w_inited w = true -> ctx_of w = Some c ->
  exists ns, head_ns c w = Some ns /\
    step (ACmd e CStatus) w = (w, OOk (status_lines w c ns), []) /\
    forall p,
      (In (str "modified " ++ p) (status_lines w c ns) <->
         exists data id, file w p = Some data /\ staged w p = Some id /\
                         visible w (x_pats c) p = true /\ id <> obj_id KBlob data) /\
      (In (str "deleted " ++ p) (status_lines w c ns) <-> tracked w p = true /\ wt_stat w p <> SFile) /\
      (In (str "untracked " ++ p) (status_lines w c ns) <->
         exists data, file w p = Some data /\ visible w (x_pats c) p = true /\ tracked w p = false) /\
      (forall k, In (dkind_tag k ++ p) (status_lines w c ns) <-> In (k, p) (diff_with_tree (idx_of w) ns)).
Proof. exact status_report_on_reachable. Qed.

(* a file whose bytes equal its staged blob is reported in no class *)
Theorem C13_unchanged_file_not_reported : forall w c ns p data,
  am_sorted (w_files w) -> file w p = Some data -> staged w p = Some (obj_id KBlob data) -> wt_stat w p = SFile ->
  ~ In (str "modified " ++ p) (status_lines w c ns) /\
  ~ In (str "deleted " ++ p) (status_lines w c ns) /\
  ~ In (str "untracked " ++ p) (status_lines w c ns).
Proof. exact unchanged_file_not_reported. Qed.

(* rewriting a file with identical bytes, after ANY history, leaves the whole
   world — hence the report — unchanged (the model has no time stamps: a touch
   is the identity) *)
Theorem C13_identical_rewrite_reports_nothing : forall e h p d,
  let w := run h w_empty in
  (forall a, In a (ancestors p) -> In a (w_dirs w)) -> file w p = Some d ->
  run (h ++ [AEdit (UWrite p d)]) w_empty = w /\
  step (ACmd e CStatus) (run (h ++ [AEdit (UWrite p d)]) w_empty) = step (ACmd e CStatus) w.
Proof. exact identical_rewrite_history. Qed.

Print Assumptions C13_status_is_the_filters.
Print Assumptions C13_modified_exact.
Print Assumptions C13_same_content_not_reported.
Print Assumptions C13_tracked_never_hidden.
Print Assumptions C13_deleted_exact.
Print Assumptions C13_untracked_exact.
Print Assumptions C13_no_ignore_all_visible.
Print Assumptions C13_status_is_read_only.
Print Assumptions C13_status_report_on_every_reachable_repository.
Print Assumptions C13_unchanged_file_not_reported.
Print Assumptions C13_identical_rewrite_reports_nothing.
Print Assumptions C13_source_patterns_are_the_models.
