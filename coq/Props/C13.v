(* C13 — Working-tree report is exact and content-based. *)
From Coq Require Import Strings.String Strings.Byte.
From Coq Require Import List NArith.
From Goit Require Import Bytes Obj Tree Index Regex Ignore World Repo IgnoreFacts.
Import ListNotations.

(* status is exactly these four filters (by computation) *)
Theorem C13_status_is_the_filters : forall c,
  cmd_status c =
  bind getw (fun w => bind (head_tree_nodes c) (fun ns =>
    ret (map (fun d => dkind_tag (fst d) ++ snd d) (diff_with_tree (idx_of w) ns)
         ++ map (fun kv => str "modified " ++ fst kv) (st_modified w (x_pats c))
         ++ map (fun e => str "deleted " ++ e_path e) (st_deleted w)
         ++ map (fun kv => str "untracked " ++ fst kv) (st_untracked w (x_pats c))))).
Proof. exact cmd_status_uses_filters. Qed.

(* modified: exactly the visible tracked files whose bytes hash to another id *)
Theorem C13_modified_exact : forall w pats p data,
  In (p, data) (st_modified w pats) <->
  In (p, data) (w_files w) /\ visible w pats p = true /\
  exists i e, get_entry (idx_of w) p = Some (i, e) /\ e_id e <> obj_id KBlob data.
Proof. exact modified_exact. Qed.

(* content-based: equal bytes are never reported (the model has no time stamps) *)
Theorem C13_same_content_not_reported : forall w pats p data i e,
  get_entry (idx_of w) p = Some (i, e) -> e_id e = obj_id KBlob data ->
  ~ In (p, data) (st_modified w pats).
Proof. exact same_content_not_modified. Qed.

(* a tracked file is never hidden, whatever .goitignore says *)
Theorem C13_tracked_never_hidden : forall w pats f,
  tracked w f = true -> last f x00 <> c_slash -> visible w pats f = true.
Proof. exact tracked_visible. Qed.

(* deleted: exactly the tracked paths at which there is no file *)
Theorem C13_deleted_exact : forall w p,
  In p (map e_path (st_deleted w)) <->
  (exists e, In e (idx_of w) /\ e_path e = p) /\ wt_stat w p <> SFile.
Proof. exact deleted_paths_exact. Qed.

(* untracked: exactly the visible files that are not tracked *)
Theorem C13_untracked_exact : forall w pats kv,
  In kv (st_untracked w pats) <->
  In kv (w_files w) /\ visible w pats (fst kv) = true /\ tracked w (fst kv) = false.
Proof. exact untracked_exact. Qed.

(* with no .goitignore nothing outside .goit is invisible *)
Theorem C13_no_ignore_all_visible : forall w f,
  ~ In (str ".goit") (comps f) -> visible w [ign_builtin] f = true.
Proof. exact no_ignore_visible. Qed.

Print Assumptions C13_status_is_the_filters.
Print Assumptions C13_modified_exact.
Print Assumptions C13_same_content_not_reported.
Print Assumptions C13_tracked_never_hidden.
Print Assumptions C13_deleted_exact.
Print Assumptions C13_untracked_exact.
Print Assumptions C13_no_ignore_all_visible.
