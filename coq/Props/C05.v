(* C05 — Snapshot read-back: what Goit reads from a commit is what it wrote.
   (The same two theorems carry the "snapshot = staging area" half of C02.) *)
From Coq Require Import Strings.Byte.
From Coq Require Import List NArith.
From Goit Require Import Bytes Sha1 Obj Tree BytesFacts ObjFacts TreeFacts.
Import ListNotations.
Local Open Scope N_scope.

(* the store holds every tree written by write_tree under its id *)
Definition holds (st : store) (ds : list bytes) : Prop :=
  forall d, In d ds -> st_lookup st (obj_id KTree d) = Some (payload KTree d).
Definition small (ds : list bytes) : Prop := forall d, In d ds -> lenN d < 2 ^ 63.

(* T0: the writer terminates within its fuel for every valid entry list *)
Theorem C05_write_tree_total : forall es,
  Forall valid_entry es -> exists r, write_tree_top es = Some r.
Proof. exact write_tree_fuel. Qed.

(* T1: Goit's own reader, with exactly the fuel cmd/*.go-level code gives it,
   returns nodes that flatten to the entries that were written — for EVERY list
   of valid entries (names with spaces, any byte but '/' and NUL; ids any 20
   bytes, read by count), sorted or not — and `cat-file -p` lists each direct
   child with kind, id and complete name *)
Theorem C05_walk_write_tree : forall es root subs st,
  Forall valid_entry es -> write_tree_top es = Some (root, subs) ->
  holds st subs -> small subs ->
  exists ns, walk_tree (S (length st)) st root = Some ns /\ flatten [] ns = es /\
             exists its, group_top es = Some its /\ tree_listing ns = map item_listing its.
Proof.
  intros es root subs st Hv Hw Hh Hs.
  exact (walk_write_tree_store_fuel payload_roundtrip bytes_eqb_eq es root subs st Hv Hw Hh Hs).
Qed.

(* T2: an independent reader of the Git tree format gets the same entries *)
Theorem C05_spec_flatten_write_tree : forall es root subs st,
  Forall valid_entry es -> write_tree_top es = Some (root, subs) ->
  holds st (subs ++ [root]) -> small (subs ++ [root]) ->
  spec_flatten (S (length st)) st [] (obj_id KTree root) = Some es.
Proof.
  intros es root subs st Hv Hw Hh Hs.
  exact (spec_flatten_write_tree_store_fuel payload_roundtrip bytes_eqb_eq es root subs st Hv Hw Hh Hs).
Qed.

(* the hypotheses are satisfiable: names with a space, d-x next to d/, ids made
   of 0x00 / 0x20 / 0x0a bytes *)
Example C05_nonvacuous : Forall valid_entry ex_entries.
Proof. exact ex_entries_valid. Qed.

Print Assumptions C05_write_tree_total.
Print Assumptions C05_walk_write_tree.
Print Assumptions C05_spec_flatten_write_tree.
