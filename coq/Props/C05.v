(* C05 — Snapshot read-back: what Goit reads from a commit is what it wrote.
   (The same two theorems carry the "snapshot = staging area" half of C02.) *)
From Coq Require Import Strings.Byte.
From Coq Require Import List NArith.
From Goit Require Import Bytes Sha1 Obj Tree BytesFacts ObjFacts TreeFacts.
From Goit Require Import Index World Repo Inv SnapshotFacts.
From Goit Require Import Bridge.
From Goit Require Import IndexFacts DiffFacts ExactFacts BranchFacts RestoreFacts.
From Goit Require TreeUniqueFacts.
From Goit Require Import Commit Reflog ResetFacts.
From Goit Require OutputFacts.
Import ListNotations.
Local Open Scope N_scope.

(* the store holds every tree written by write_tree under its id *)
Definition holds (st : store) (ds : list bytes) : Prop :=
  forall d, In d ds -> st_lookup st (obj_id KTree d) = Some (payload KTree d).
Definition small (ds : list bytes) : Prop := forall d, In d ds -> lenN d < 2 ^ 63.

(* T0 (tie to the source): every regexp literal of the current Go source denotes
   the same language, with the same anchoring, as the pattern of the model — proved
   by running the verified equivalence checker on SrcRegex.v, which is regenerated
   from /repo on every run (see Bridge.v) *)
Theorem C05_source_patterns_are_the_models : source_patterns_agree.
Proof. exact source_patterns. Qed.

(* T0: the writer terminates within its fuel for every valid entry list *)
Theorem C05_write_tree_total : forall es,
  Forall valid_entry es -> exists r, write_tree_top es = Some r.
Proof. exact write_tree_fuel. Qed.

(* T1: Goit's own reader, with exactly the fuel cmd/*.go-level code gives it,
   returns nodes that flatten to the entries that were written — for EVERY list
   of valid entries (names with spaces, any byte but '/' and NUL; ids any 20
   bytes, read by count), sorted or not — and `cat-file -p` lists each direct
   child with kind, id and complete name *)
Theorem C05_walk_write_tree : forall es root subs st,
  Forall valid_entry es -> write_tree_top es = Some (root, subs) ->
  holds st subs -> small subs ->
  exists ns, walk_tree (S (length st)) st root = Some ns /\ flatten [] ns = es /\
             exists its, group_top es = Some its /\ tree_listing ns = map item_listing its.
Proof.
  intros es root subs st Hv Hw Hh Hs.
  exact (walk_write_tree_store_fuel payload_roundtrip bytes_eqb_eq es root subs st Hv Hw Hh Hs).
Qed.

(* T2: an independent reader of the Git tree format gets the same entries *)
Theorem C05_spec_flatten_write_tree : forall es root subs st,
  Forall valid_entry es -> write_tree_top es = Some (root, subs) ->
  holds st (subs ++ [root]) -> small (subs ++ [root]) ->
  spec_flatten (S (length st)) st [] (obj_id KTree root) = Some es.
Proof.
  intros es root subs st Hv Hw Hh Hs.
  exact (spec_flatten_write_tree_store_fuel payload_roundtrip bytes_eqb_eq es root subs st Hv Hw Hh Hs).
Qed.

(* the hypotheses are satisfiable: names with a space, d-x next to d/, ids made
   of 0x00 / 0x20 / 0x0a bytes *)
Example C05_nonvacuous : Forall valid_entry ex_entries.
Proof. exact ex_entries_valid. Qed.


(* ---------- Part 2: every commit in every history ---------- *)
(* [snapshot st cid] is literally what `reset --mixed` computes: load the
   commit, load its tree, walk it with Goit's own reader, flatten. *)

(* a successful commit's snapshot is the staging area at that moment *)
Theorem C05_commit_snapshot_is_staging_area : forall e msg w w' out tr,
  GoodW w -> step (ACmd e (CCommit msg)) w = (w', OOk out, tr) ->
  w_coll w' = false -> SmallStore (w_objs w') ->
  exists cid, am_get (w_refs w') (w_head w') = Some cid /\ snapshot (w_objs w') cid = Some (idx_of w) /\
              idx_of w' = idx_of w.
Proof. exact commit_snapshot_step. Qed.

(* `reset --mixed|--hard` sets the staging area to exactly that reading *)
Theorem C05_reset_reads_the_snapshot : forall e soft mixed hard args w w' out tr,
  step (ACmd e (CReset soft mixed hard args)) w = (w', OOk out, tr) -> soft = false ->
  exists a tid es, args = [a] /\ reset_target w a = Some tid /\ snapshot (w_objs w) tid = Some es /\ idx_of w' = es.
Proof. exact reset_reads_back. Qed.

(* hence: commit at w0, then ANY history h, then a reset (mixed or hard) that
   resolves to that commit: the staging area is again exactly what was staged
   when the commit was made *)
Theorem C05_reset_restores_what_was_staged : forall e0 msg w0 w1 out0 tr0 h e soft mixed hard a w' out tr cid,
  GoodW w0 -> step (ACmd e0 (CCommit msg)) w0 = (w1, OOk out0, tr0) ->
  am_get (w_refs w1) (w_head w1) = Some cid ->
  w_coll (run h w1) = false -> SmallStore (w_objs (run h w1)) ->
  step (ACmd e (CReset soft mixed hard [a])) (run h w1) = (w', OOk out, tr) -> soft = false ->
  reset_target (run h w1) a = Some cid -> idx_of w' = idx_of w0.
Proof. exact reset_restores_commit. Qed.

(* the invariant GoodW (valid work tree paths, canonical staging area, every
   stored commit's tree reads back canonically) holds on every reachable world *)
Theorem C05_invariants_on_every_history : forall h,
  Forall action_ok h -> w_coll (run h w_empty) = false -> SmallStore (w_objs (run h w_empty)) ->
  WtValid (run h w_empty) /\ IndexGood (run h w_empty) /\ SnapshotsGood (w_objs (run h w_empty)).
Proof. exact good_run. Qed.

Print Assumptions C05_write_tree_total.
Print Assumptions C05_walk_write_tree.
Print Assumptions C05_spec_flatten_write_tree.
Print Assumptions C05_commit_snapshot_is_staging_area.
Print Assumptions C05_reset_reads_the_snapshot.
Print Assumptions C05_reset_restores_what_was_staged.
Print Assumptions C05_invariants_on_every_history.
Print Assumptions C05_source_patterns_are_the_models.

(* every tree Goit wrote, read back by Goit's reader, is a well-formed item tree whose flattening is a
   canonical list of valid entries and in which no directory name occurs twice at one level -- on every
   history, for the tree of every stored commit, and in particular for HEAD's *)
Theorem C05_stored_trees_read_back_unique : forall w,
  Reachable w -> w_coll w = false -> SmallStore (w_objs w) -> TreeUniqueFacts.SnapshotsUnique (w_objs w).
Proof. exact TreeUniqueFacts.reachable_unique. Qed.

Theorem C05_head_tree_reads_back : forall w c ns,
  Reachable w -> w_coll w = false -> SmallStore (w_objs w) ->
  ctx_of w = Some c -> head_nodes c w = Some ns ->
  exists its, ns = map node_of its /\ Forall wf_item its /\
              Canonical (flat_items [] its) /\ Forall valid_entry (flat_items [] its) /\
              nodes_unique ns.
Proof. exact TreeUniqueFacts.reachable_head_nodes_u. Qed.
Print Assumptions C05_stored_trees_read_back_unique.
Print Assumptions C05_head_tree_reads_back.

(* the two command outputs the statement names.
   `ls-files` (with -s: id in hex, a blank, the path) prints the staging area, entry by entry *)
Theorem C05_ls_files_prints_the_staging_area : forall e w c s,
  w_inited w = true -> ctx_of w = Some c ->
  step (ACmd e (CLsFiles s)) w = (w, OOk (map (OutputFacts.ls_line s) (idx_of w)), []).
Proof. exact OutputFacts.ls_files_spec. Qed.

(* "reset --mixed to it makes ls-files -s equal that set": a commit made in a reachable repository,
   ANY later history h, then reset --mixed to the journal position that names that commit, then
   ls-files -s: exactly the entries that were staged when the commit was made *)
Theorem C05_commit_history_reset_ls_files : forall e0 msg w0 w1 out0 tr0 h e n hl rs r w' out tr cid,
  Reachable w0 ->
  step (ACmd e0 (CCommit msg)) w0 = (w1, OOk out0, tr0) ->
  am_get (w_refs w1) (w_head w1) = Some cid ->
  w_coll (run h w1) = false -> SmallStore (w_objs (run h w1)) ->
  (n <= 9223372036854775807)%N ->
  w_hlog (run h w1) = Some hl -> parse_reflog hl = Some rs ->
  get_record rs (N.to_nat n) = Some r -> r_id r = Some cid ->
  step (ACmd e (CReset false true false [head_at n])) (run h w1) = (w', OOk out, tr) ->
  forall e2,
    step (ACmd e2 (CLsFiles true)) w' =
    (w', OOk (map (fun en => hex (e_id en) ++ [c_sp] ++ e_path en) (idx_of w0)), []).
Proof. exact OutputFacts.commit_reset_position_ls_files. Qed.

(* "cat-file -p of any of its trees lists exactly that tree's direct children with the right kind,
   id and complete name": for every stored commit of a reachable repository, its root tree and every
   directory below it at any depth, addressed by the id its parent's line prints *)
Theorem C05_cat_file_lists_direct_children : forall w c id cm,
  Reachable w -> w_coll w = false -> SmallStore (w_objs w) -> ctx_of w = Some c ->
  get_commit (w_objs w) id = Some cm ->
  exists its,
    snapshot (w_objs w) id = Some (flat_items [] its) /\ Forall wf_item its /\
    (forall e, step (ACmd e (CCatFile false true [hex (c_tree cm)])) w = (w, OOk (map OutputFacts.item_line its), [])) /\
    (forall sub e, OutputFacts.dir_below its sub ->
       step (ACmd e (CCatFile false true [hex (obj_id KTree (ser sub))])) w = (w, OOk (map OutputFacts.item_line sub), [])).
Proof. exact OutputFacts.cat_file_tree_spec'. Qed.
Print Assumptions C05_ls_files_prints_the_staging_area.
Print Assumptions C05_commit_history_reset_ls_files.
Print Assumptions C05_cat_file_lists_direct_children.
