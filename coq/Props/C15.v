(* C15 — Crash consistency: an interrupted command never breaks the repository.
   Crash semantics of the model: the process stops between two modifying
   effects; the disk then holds a PREFIX of the command's effect trace, each
   effect being one file created-and-written as a whole (the truncate-then-write
   windows inside one file are implementation-level known findings K1-K9).
   Part 1: the state after a crash is exactly a prefix state.  Part 2 (every
   prefix state is connected) is appended when ConnectedFacts.v is built. *)
From Coq Require Import Strings.String Strings.Byte.
From Coq Require Import List NArith.
From Goit Require Import Bytes World Repo MonadFacts.
From Goit Require Import Inv ConnectedFacts.
Import ListNotations.

Theorem C15_world_is_trace_applied : forall a w w' o tr,
  step a w = (w', o, tr) ->
  match a with ACmd _ _ => w' = apply_effects tr w | AEdit _ => tr = [] end.
Proof. exact step_trace. Qed.

(* stopping the command at its k-th effect leaves exactly the first k effects *)
Theorem C15_crash_state_is_a_prefix : forall e c w r w' tr k,
  run_m (run_cmd e c) w = (r, w', tr) -> k < length tr ->
  ms_w (snd (run_cmd e c (mkMS w [] (Some k)))) = apply_effects (firstn k tr) w.
Proof.
  intros e c w r w' tr k Hrun Hk.
  rewrite (cmd_fault_prefix e c w r w' tr k Hrun Hk). reflexivity.
Qed.


(* ---------- Part 2: every crash point of every command on every history ---------- *)
(* Kill the process between any two modifying effects of any command, issued on
   any reachable repository: what is on disk (the first k effects) is connected
   — objects were written before the ref that names them, the blob before the
   staging-area entry that names it, the branch before HEAD names it.  The one
   exception is the HEAD clause during `branch --rename` (K8), refuted below. *)
Theorem C15_crash_safe : forall h e c r w' tr k,
  Forall action_ok h -> run_m (run_cmd e c) (run h w_empty) = (r, w', tr) -> ~ Bad w' ->
  ConnectedNoHead (apply_effects (firstn k tr) (run h w_empty)) /\
  (~ is_rename c -> Connected (apply_effects (firstn k tr) (run h w_empty))).
Proof. exact reachable_crash_safe. Qed.

(* K8, the rename window, is real: a connected world, a rename that ends in a
   connected world, and in between (after the branch file was moved, before
   HEAD is rewritten) HEAD names a branch that no longer exists *)
Theorem C15_rename_window_refuted :
  exists w e c, is_rename c /\ Connected w /\ ~ Bad (step_w (ACmd e c) w) /\ Connected (step_w (ACmd e c) w) /\
    ~ HeadOk (apply_effects (firstn 1 (snd (step (ACmd e c) w))) w) /\
    ~ Connected (apply_effects (firstn 1 (snd (step (ACmd e c) w))) w).
Proof. exact crash_window_rename_refuted. Qed.

Print Assumptions C15_world_is_trace_applied.
Print Assumptions C15_crash_state_is_a_prefix.
Print Assumptions C15_crash_safe.
Print Assumptions C15_rename_window_refuted.
