(* C15 — Crash consistency: an interrupted command never breaks the repository.
   Crash semantics of the model: the process stops between two modifying
   effects; the disk then holds a PREFIX of the command's effect trace, each
   effect being one file created-and-written as a whole (the truncate-then-write
   windows inside one file are implementation-level known findings K1-K9).
   Part 1: the state after a crash is exactly a prefix state.  Part 2 (every
   prefix state is connected) is appended when ConnectedFacts.v is built. *)
From Coq Require Import Strings.String Strings.Byte.
From Coq Require Import List NArith.
From Goit Require Import Bytes World Repo MonadFacts.
Import ListNotations.

Theorem C15_world_is_trace_applied : forall a w w' o tr,
  step a w = (w', o, tr) ->
  match a with ACmd _ _ => w' = apply_effects tr w | AEdit _ => tr = [] end.
Proof. exact step_trace. Qed.

(* stopping the command at its k-th effect leaves exactly the first k effects *)
Theorem C15_crash_state_is_a_prefix : forall e c w r w' tr k,
  run_m (run_cmd e c) w = (r, w', tr) -> k < length tr ->
  ms_w (snd (run_cmd e c (mkMS w [] (Some k)))) = apply_effects (firstn k tr) w.
Proof.
  intros e c w r w' tr k Hrun Hk.
  rewrite (cmd_fault_prefix e c w r w' tr k Hrun Hk). reflexivity.
Qed.

Print Assumptions C15_world_is_trace_applied.
Print Assumptions C15_crash_state_is_a_prefix.
