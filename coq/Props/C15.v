
(* C15 — Crash consistency: an interrupted command never breaks the repository.
   Crash semantics of the model: the process stops between two modifying
   effects; the disk then holds a PREFIX of the command's effect trace, each
   effect being one file created-and-written as a whole (the truncate-then-write
   windows inside one file are implementation-level known findings K1-K9).
   Part 1: the state after a crash is exactly a prefix state.  Part 2 (every
   prefix state is connected) is appended when ConnectedFacts.v is built. *)
From Coq Require Import Strings.String Strings.Byte.
From Coq Require Import List NArith.
From Goit Require Import Bytes World Repo MonadFacts.
From Goit Require Import Inv ConnectedFacts.
From Goit Require Import Bridge.
From Goit Require Import Refs BranchFacts SnapshotFacts.
From Goit Require HeadFacts ConfigCmdFacts JournalFacts ChainFacts TreeUniqueFacts FaultReachFacts CrashBranchFacts.
Import ListNotations.

(* T0 (tie to the source): every regexp literal of the current Go source denotes
   the same language, with the same anchoring, as the pattern of the model — proved
   by running the verified equivalence checker on SrcRegex.v, which is regenerated
   from /repo on every run (see Bridge.v) *)
Theorem C15_source_patterns_are_the_models : source_patterns_agree.
Proof. exact source_patterns. Qed.

Theorem C15_world_is_trace_applied : forall a w w' o tr,
  step a w = (w', o, tr) ->
  match a with ACmd _ _ => w' = apply_effects tr w | AEdit _ => tr = [] end.
Proof. exact step_trace. Qed.

(* stopping the command at its k-th effect leaves exactly the first k effects *)
Theorem C15_crash_state_is_a_prefix : forall e c w r w' tr k,
  run_m (run_cmd e c) w = (r, w', tr) -> k < length tr ->
  ms_w (snd (run_cmd e c (mkMS w [] (Some k)))) = apply_effects (firstn k tr) w.
Proof.
  intros e c w r w' tr k Hrun Hk.
  rewrite (cmd_fault_prefix e c w r w' tr k Hrun Hk). reflexivity.
Qed.


(* ---------- Part 2: every crash point of every command on every history ---------- *)
(* Kill the process between any two modifying effects of any command, issued on
   any reachable repository: what is on disk (the first k effects) is connected
   — objects were written before the ref that names them, the blob before the
   staging-area entry that names it, the branch before HEAD names it.  There is
   no exception: `branch --rename` (K8) writes the new branch file, points HEAD
   at it and only then removes the old one. *)
Theorem C15_crash_safe : forall h e c r w' tr k,
  Forall action_ok h -> run_m (run_cmd e c) (run h w_empty) = (r, w', tr) -> ~ Bad w' ->
  Connected (apply_effects (firstn k tr) (run h w_empty)).
Proof. exact reachable_crash_safe. Qed.

(* K8, the rename window, is closed.  On the witness that refuted the old order
   (a connected world with one commit on `main`, renamed to `trunk`; the rename
   ends in a connected world) the command performs eight effects; HEAD and the
   branch names after 0, 1, 2 and 3 of them are as listed — both branches exist
   while HEAD moves — and in EVERY prefix state HEAD names an existing branch and
   the repository is connected *)
Theorem C15_rename_window_closed :
  exists w e c, is_rename c /\ Connected w /\ ~ Bad (step_w (ACmd e c) w) /\ Connected (step_w (ACmd e c) w) /\
    length (snd (step (ACmd e c) w)) = 8 /\
    map (fun k => let w' := apply_effects (firstn k (snd (step (ACmd e c) w))) w in
                  (w_head w', map fst (w_refs w'))) [0; 1; 2; 3]
    = [ (str "main"%string, [str "main"%string]);
        (str "main"%string, [str "main"%string; str "trunk"%string]);
        (str "trunk"%string, [str "main"%string; str "trunk"%string]);
        (str "trunk"%string, [str "trunk"%string]) ] /\
    forall k, HeadOk (apply_effects (firstn k (snd (step (ACmd e c) w))) w) /\
              Connected (apply_effects (firstn k (snd (step (ACmd e c) w))) w).
Proof. exact crash_window_rename_closed. Qed.

Print Assumptions C15_world_is_trace_applied.
Print Assumptions C15_crash_state_is_a_prefix.
Print Assumptions C15_crash_safe.
Print Assumptions C15_rename_window_closed.
Print Assumptions C15_source_patterns_are_the_models.

(* "Each branch points either to the commit it named before the interrupted command or to the
   commit the command was about to install, never to anything else": for every command, on EVERY
   world, at every crash point k, every branch name (absent counts as a value: deletion is covered),
   and likewise for HEAD *)
Theorem C15_branch_old_or_new : forall e c w r w' tr k n,
  run_m (run_cmd e c) w = (r, w', tr) ->
  am_get (w_refs (apply_effects (firstn k tr) w)) n = am_get (w_refs w) n \/
  am_get (w_refs (apply_effects (firstn k tr) w)) n = am_get (w_refs w') n.
Proof. exact CrashBranchFacts.branch_prefix_old_or_new. Qed.

Theorem C15_head_old_or_new : forall e c w r w' tr k,
  run_m (run_cmd e c) w = (r, w', tr) ->
  w_head (apply_effects (firstn k tr) w) = w_head w \/ w_head (apply_effects (firstn k tr) w) = w_head w'.
Proof. exact CrashBranchFacts.head_old_or_new. Qed.

(* histories that GO ON after a crash or a failed write.  FReachable: the worlds obtained from the
   empty one by commands, valid user edits, and commands that stop at their k-th write (which, by
   C16_failure_is_reported, are exactly the crash-prefix states).  A crash state of a command run in
   such a world is again such a world, and in all of them the invariants of the fault-free histories
   hold: names valid, configuration well formed, refs sorted, journal invariant; and, unless a
   collision was flagged or an object exceeds 2^63 bytes, the repository is connected (C03), the
   staging area and every stored snapshot are well formed and read back, written trees have unique
   names, and every id in the journal is a stored commit.  So every "on every reachable repository"
   theorem's invariants are available after an interrupted command too *)
Theorem C15_crash_states_stay_in_the_closure : forall e c w r w' tr k,
  FaultReachFacts.FReachable w -> run_m (run_cmd e c) w = (r, w', tr) ->
  FaultReachFacts.FReachable (apply_effects (firstn k tr) w).
Proof. exact FaultReachFacts.freachable_crash. Qed.

Theorem C15_reachable_is_in_the_closure : forall w, Reachable w -> FaultReachFacts.FReachable w.
Proof. exact FaultReachFacts.reachable_freachable. Qed.

Theorem C15_invariants_after_crashes_and_faults : forall w, FaultReachFacts.FReachable w ->
  HeadFacts.NamesValid w /\
  ConfigCmdFacts.WfCfg w /\
  ConfigCmdFacts.CfgGood w /\          (* both configuration files load *)
  refs_sorted w /\
  JournalFacts.JInv w /\
  ConnectedFacts.CInv w /\ SnapshotFacts.Inv w /\ TreeUniqueFacts.UInv w /\ ChainFacts.CInv w /\
  (w_coll w = false -> ChainFacts.ChainGood w) /\
  (w_coll w = false -> SnapshotFacts.SmallStore (w_objs w) ->
     Connected w /\ WtValid w /\ IndexGood w /\ SnapshotsGood (w_objs w) /\
     TreeUniqueFacts.SnapshotsUnique (w_objs w) /\ HlogGood w).
Proof. exact FaultReachFacts.freachable_invariants. Qed.

(* non-vacuity: a world reached only through a failure (a commit stopped after its objects were
   written: not reachable without one) *)
Theorem C15_closure_is_strictly_larger :
  Reachable FaultReachFacts.fx_w0 /\ FaultReachFacts.FReachable FaultReachFacts.fx_w /\ ~ Reachable FaultReachFacts.fx_w.
Proof. exact FaultReachFacts.fx_only_through_fault. Qed.
Print Assumptions C15_branch_old_or_new.
Print Assumptions C15_head_old_or_new.
Print Assumptions C15_crash_states_stay_in_the_closure.
Print Assumptions C15_reachable_is_in_the_closure.
Print Assumptions C15_invariants_after_crashes_and_faults.
Print Assumptions C15_closure_is_strictly_larger.
