(* RegexFacts.v — correctness of the derivative matcher of Regex.v
   (matches r s = true <-> lang r s), semantics of the derived forms and of
   Go's unanchored search, and the facts about the generated patterns of
   GoRegex.v that the rest of the development uses.

   Facts about the generated [re_*] patterns go through the semantic lemmas
   over [lang] (lang_RCat, lang_RLit, lang_plus_cls, ...): the only thing they
   use about a pattern's shape is its decomposition into Cat / Lit / Plus /
   Star / Rep of classes, never the derivative computation. *)
From Coq Require Import Strings.Byte Strings.String.
From Coq Require Import List Bool NArith Arith.
From Coq Require Import Lia ZifyBool ZifyNat ZifyN.
From Goit Require Import Bytes Regex GoRegex Obj Repo.
Import ListNotations.

(* ------------------------------------------------------------------ *)
(** * Inversion of [lang], one constructor of [regex] at a time *)

Definition lang_inv_type (r : regex) (s : bytes) : Prop :=
  match r with
  | REmpty => False
  | REps => s = []
  | RCls c => exists b, s = [b] /\ in_cls c b = true
  | RCat a b => exists s1 s2, s = s1 ++ s2 /\ lang a s1 /\ lang b s2
  | RAlt a b => lang a s \/ lang b s
  | RStar a => s = [] \/ exists s1 s2, s = s1 ++ s2 /\ lang a s1 /\ lang (RStar a) s2
  end.

Lemma lang_inv r s : lang r s -> lang_inv_type r s.
Proof.
  intros H.
  destruct H as [ | c b Hb | a b s t Ha Hb | a b s Ha | a b s Hb | a | a s t Ha Hs];
    cbn [lang_inv_type].
  - reflexivity.
  - exists b. split; [reflexivity | exact Hb].
  - exists s, t. split; [reflexivity | split; [exact Ha | exact Hb]].
  - left; exact Ha.
  - right; exact Hb.
  - left; reflexivity.
  - right. exists s, t. split; [reflexivity | split; [exact Ha | exact Hs]].
Qed.

Lemma lang_REmpty s : lang REmpty s <-> False.
Proof.
  split; intros H.
  - apply lang_inv in H. exact H.
  - destruct H.
Qed.

Lemma lang_REps s : lang REps s <-> s = [].
Proof.
  split; intros H.
  - apply lang_inv in H. exact H.
  - subst s. apply LEps.
Qed.

Lemma lang_RCls c s : lang (RCls c) s <-> exists b, s = [b] /\ in_cls c b = true.
Proof.
  split; intros H.
  - apply lang_inv in H. exact H.
  - destruct H as [b [E Hb]]. subst s. apply LCls. exact Hb.
Qed.

Lemma lang_RCat a b s :
  lang (RCat a b) s <-> exists s1 s2, s = s1 ++ s2 /\ lang a s1 /\ lang b s2.
Proof.
  split; intros H.
  - apply lang_inv in H. exact H.
  - destruct H as [s1 [s2 [E [Ha Hb]]]]. subst s. apply LCat; assumption.
Qed.

Lemma lang_RAlt a b s : lang (RAlt a b) s <-> lang a s \/ lang b s.
Proof.
  split; intros H.
  - apply lang_inv in H. exact H.
  - destruct H as [Ha | Hb]; [apply LAltL | apply LAltR]; assumption.
Qed.

Lemma lang_RStar a s :
  lang (RStar a) s <->
  s = [] \/ exists s1 s2, s = s1 ++ s2 /\ lang a s1 /\ lang (RStar a) s2.
Proof.
  split; intros H.
  - apply lang_inv in H. exact H.
  - destruct H as [E | [s1 [s2 [E [Ha Hs]]]]]; subst s.
    + apply LStar0.
    + apply LStarS; assumption.
Qed.

(* a non-empty member of a star starts with a NON-EMPTY member of the body *)
Lemma lang_star_nonempty a s :
  lang (RStar a) s ->
  s = [] \/ exists s1 s2, s = s1 ++ s2 /\ s1 <> [] /\ lang a s1 /\ lang (RStar a) s2.
Proof.
  intros H. remember (RStar a) as r eqn:Er.
  induction H as [ | c b Hc | x y s1 s2 Hx IHx Hy IHy | x y s1 Hx IHx | x y s1 Hy IHy
                 | x | x s1 s2 Hx IHx Hs IHs]; try discriminate Er.
  - left; reflexivity.
  - injection Er as Ex. subst x.
    destruct s1 as [|c s1'].
    + cbn [app]. apply IHs. reflexivity.
    + right. exists (c :: s1'), s2.
      split; [reflexivity|]. split; [discriminate|]. split; [exact Hx | exact Hs].
Qed.

Lemma lang_cat_cons a b c s :
  lang (RCat a b) (c :: s) <->
  (exists s1 s2, s = s1 ++ s2 /\ lang a (c :: s1) /\ lang b s2) \/
  (lang a [] /\ lang b (c :: s)).
Proof.
  rewrite lang_RCat. split.
  - intros [s1 [s2 [E [Ha Hb]]]]. destruct s1 as [|c' s1'].
    + cbn [app] in E. right. split; [exact Ha | rewrite E; exact Hb].
    + cbn [app] in E. injection E as Ec Es. subst c'.
      left. exists s1', s2. split; [exact Es | split; [exact Ha | exact Hb]].
  - intros [[s1 [s2 [E [Ha Hb]]]] | [Ha Hb]].
    + exists (c :: s1), s2. subst s. split; [reflexivity | split; [exact Ha | exact Hb]].
    + exists [], (c :: s). split; [reflexivity | split; [exact Ha | exact Hb]].
Qed.

Lemma lang_star_cons a c s :
  lang (RStar a) (c :: s) <->
  exists s1 s2, s = s1 ++ s2 /\ lang a (c :: s1) /\ lang (RStar a) s2.
Proof.
  split.
  - intros H. apply lang_star_nonempty in H.
    destruct H as [E | [s1 [s2 [E [Hne [Ha Hs]]]]]]; [discriminate E|].
    destruct s1 as [|c' s1']; [contradiction Hne; reflexivity|].
    cbn [app] in E. injection E as Ec Es. subst c'.
    exists s1', s2. split; [exact Es | split; [exact Ha | exact Hs]].
  - intros [s1 [s2 [E [Ha Hs]]]]. subst s.
    change (c :: s1 ++ s2) with ((c :: s1) ++ s2). apply LStarS; assumption.
Qed.

(* ------------------------------------------------------------------ *)
(** * 1. Smart constructors *)

Lemma cat_empty_l b s : lang (RCat REmpty b) s <-> False.
Proof.
  rewrite lang_RCat. split; [|intros []].
  intros [s1 [s2 [_ [Ha _]]]]. apply lang_REmpty in Ha. exact Ha.
Qed.

Lemma cat_empty_r a s : lang (RCat a REmpty) s <-> False.
Proof.
  rewrite lang_RCat. split; [|intros []].
  intros [s1 [s2 [_ [_ Hb]]]]. apply lang_REmpty in Hb. exact Hb.
Qed.

Lemma cat_eps_l b s : lang (RCat REps b) s <-> lang b s.
Proof.
  rewrite lang_RCat. split.
  - intros [s1 [s2 [E [Ha Hb]]]]. apply lang_REps in Ha. subst s1 s. exact Hb.
  - intros Hb. exists [], s. split; [reflexivity | split; [apply LEps | exact Hb]].
Qed.

Lemma cat_eps_r a s : lang (RCat a REps) s <-> lang a s.
Proof.
  rewrite lang_RCat. split.
  - intros [s1 [s2 [E [Ha Hb]]]]. apply lang_REps in Hb. subst s2 s.
    rewrite app_nil_r. exact Ha.
  - intros Ha. exists s, []. split; [symmetry; apply app_nil_r | split; [exact Ha | apply LEps]].
Qed.

Lemma alt_empty_l b s : lang (RAlt REmpty b) s <-> lang b s.
Proof.
  rewrite lang_RAlt, lang_REmpty. split; [intros [[] | Hb]; exact Hb | intros Hb; right; exact Hb].
Qed.

Lemma alt_empty_r a s : lang (RAlt a REmpty) s <-> lang a s.
Proof.
  rewrite lang_RAlt, lang_REmpty. split; [intros [Ha | []]; exact Ha | intros Ha; left; exact Ha].
Qed.

Theorem mkCat_sound a b s : lang (mkCat a b) s <-> lang (RCat a b) s.
Proof.
  destruct a; destruct b; cbn [mkCat];
    first [ reflexivity
          | rewrite cat_empty_l; apply lang_REmpty
          | rewrite cat_empty_r; apply lang_REmpty
          | symmetry; apply cat_eps_l
          | symmetry; apply cat_eps_r ].
Qed.

Theorem mkAlt_sound a b s : lang (mkAlt a b) s <-> lang (RAlt a b) s.
Proof.
  destruct a; destruct b; cbn [mkAlt];
    first [ reflexivity
          | symmetry; apply alt_empty_l
          | symmetry; apply alt_empty_r ].
Qed.

(* ------------------------------------------------------------------ *)
(** * 2-4. nullable, deriv, matches *)

Theorem nullable_spec r : nullable r = true <-> lang r [].
Proof.
  induction r as [ | | c | a IHa b IHb | a IHa b IHb | a IHa]; cbn [nullable].
  - rewrite lang_REmpty. split; [discriminate | intros []].
  - split; intros _; [apply LEps | reflexivity].
  - split; [discriminate|]. intros H. apply lang_RCls in H.
    destruct H as [b [E _]]. discriminate E.
  - rewrite andb_true_iff, IHa, IHb, lang_RCat. split.
    + intros [Ha Hb]. exists [], []. split; [reflexivity | split; [exact Ha | exact Hb]].
    + intros [s1 [s2 [E [Ha Hb]]]]. symmetry in E. apply app_eq_nil in E.
      destruct E as [E1 E2]. subst s1 s2. split; [exact Ha | exact Hb].
  - rewrite orb_true_iff, IHa, IHb, lang_RAlt. reflexivity.
  - split; intros _; [apply LStar0 | reflexivity].
Qed.

Theorem deriv_spec : forall r c s, lang (deriv c r) s <-> lang r (c :: s).
Proof.
  induction r as [ | | k | a IHa b IHb | a IHa b IHb | a IHa]; intros c s; cbn [deriv].
  - rewrite !lang_REmpty. reflexivity.
  - rewrite lang_REmpty, lang_REps. split; [intros [] | discriminate].
  - destruct (in_cls k c) eqn:Hk.
    + rewrite lang_REps, lang_RCls. split.
      * intros E. subst s. exists c. split; [reflexivity | exact Hk].
      * intros [b [E _]]. injection E as Ec Es. exact Es.
    + rewrite lang_REmpty, lang_RCls. split; [intros []|].
      intros [b [E Hb]]. injection E as Ec Es. subst b. rewrite Hk in Hb. discriminate Hb.
  - destruct (nullable a) eqn:Hn.
    + rewrite mkAlt_sound, lang_RAlt, mkCat_sound, lang_RCat, IHb, lang_cat_cons. split.
      * intros [[s1 [s2 [E [H1 H2]]]] | H].
        -- left. exists s1, s2.
           split; [exact E | split; [apply (proj1 (IHa c s1)); exact H1 | exact H2]].
        -- right. split; [apply nullable_spec; exact Hn | exact H].
      * intros [[s1 [s2 [E [H1 H2]]]] | [_ H]].
        -- left. exists s1, s2.
           split; [exact E | split; [apply (proj2 (IHa c s1)); exact H1 | exact H2]].
        -- right. exact H.
    + rewrite mkCat_sound, lang_RCat, lang_cat_cons. split.
      * intros [s1 [s2 [E [H1 H2]]]]. left. exists s1, s2.
        split; [exact E | split; [apply (proj1 (IHa c s1)); exact H1 | exact H2]].
      * intros [[s1 [s2 [E [H1 H2]]]] | [Hnil _]].
        -- exists s1, s2.
           split; [exact E | split; [apply (proj2 (IHa c s1)); exact H1 | exact H2]].
        -- apply nullable_spec in Hnil. rewrite Hn in Hnil. discriminate Hnil.
  - rewrite mkAlt_sound, !lang_RAlt, IHa, IHb. reflexivity.
  - rewrite mkCat_sound, lang_RCat, lang_star_cons. split.
    + intros [s1 [s2 [E [H1 H2]]]]. exists s1, s2.
      split; [exact E | split; [apply (proj1 (IHa c s1)); exact H1 | exact H2]].
    + intros [s1 [s2 [E [H1 H2]]]]. exists s1, s2.
      split; [exact E | split; [apply (proj2 (IHa c s1)); exact H1 | exact H2]].
Qed.

Theorem matches_spec : forall r s, matches r s = true <-> lang r s.
Proof.
  intros r s. revert r.
  induction s as [|c t IHt]; intros r; cbn [matches].
  - apply nullable_spec.
  - rewrite IHt. apply deriv_spec.
Qed.

(* ------------------------------------------------------------------ *)
(** * 5. Derived forms *)

Lemma bN_inj a b : bN a = bN b -> a = b.
Proof.
  unfold bN. intros H.
  pose proof (Byte.of_to_N a) as Ha. pose proof (Byte.of_to_N b) as Hb.
  rewrite H in Ha. rewrite Ha in Hb. injection Hb as Hb. exact Hb.
Qed.

Lemma in_cls_char c b : in_cls (mkCls false [(bN c, bN c)]) b = true <-> b = c.
Proof.
  unfold in_cls, in_ranges. cbn [c_neg c_ranges existsb fst snd].
  split.
  - intros H. apply bN_inj. lia.
  - intros E. subst b. lia.
Qed.

Lemma lang_RChar c s : lang (RChar c) s <-> s = [c].
Proof.
  unfold RChar. rewrite lang_RCls. split.
  - intros [b [E Hb]]. apply in_cls_char in Hb. subst b. exact E.
  - intros E. exists c. split; [exact E | apply in_cls_char; reflexivity].
Qed.

Theorem lang_RLit : forall l s, lang (RLit l) s <-> s = l.
Proof.
  induction l as [|c l IH]; intros s; cbn [RLit].
  - apply lang_REps.
  - rewrite lang_RCat. split.
    + intros [s1 [s2 [E [H1 H2]]]]. apply lang_RChar in H1. apply IH in H2.
      subst s1 s2 s. reflexivity.
    + intros E. exists [c], l.
      split; [exact E | split; [apply lang_RChar; reflexivity | apply IH; reflexivity]].
Qed.

Theorem lang_RPlus a s :
  lang (RPlus a) s <-> exists s1 s2, s = s1 ++ s2 /\ lang a s1 /\ lang (RStar a) s2.
Proof. unfold RPlus. apply lang_RCat. Qed.

Lemma lang_ROpt a s : lang (ROpt a) s <-> lang a s \/ s = [].
Proof. unfold ROpt. rewrite lang_RAlt, lang_REps. reflexivity. Qed.

(* exactly n members of the body, concatenated *)
Theorem lang_RRep : forall n a s,
  lang (RRep n a) s <->
  exists ss, length ss = n /\ s = concat ss /\ Forall (lang a) ss.
Proof.
  induction n as [|k IH]; intros a s; cbn [RRep].
  - rewrite lang_REps. split.
    + intros E. exists []. split; [reflexivity | split; [exact E | apply Forall_nil]].
    + intros [ss [L [E _]]]. destruct ss as [|x ss']; [exact E | discriminate L].
  - rewrite lang_RCat. split.
    + intros [s1 [s2 [E [H1 H2]]]]. apply IH in H2. destruct H2 as [ss [L [E2 F]]].
      exists (s1 :: ss). cbn [length concat]. subst s2.
      split; [rewrite L; reflexivity | split; [exact E | apply Forall_cons; assumption]].
    + intros [ss [L [E F]]]. destruct ss as [|s1 ss']; [discriminate L|].
      cbn [length concat] in L, E. injection L as L.
      exists s1, (concat ss').
      split; [exact E|]. split; [exact (Forall_inv F)|].
      apply IH. exists ss'.
      split; [exact L | split; [reflexivity | exact (Forall_inv_tail F)]].
Qed.

Theorem lang_RRepMin n a s :
  lang (RRepMin n a) s <->
  exists s1 s2, s = s1 ++ s2 /\ lang (RRep n a) s1 /\ lang (RStar a) s2.
Proof. unfold RRepMin. apply lang_RCat. Qed.

Theorem lang_star_cls c s :
  lang (RStar (RCls c)) s <-> Forall (fun b => in_cls c b = true) s.
Proof.
  split.
  - intros H. remember (RStar (RCls c)) as r eqn:Er.
    induction H as [ | k b Hk | x y s1 s2 Hx IHx Hy IHy | x y s1 Hx IHx | x y s1 Hy IHy
                   | x | x s1 s2 Hx IHx Hs IHs]; try discriminate Er.
    + apply Forall_nil.
    + injection Er as Ex. subst x. apply lang_RCls in Hx.
      destruct Hx as [b [E Hb]]. subst s1. cbn [app].
      apply Forall_cons; [exact Hb | apply IHs; reflexivity].
  - induction s as [|b t IH]; intros F.
    + apply LStar0.
    + change (b :: t) with ([b] ++ t). apply LStarS.
      * apply LCls. exact (Forall_inv F).
      * apply IH. exact (Forall_inv_tail F).
Qed.

Theorem lang_plus_cls c s :
  lang (RPlus (RCls c)) s <-> s <> [] /\ Forall (fun b => in_cls c b = true) s.
Proof.
  rewrite lang_RPlus. split.
  - intros [s1 [s2 [E [H1 H2]]]]. apply lang_RCls in H1. destruct H1 as [b [E1 Hb]].
    apply lang_star_cls in H2. subst s1 s. cbn [app].
    split; [discriminate | apply Forall_cons; assumption].
  - intros [Hne F]. destruct s as [|b t]; [contradiction Hne; reflexivity|].
    exists [b], t. split; [reflexivity|]. split.
    + apply LCls. exact (Forall_inv F).
    + apply lang_star_cls. exact (Forall_inv_tail F).
Qed.

(* exactly n bytes of a class *)
Lemma lang_rep_cls : forall n c s,
  lang (RRep n (RCls c)) s <-> length s = n /\ Forall (fun b => in_cls c b = true) s.
Proof.
  induction n as [|k IH]; intros c s; cbn [RRep].
  - rewrite lang_REps. split.
    + intros E. subst s. split; [reflexivity | apply Forall_nil].
    + intros [L _]. destruct s as [|b t]; [reflexivity | discriminate L].
  - rewrite lang_RCat. split.
    + intros [s1 [s2 [E [H1 H2]]]]. apply lang_RCls in H1. destruct H1 as [b [E1 Hb]].
      apply IH in H2. destruct H2 as [L F]. subst s1 s. cbn [app length].
      split; [rewrite L; reflexivity | apply Forall_cons; assumption].
    + intros [L F]. destruct s as [|b t]; [discriminate L|].
      cbn [length] in L. injection L as L.
      exists [b], t. split; [reflexivity|]. split.
      * apply LCls. exact (Forall_inv F).
      * apply IH. split; [exact L | exact (Forall_inv_tail F)].
Qed.

Theorem lang_RAny_star : forall s, lang (RStar RAny) s.
Proof.
  intros s. unfold RAny. apply lang_star_cls.
  apply Forall_forall. intros b _. reflexivity.
Qed.

(* a class that computes a boolean predicate: Forall <-> forallb *)
Lemma Forall_cls_forallb c (f : byte -> bool) s :
  (forall b, in_cls c b = f b) ->
  (Forall (fun b => in_cls c b = true) s <-> forallb f s = true).
Proof.
  intros Hf. rewrite Forall_forall, forallb_forall. split.
  - intros H b Hb. rewrite <- Hf. apply H. exact Hb.
  - intros H b Hb. rewrite Hf. apply H. exact Hb.
Qed.

(* Go's '.' : any byte but \n *)
Lemma in_cls_nonl b : in_cls (mkCls true [(10, 10)]%N) b = true <-> b <> x0a.
Proof.
  unfold in_cls, in_ranges. cbn [c_neg c_ranges existsb fst snd]. split.
  - intros H E. subst b. discriminate H.
  - intros Hne.
    assert (Hn : bN b <> 10%N).
    { intros E. apply Hne. apply bN_inj. rewrite E. reflexivity. }
    lia.
Qed.

Lemma Forall_nonl s :
  Forall (fun b => in_cls (mkCls true [(10, 10)]%N) b = true) s <-> ~ In x0a s.
Proof.
  rewrite Forall_forall. split.
  - intros H Hin. apply H in Hin. apply in_cls_nonl in Hin. apply Hin. reflexivity.
  - intros Hnl b Hb. apply in_cls_nonl. intros E. subst b. apply Hnl. exact Hb.
Qed.

Lemma lang_star_nonl s : lang (RStar RAnyNoNL) s <-> ~ In x0a s.
Proof. unfold RAnyNoNL. rewrite lang_star_cls. apply Forall_nonl. Qed.

Lemma lang_plus_nonl s : lang (RPlus RAnyNoNL) s <-> s <> [] /\ ~ In x0a s.
Proof. unfold RAnyNoNL. rewrite lang_plus_cls, Forall_nonl. reflexivity. Qed.

(* ------------------------------------------------------------------ *)
(** * 6. regexp.MatchString *)

Theorem re_search_spec : forall p s,
  re_search p s = true <->
  exists pre mid post,
    s = pre ++ mid ++ post /\ lang (p_body p) mid /\
    (p_bol p = true -> pre = []) /\ (p_eol p = true -> post = []).
Proof.
  intros p s. unfold re_search. rewrite matches_spec. unfold pat_regex.
  destruct (p_bol p) eqn:Hbol; destruct (p_eol p) eqn:Heol.
  - split.
    + intros H. exists [], s, [].
      split; [cbn [app]; symmetry; apply app_nil_r|].
      split; [exact H|]. split; intros _; reflexivity.
    + intros [pre [mid [post [E [H [Hp Hq]]]]]].
      rewrite (Hp eq_refl), (Hq eq_refl) in E. cbn [app] in E.
      rewrite app_nil_r in E. subst s. exact H.
  - rewrite lang_RCat. split.
    + intros [s1 [s2 [E [H1 H2]]]]. exists [], s1, s2.
      split; [exact E|]. split; [exact H1|]. split; [intros _; reflexivity | discriminate].
    + intros [pre [mid [post [E [H [Hp _]]]]]].
      rewrite (Hp eq_refl) in E. cbn [app] in E.
      exists mid, post. split; [exact E | split; [exact H | apply lang_RAny_star]].
  - rewrite lang_RCat. split.
    + intros [s1 [s2 [E [H1 H2]]]]. exists s1, s2, [].
      split; [rewrite app_nil_r; exact E|]. split; [exact H2|].
      split; [discriminate | intros _; reflexivity].
    + intros [pre [mid [post [E [H [_ Hq]]]]]].
      rewrite (Hq eq_refl), app_nil_r in E.
      exists pre, mid. split; [exact E | split; [apply lang_RAny_star | exact H]].
  - rewrite lang_RCat. split.
    + intros [s12 [s3 [E [H12 H3]]]]. apply lang_RCat in H12.
      destruct H12 as [s1 [s2 [E12 [H1 H2]]]]. subst s12.
      exists s1, s2, s3. split; [rewrite app_assoc; exact E|].
      split; [exact H2|]. split; discriminate.
    + intros [pre [mid [post [E [H _]]]]].
      exists (pre ++ mid), post. split; [rewrite <- app_assoc; exact E|].
      split; [|apply lang_RAny_star].
      apply lang_RCat. exists pre, mid.
      split; [reflexivity | split; [apply lang_RAny_star | exact H]].
Qed.

(* ------------------------------------------------------------------ *)
(** * 7. resetRegexp and Repo.reset_arg *)

(* -- the facts about [dec] needed here, proved locally (rf_ prefix) -- *)

Lemma rf_bN_Nb n : (n <= 255)%N -> bN (Nb n) = n.
Proof.
  intros H. unfold bN, Nb. destruct (Byte.of_N n) as [b|] eqn:E.
  - apply Byte.to_of_N. exact E.
  - apply Byte.of_N_None_iff in E. lia.
Qed.

Lemma rf_digit_of d :
  (d < 10)%N -> is_digit (digit_of d) = true /\ digit_val (digit_of d) = d.
Proof.
  intros H. unfold is_digit, digit_of, digit_val.
  rewrite rf_bN_Nb by lia. split; lia.
Qed.

Lemma rf_digits_val_snoc ds d :
  digits_val (ds ++ [d]) = (digits_val ds * 10 + digit_val d)%N.
Proof. unfold digits_val. rewrite fold_left_app. reflexivity. Qed.

Lemma rf_pos_lt_pow2_size p : (N.pos p < 2 ^ N.of_nat (Pos.size_nat p))%N.
Proof.
  induction p as [q IH | q IH | ]; cbn [Pos.size_nat].
  - rewrite Nat2N.inj_succ, N.pow_succ_r'. lia.
  - rewrite Nat2N.inj_succ, N.pow_succ_r'. lia.
  - reflexivity.
Qed.

Lemma rf_lt_pow2_size n : (n < 2 ^ N.of_nat (S (N.size_nat n)))%N.
Proof.
  rewrite Nat2N.inj_succ, N.pow_succ_r'. destruct n as [|p]; cbn [N.size_nat].
  - reflexivity.
  - pose proof (rf_pos_lt_pow2_size p) as H. lia.
Qed.

Lemma rf_dec_aux_spec : forall f n acc,
  (n < 2 ^ N.of_nat (S f))%N ->
  exists ds, dec_aux (S f) n acc = ds ++ acc /\ ds <> [] /\
             forallb is_digit ds = true /\ digits_val ds = n.
Proof.
  induction f as [|f' IH]; intros n acc Hn.
  - change (2 ^ N.of_nat 1)%N with 2%N in Hn.
    assert (Hlt : (n < 10)%N) by lia.
    cbn [dec_aux]. apply N.ltb_lt in Hlt. rewrite Hlt. apply N.ltb_lt in Hlt.
    rewrite (N.mod_small n 10 Hlt).
    destruct (rf_digit_of n Hlt) as [Hd Hv].
    exists [digit_of n]. split; [reflexivity|]. split; [discriminate|]. split.
    + cbn [forallb]. rewrite Hd. reflexivity.
    + unfold digits_val. cbn [fold_left]. rewrite Hv. reflexivity.
  - remember (S f') as g eqn:Eg. cbn [dec_aux].
    assert (Hm : (n mod 10 < 10)%N) by (apply N.mod_lt; discriminate).
    destruct (rf_digit_of (n mod 10) Hm) as [Hd Hv].
    destruct (N.ltb n 10) eqn:Hlt.
    + apply N.ltb_lt in Hlt. rewrite (N.mod_small n 10 Hlt) in *.
      exists [digit_of n]. split; [reflexivity|]. split; [discriminate|]. split.
      * cbn [forallb]. rewrite Hd. reflexivity.
      * unfold digits_val. cbn [fold_left]. rewrite Hv. reflexivity.
    + apply N.ltb_ge in Hlt.
      assert (Hq : (n / 10 < 2 ^ N.of_nat g)%N).
      { rewrite Nat2N.inj_succ, N.pow_succ_r' in Hn.
        apply N.div_lt_upper_bound; [discriminate | lia]. }
      subst g.
      destruct (IH (n / 10)%N (digit_of (n mod 10) :: acc) Hq) as [ds [E [Hne [Hall Hval]]]].
      exists (ds ++ [digit_of (n mod 10)]).
      split; [rewrite E, <- app_assoc; reflexivity|].
      split; [intros Enil; apply app_eq_nil in Enil; destruct Enil as [_ Enil]; discriminate Enil|].
      split.
      * rewrite forallb_app, Hall. cbn [forallb]. rewrite Hd. reflexivity.
      * rewrite rf_digits_val_snoc, Hval, Hv.
        pose proof (N.div_mod' n 10) as Hdm. lia.
Qed.

Lemma rf_dec_digits n :
  all_digits (dec n) = true /\ dec n <> [] /\ digits_val (dec n) = n.
Proof.
  unfold dec, all_digits.
  destruct (rf_dec_aux_spec (N.size_nat n) n [] (rf_lt_pow2_size n)) as [ds [E [Hne [Hall Hval]]]].
  rewrite E, app_nil_r. split; [exact Hall | split; [exact Hne | exact Hval]].
Qed.

Lemma rf_parse_dec_digits ds :
  ds <> [] -> forallb is_digit ds = true -> parse_dec ds = Some (digits_val ds).
Proof.
  intros Hne Hall. unfold parse_dec, all_digits.
  destruct ds as [|d ds']; [contradiction Hne; reflexivity|].
  rewrite Hall. reflexivity.
Qed.

Lemma rf_parse_dec_dec n : parse_dec (dec n) = Some n.
Proof.
  destruct (rf_dec_digits n) as [Hall [Hne Hval]].
  rewrite rf_parse_dec_digits; [rewrite Hval; reflexivity | exact Hne | exact Hall].
Qed.

(* -- the pattern -- *)

Lemma in_cls_digit b : in_cls (mkCls false [(48, 57)]%N) b = is_digit b.
Proof.
  unfold in_cls, in_ranges, is_digit. cbn [c_neg c_ranges existsb fst snd].
  apply orb_false_r.
Qed.

Definition head_at : bytes := [x48; x45; x41; x44; x40; x7b].   (* HEAD@{ *)

Lemma reset_body_spec mid :
  lang (p_body re_resetRegexp) mid <->
  exists ds, mid = head_at ++ ds ++ [x7d] /\ ds <> [] /\ forallb is_digit ds = true.
Proof.
  unfold re_resetRegexp. cbn [p_body]. rewrite lang_RCat. split.
  - intros [s1 [s2 [E [H1 H2]]]]. apply lang_RLit in H1.
    apply lang_RCat in H2. destruct H2 as [s3 [s4 [E2 [H3 H4]]]].
    apply lang_plus_cls in H3. destruct H3 as [Hne F]. apply lang_RLit in H4.
    exists s3. subst s1 s4 s2 mid.
    split; [reflexivity|]. split; [exact Hne|].
    apply (Forall_cls_forallb _ is_digit s3 in_cls_digit). exact F.
  - intros [ds [E [Hne Hall]]]. exists head_at, (ds ++ [x7d]).
    split; [exact E|]. split; [apply lang_RLit; reflexivity|].
    apply lang_RCat. exists ds, [x7d]. split; [reflexivity|].
    split; [|apply lang_RLit; reflexivity].
    apply lang_plus_cls. split; [exact Hne|].
    apply (Forall_cls_forallb _ is_digit ds in_cls_digit). exact Hall.
Qed.

Lemma reset_search_spec a :
  re_search re_resetRegexp a = true <->
  exists ds, a = head_at ++ ds ++ [x7d] /\ ds <> [] /\ forallb is_digit ds = true.
Proof.
  rewrite re_search_spec. split.
  - intros [pre [mid [post [E [Hm [Hp Hq]]]]]].
    specialize (Hp eq_refl). specialize (Hq eq_refl). subst pre post.
    cbn [app] in E. rewrite app_nil_r in E. subst mid.
    apply reset_body_spec. exact Hm.
  - intros H. apply reset_body_spec in H. exists [], a, [].
    split; [cbn [app]; symmetry; apply app_nil_r|].
    split; [exact H|]. split; intros _; reflexivity.
Qed.

Lemma reset_arg_form ds :
  ds <> [] -> forallb is_digit ds = true ->
  reset_arg (head_at ++ ds ++ [x7d]) = Some (digits_val ds).
Proof.
  intros Hne Hall. unfold reset_arg.
  assert (Hs : re_search re_resetRegexp (head_at ++ ds ++ [x7d]) = true).
  { apply reset_search_spec. exists ds.
    split; [reflexivity | split; [exact Hne | exact Hall]]. }
  rewrite Hs.
  assert (El : length (head_at ++ ds ++ [x7d]) - 7 = length ds).
  { rewrite !app_length. cbn [length head_at]. lia. }
  rewrite El. unfold head_at. cbn [app skipn].
  rewrite firstn_app, firstn_all, Nat.sub_diag. cbn [firstn]. rewrite app_nil_r.
  apply rf_parse_dec_digits; assumption.
Qed.

Theorem reset_arg_only : forall a n,
  reset_arg a = Some n ->
  exists ds, a = [x48; x45; x41; x44; x40; x7b] ++ ds ++ [x7d] /\ ds <> [] /\
             forallb is_digit ds = true /\ digits_val ds = n.
Proof.
  intros a n H.
  assert (Hs : re_search re_resetRegexp a = true).
  { unfold reset_arg in H.
    destruct (re_search re_resetRegexp a) eqn:Hs; [reflexivity | discriminate H]. }
  apply reset_search_spec in Hs. destruct Hs as [ds [E [Hne Hall]]].
  exists ds. subst a. rewrite (reset_arg_form ds Hne Hall) in H. injection H as H.
  split; [reflexivity | split; [exact Hne | split; [exact Hall | exact H]]].
Qed.

Theorem reset_arg_accepts : forall n,
  reset_arg (str "HEAD@{" ++ dec n ++ str "}") = Some n.
Proof.
  intros n. change (str "HEAD@{") with head_at. change (str "}") with [x7d].
  destruct (rf_dec_digits n) as [Hall [Hne Hval]]. unfold all_digits in Hall.
  rewrite (reset_arg_form (dec n) Hne Hall), Hval. reflexivity.
Qed.

(* the exact set of accepted arguments, in one statement *)
Corollary reset_arg_spec a n :
  reset_arg a = Some n <->
  exists ds, a = head_at ++ ds ++ [x7d] /\ ds <> [] /\
             forallb is_digit ds = true /\ digits_val ds = n.
Proof.
  split.
  - apply reset_arg_only.
  - intros [ds [E [Hne [Hall Hval]]]]. subst a n. apply reset_arg_form; assumption.
Qed.

(* ------------------------------------------------------------------ *)
(** * 9. headRegexp *)

Theorem head_line_accepts : forall n,
  n <> [] -> ~ In x0a n ->
  re_search re_headRegexp (str "ref: refs/heads/" ++ n) = true.
Proof.
  intros n Hne Hnl. apply re_search_spec.
  exists [], (str "ref: refs/heads/" ++ n), [].
  split; [cbn [app]; symmetry; apply app_nil_r|].
  split; [|split; intros _; reflexivity].
  unfold re_headRegexp. cbn [p_body]. apply lang_RCat.
  exists (str "ref: refs/heads/"), n. split; [reflexivity|].
  split; [apply lang_RLit; reflexivity|].
  apply lang_plus_nonl. split; [exact Hne | exact Hnl].
Qed.

(* ------------------------------------------------------------------ *)
(** * 10. identRegexp *)

Theorem ident_spec : forall l,
  ~ In x0a l ->
  (re_search re_identRegexp l = true <-> exists m, l = [x5b] ++ m ++ [x5d]).
Proof.
  intros l Hnl. rewrite re_search_spec. split.
  - intros [pre [mid [post [E [Hm [Hp Hq]]]]]].
    specialize (Hp eq_refl). specialize (Hq eq_refl). subst pre post.
    cbn [app] in E. rewrite app_nil_r in E. subst mid.
    unfold re_identRegexp in Hm. cbn [p_body] in Hm.
    apply lang_RCat in Hm. destruct Hm as [s1 [s2 [E [H1 H2]]]].
    apply lang_RLit in H1. apply lang_RCat in H2.
    destruct H2 as [s3 [s4 [E2 [H3 H4]]]]. apply lang_RLit in H4.
    exists s3. subst s1 s4 s2. exact E.
  - intros [m E]. exists [], l, [].
    split; [cbn [app]; symmetry; apply app_nil_r|].
    split; [|split; intros _; reflexivity].
    unfold re_identRegexp. cbn [p_body]. apply lang_RCat.
    exists [x5b], (m ++ [x5d]). split; [exact E|].
    split; [apply lang_RLit; reflexivity|].
    apply lang_RCat. exists m, [x5d]. split; [reflexivity|].
    split; [|apply lang_RLit; reflexivity].
    apply lang_star_nonl. intros Hin. apply Hnl. subst l.
    cbn [app]. right. apply in_or_app. left. exact Hin.
Qed.

(* ------------------------------------------------------------------ *)
(** * 8. sha1Regexp and Obj.has_hex_run *)

Lemma in_cls_hex b : in_cls (mkCls false [(48, 57); (97, 102)]%N) b = is_lower_hex b.
Proof.
  unfold in_cls, in_ranges, is_lower_hex. cbn [c_neg c_ranges existsb fst snd].
  rewrite orb_false_r. reflexivity.
Qed.

Lemma sha1_body_spec mid :
  lang (p_body re_sha1Regexp) mid <->
  length mid = 40 /\ forallb is_lower_hex mid = true.
Proof.
  unfold re_sha1Regexp. cbn [p_body]. rewrite lang_rep_cls.
  rewrite (Forall_cls_forallb _ is_lower_hex mid in_cls_hex). reflexivity.
Qed.

(* s starts with k lower-case hex digits / contains k consecutive ones *)
Definition hexrun (k : nat) (s : bytes) : Prop :=
  exists run rest, s = run ++ rest /\ length run = k /\ forallb is_lower_hex run = true.
Definition hexsub (k : nat) (s : bytes) : Prop :=
  exists pre mid post,
    s = pre ++ mid ++ post /\ length mid = k /\ forallb is_lower_hex mid = true.

Lemma has_hex_run_sound need : forall s cur,
  cur < need -> has_hex_run need cur s = true ->
  hexrun (need - cur) s \/ hexsub need s.
Proof.
  induction s as [|c r IH]; intros cur Hcur H; cbn [has_hex_run] in H.
  - discriminate H.
  - destruct (is_lower_hex c) eqn:Hc.
    + destruct (Nat.eqb (S cur) need) eqn:Hq.
      * apply Nat.eqb_eq in Hq. left. exists [c], r.
        split; [reflexivity|]. split; [cbn [length]; lia|].
        cbn [forallb]. rewrite Hc. reflexivity.
      * apply Nat.eqb_neq in Hq.
        assert (Hcur' : S cur < need) by lia.
        destruct (IH (S cur) Hcur' H) as [[run [rest [E [L F]]]] | [pre [mid [post [E [L F]]]]]].
        -- left. exists (c :: run), rest. subst r.
           split; [reflexivity|]. split; [cbn [length]; lia|].
           cbn [forallb]. rewrite Hc, F. reflexivity.
        -- right. exists (c :: pre), mid, post. subst r.
           split; [reflexivity | split; [exact L | exact F]].
    + assert (Hpos : 0 < need) by lia.
      destruct (IH 0 Hpos H) as [[run [rest [E [L F]]]] | [pre [mid [post [E [L F]]]]]].
      * right. exists [c], run, rest. subst r.
        split; [reflexivity | split; [lia | exact F]].
      * right. exists (c :: pre), mid, post. subst r.
        split; [reflexivity | split; [exact L | exact F]].
Qed.

Lemma has_hex_run_of_run need : forall s cur j,
  cur < need -> need - cur <= j -> hexrun j s -> has_hex_run need cur s = true.
Proof.
  induction s as [|c r IH]; intros cur j Hcur Hj [run [rest [E [L F]]]].
  - symmetry in E. apply app_eq_nil in E. destruct E as [E _]. subst run.
    cbn [length] in L. lia.
  - destruct run as [|c' run']; [cbn [length] in L; lia|].
    cbn [app] in E. injection E as Ec Er. subst c'.
    cbn [forallb] in F. apply andb_true_iff in F. destruct F as [Hc F].
    cbn [length] in L. cbn [has_hex_run]. rewrite Hc.
    destruct (Nat.eqb (S cur) need) eqn:Hq; [reflexivity|].
    apply Nat.eqb_neq in Hq.
    apply (IH (S cur) (length run')); [lia | lia|].
    exists run', rest. split; [exact Er | split; [reflexivity | exact F]].
Qed.

Lemma has_hex_run_of_sub need : forall s cur,
  cur < need -> hexsub need s -> has_hex_run need cur s = true.
Proof.
  induction s as [|c r IH]; intros cur Hcur [pre [mid [post [E [L F]]]]].
  - symmetry in E. apply app_eq_nil in E. destruct E as [_ E].
    apply app_eq_nil in E. destruct E as [E _]. subst mid. cbn [length] in L. lia.
  - destruct pre as [|c' pre'].
    + cbn [app] in E. apply (has_hex_run_of_run need (c :: r) cur need Hcur); [lia|].
      exists mid, post. split; [exact E | split; [exact L | exact F]].
    + cbn [app] in E. injection E as Ec Er. subst c'.
      assert (Hsub : hexsub need r).
      { exists pre', mid, post. split; [exact Er | split; [exact L | exact F]]. }
      cbn [has_hex_run]. destruct (is_lower_hex c) eqn:Hc.
      * destruct (Nat.eqb (S cur) need) eqn:Hq; [reflexivity|].
        apply Nat.eqb_neq in Hq. apply IH; [lia | exact Hsub].
      * apply IH; [lia | exact Hsub].
Qed.

Theorem has_hex_run_spec need s :
  0 < need -> (has_hex_run need 0 s = true <-> hexsub need s).
Proof.
  intros Hpos. split.
  - intros H. destruct (has_hex_run_sound need s 0 Hpos H) as [[run [rest [E [L F]]]] | Hs].
    + exists [], run, rest. split; [exact E | split; [lia | exact F]].
    + exact Hs.
  - apply has_hex_run_of_sub. exact Hpos.
Qed.

Theorem sha1_search_spec s : re_search re_sha1Regexp s = has_hex_run 40 0 s.
Proof.
  apply eq_iff_eq_true.
  rewrite re_search_spec, (has_hex_run_spec 40 s) by lia. split.
  - intros [pre [mid [post [E [Hm _]]]]]. apply sha1_body_spec in Hm.
    destruct Hm as [L F]. exists pre, mid, post.
    split; [exact E | split; [exact L | exact F]].
  - intros [pre [mid [post [E [L F]]]]]. exists pre, mid, post.
    split; [exact E|]. split; [apply sha1_body_spec; split; [exact L | exact F]|].
    unfold re_sha1Regexp. cbn [p_bol p_eol]. split; discriminate.
Qed.

Print Assumptions mkCat_sound.
Print Assumptions mkAlt_sound.
Print Assumptions nullable_spec.
Print Assumptions deriv_spec.
Print Assumptions matches_spec.
Print Assumptions re_search_spec.
Print Assumptions reset_arg_accepts.
Print Assumptions reset_arg_only.
Print Assumptions sha1_search_spec.
Print Assumptions head_line_accepts.
Print Assumptions ident_spec.
Print Assumptions lang_RLit.
Print Assumptions lang_RRep.
Print Assumptions lang_star_cls.
Print Assumptions lang_plus_cls.
Print Assumptions lang_RAny_star.
Print Assumptions rf_dec_digits.
Print Assumptions rf_parse_dec_dec.
Print Assumptions reset_arg_spec.
Print Assumptions has_hex_run_spec.
