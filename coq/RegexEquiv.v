(* RegexEquiv.v — a verified decision procedure for language equivalence of
   two regular expressions of Regex.v (bisimulation up to a language-preserving
   normaliser over Brzozowski derivatives).

   Soundness only: [req_check n a b = true] PROVES [forall s, matches a s =
   matches b s]; a [false] answer proves nothing (fuel may have run out), although
   in practice it means a distinguishing string exists.

   1. [rcmp] a structural comparison, [regex_eqb] with [regex_eqb_eq].
   2. [nrm] (alternatives flattened, sorted by [rcmp], duplicates removed, units
      removed, concatenations re-associated to the right, star of star / of a unit
      collapsed) with [nrm_lang].
   3. [bisim_closed] (all 256 bytes) with [bisim_sound]; [bisim_fast] (one
      representative byte per signature over the character classes that occur,
      the covering and the class inclusion being CHECKED by the function, so
      that nothing about them has to be trusted) with [bisim_fast_sound].
   4. [req_check] (fast) / [req_check_all] (256 bytes) with soundness, and
      [pat_check_sound] for Go's MatchString.
   5. Examples by [vm_compute]. *)
From Coq Require Import Strings.Byte.
From Coq Require Import List Bool NArith Arith.
From Coq Require Import Lia ZifyBool ZifyNat ZifyN.
From Goit Require Import Bytes Regex GoRegex RegexFacts.
Import ListNotations.

(* ------------------------------------------------------------------ *)
(** * 1. Comparison and decidable equality *)

Definition pair_cmp (p q : N * N) : comparison :=
  match N.compare (fst p) (fst q) with
  | Eq => N.compare (snd p) (snd q)
  | Lt => Lt
  | Gt => Gt
  end.

Fixpoint ranges_cmp (l m : list (N * N)) : comparison :=
  match l, m with
  | [], [] => Eq
  | [], _ :: _ => Lt
  | _ :: _, [] => Gt
  | p :: l', q :: m' =>
      match pair_cmp p q with
      | Eq => ranges_cmp l' m'
      | Lt => Lt
      | Gt => Gt
      end
  end.

Definition bool_cmp (a b : bool) : comparison :=
  match a, b with
  | false, false => Eq
  | true, true => Eq
  | false, true => Lt
  | true, false => Gt
  end.

Definition cls_cmp (k1 k2 : cls) : comparison :=
  match bool_cmp (c_neg k1) (c_neg k2) with
  | Eq => ranges_cmp (c_ranges k1) (c_ranges k2)
  | Lt => Lt
  | Gt => Gt
  end.

Definition rtag (r : regex) : N :=
  match r with
  | REmpty => 0
  | REps => 1
  | RCls _ => 2
  | RCat _ _ => 3
  | RAlt _ _ => 4
  | RStar _ => 5
  end.

Fixpoint rcmp (a b : regex) : comparison :=
  match a, b with
  | REmpty, REmpty => Eq
  | REps, REps => Eq
  | RCls k1, RCls k2 => cls_cmp k1 k2
  | RCat a1 a2, RCat b1 b2 =>
      match rcmp a1 b1 with
      | Eq => rcmp a2 b2
      | Lt => Lt
      | Gt => Gt
      end
  | RAlt a1 a2, RAlt b1 b2 =>
      match rcmp a1 b1 with
      | Eq => rcmp a2 b2
      | Lt => Lt
      | Gt => Gt
      end
  | RStar a1, RStar b1 => rcmp a1 b1
  | _, _ => N.compare (rtag a) (rtag b)
  end.

Lemma pair_cmp_eq p q : pair_cmp p q = Eq -> p = q.
Proof.
  destruct p as [p1 p2]. destruct q as [q1 q2]. unfold pair_cmp. cbn [fst snd].
  destruct (N.compare p1 q1) eqn:E1; try discriminate.
  intros E2. apply N.compare_eq_iff in E1. apply N.compare_eq_iff in E2.
  subst q1 q2. reflexivity.
Qed.

Lemma pair_cmp_refl p : pair_cmp p p = Eq.
Proof.
  destruct p as [p1 p2]. unfold pair_cmp. cbn [fst snd].
  rewrite !N.compare_refl. reflexivity.
Qed.

Lemma ranges_cmp_eq : forall l m, ranges_cmp l m = Eq -> l = m.
Proof.
  induction l as [|p l' IH]; intros m H; destruct m as [|q m']; cbn [ranges_cmp] in H;
    try discriminate H.
  - reflexivity.
  - destruct (pair_cmp p q) eqn:E; try discriminate H.
    apply pair_cmp_eq in E. apply IH in H. subst q m'. reflexivity.
Qed.

Lemma ranges_cmp_refl : forall l, ranges_cmp l l = Eq.
Proof.
  induction l as [|p l' IH]; cbn [ranges_cmp].
  - reflexivity.
  - rewrite pair_cmp_refl. exact IH.
Qed.

Lemma cls_cmp_eq k1 k2 : cls_cmp k1 k2 = Eq -> k1 = k2.
Proof.
  destruct k1 as [n1 r1]. destruct k2 as [n2 r2]. unfold cls_cmp. cbn [c_neg c_ranges].
  destruct n1; destruct n2; cbn [bool_cmp]; try discriminate;
    intros H; apply ranges_cmp_eq in H; subst r2; reflexivity.
Qed.

Lemma cls_cmp_refl k : cls_cmp k k = Eq.
Proof.
  destruct k as [n r]. unfold cls_cmp. cbn [c_neg c_ranges].
  destruct n; cbn [bool_cmp]; apply ranges_cmp_refl.
Qed.

Definition cls_eqb (k1 k2 : cls) : bool :=
  match cls_cmp k1 k2 with Eq => true | _ => false end.

Lemma cls_eqb_eq k1 k2 : cls_eqb k1 k2 = true <-> k1 = k2.
Proof.
  unfold cls_eqb. split.
  - destruct (cls_cmp k1 k2) eqn:E; try discriminate. intros _. apply cls_cmp_eq. exact E.
  - intros E. subst k2. rewrite cls_cmp_refl. reflexivity.
Qed.

Lemma rcmp_eq : forall a b, rcmp a b = Eq -> a = b.
Proof.
  induction a as [ | | k | a1 IH1 a2 IH2 | a1 IH1 a2 IH2 | a1 IH1]; intros b H;
    destruct b as [ | | k' | b1 b2 | b1 b2 | b1]; cbn in H; try discriminate H.
  - reflexivity.
  - reflexivity.
  - apply cls_cmp_eq in H. subst k'. reflexivity.
  - destruct (rcmp a1 b1) eqn:E; try discriminate H.
    apply IH1 in E. apply IH2 in H. subst b1 b2. reflexivity.
  - destruct (rcmp a1 b1) eqn:E; try discriminate H.
    apply IH1 in E. apply IH2 in H. subst b1 b2. reflexivity.
  - apply IH1 in H. subst b1. reflexivity.
Qed.

Lemma rcmp_refl : forall a, rcmp a a = Eq.
Proof.
  induction a as [ | | k | a1 IH1 a2 IH2 | a1 IH1 a2 IH2 | a1 IH1]; cbn [rcmp].
  - reflexivity.
  - reflexivity.
  - apply cls_cmp_refl.
  - rewrite IH1. exact IH2.
  - rewrite IH1. exact IH2.
  - exact IH1.
Qed.

Definition regex_eqb (a b : regex) : bool :=
  match rcmp a b with Eq => true | _ => false end.

Theorem regex_eqb_eq a b : regex_eqb a b = true <-> a = b.
Proof.
  unfold regex_eqb. split.
  - destruct (rcmp a b) eqn:E; try discriminate. intros _. apply rcmp_eq. exact E.
  - intros E. subst b. rewrite rcmp_refl. reflexivity.
Qed.

(* ------------------------------------------------------------------ *)
(** * 2. The normaliser *)

(* -- alternatives: flatten, insert in order without duplicates, rebuild -- *)

Fixpoint alts (r : regex) : list regex :=
  match r with
  | RAlt a b => alts a ++ alts b
  | REmpty => []
  | _ => [r]
  end.

Fixpoint ins (x : regex) (l : list regex) : list regex :=
  match l with
  | [] => [x]
  | y :: t =>
      match rcmp x y with
      | Lt => x :: l
      | Eq => l
      | Gt => y :: ins x t
      end
  end.

Fixpoint build (l : list regex) : regex :=
  match l with
  | [] => REmpty
  | x :: t => match t with [] => x | _ :: _ => RAlt x (build t) end
  end.

Definition nalt (a b : regex) : regex :=
  build (fold_right ins (alts b) (alts a)).

(* -- concatenation: units removed, associated to the right -- *)

Fixpoint cat_app (a b : regex) : regex :=
  match a with
  | REmpty => REmpty
  | REps => b
  | RCat a1 a2 => RCat a1 (cat_app a2 b)
  | _ => RCat a b
  end.

Definition ncat (a b : regex) : regex :=
  match b with
  | REmpty => REmpty
  | REps => a
  | _ => cat_app a b
  end.

Definition nstar (a : regex) : regex :=
  match a with
  | REmpty => REps
  | REps => REps
  | RStar _ => a
  | _ => RStar a
  end.

Fixpoint nrm (r : regex) : regex :=
  match r with
  | REmpty => REmpty
  | REps => REps
  | RCls k => RCls k
  | RCat a b => ncat (nrm a) (nrm b)
  | RAlt a b => nalt (nrm a) (nrm b)
  | RStar a => nstar (nrm a)
  end.

(* -- language of a list of alternatives -- *)

Definition lang_any (l : list regex) (s : bytes) : Prop :=
  exists x, In x l /\ lang x s.

Lemma lang_any_app l m s : lang_any (l ++ m) s <-> lang_any l s \/ lang_any m s.
Proof.
  unfold lang_any. split.
  - intros [x [Hin Hx]]. apply in_app_or in Hin. destruct Hin as [Hin | Hin].
    + left. exists x. split; assumption.
    + right. exists x. split; assumption.
  - intros [[x [Hin Hx]] | [x [Hin Hx]]]; exists x; (split; [|exact Hx]);
      apply in_or_app; [left | right]; exact Hin.
Qed.

Lemma lang_any_one r s : lang_any [r] s <-> lang r s.
Proof.
  unfold lang_any. split.
  - intros [x [[E | []] Hx]]. subst x. exact Hx.
  - intros H. exists r. split; [left; reflexivity | exact H].
Qed.

Lemma lang_any_nil s : lang_any [] s <-> False.
Proof. unfold lang_any. split; [intros [x [[] _]] | intros []]. Qed.

Lemma alts_lang : forall r s, lang_any (alts r) s <-> lang r s.
Proof.
  induction r as [ | | k | a IHa b IHb | a IHa b IHb | a IHa]; intros s; cbn [alts];
    try apply lang_any_one.
  - rewrite lang_any_nil, lang_REmpty. reflexivity.
  - rewrite lang_any_app, IHa, IHb, lang_RAlt. reflexivity.
Qed.

Lemma ins_in x : forall l z, In z (ins x l) <-> z = x \/ In z l.
Proof.
  induction l as [|y t IH]; intros z; cbn [ins].
  - cbn [In]. split; intros [H | H]; auto.
  - destruct (rcmp x y) eqn:E.
    + apply rcmp_eq in E. subst y. cbn [In]. split.
      * intros H. right. exact H.
      * intros [H | H]; [left; symmetry; exact H | exact H].
    + cbn [In]. split; intros [H | H]; auto.
    + cbn [In]. rewrite IH. split.
      * intros [H | [H | H]]; auto.
      * intros [H | [H | H]]; auto.
Qed.

Lemma ins_lang x l s : lang_any (ins x l) s <-> lang x s \/ lang_any l s.
Proof.
  unfold lang_any. split.
  - intros [z [Hin Hz]]. apply ins_in in Hin. destruct Hin as [E | Hin].
    + subst z. left. exact Hz.
    + right. exists z. split; assumption.
  - intros [Hx | [z [Hin Hz]]].
    + exists x. split; [apply ins_in; left; reflexivity | exact Hx].
    + exists z. split; [apply ins_in; right; exact Hin | exact Hz].
Qed.

Lemma fold_ins_lang : forall l m s,
  lang_any (fold_right ins m l) s <-> lang_any l s \/ lang_any m s.
Proof.
  induction l as [|x t IH]; intros m s; cbn [fold_right].
  - rewrite lang_any_nil. split; [intros H; right; exact H | intros [[] | H]; exact H].
  - rewrite ins_lang, IH.
    change (x :: t) with ([x] ++ t). rewrite lang_any_app, lang_any_one.
    split; [intros [H | [H | H]] | intros [[H | H] | H]]; auto.
Qed.

Lemma build_lang : forall l s, lang (build l) s <-> lang_any l s.
Proof.
  induction l as [|x t IH]; intros s.
  - cbn [build]. rewrite lang_any_nil. apply lang_REmpty.
  - destruct t as [|y t'].
    + cbn [build]. symmetry. apply lang_any_one.
    + change (build (x :: y :: t')) with (RAlt x (build (y :: t'))).
      rewrite lang_RAlt, IH.
      change (x :: y :: t') with ([x] ++ (y :: t')).
      rewrite lang_any_app, lang_any_one. reflexivity.
Qed.

Lemma nalt_lang a b s : lang (nalt a b) s <-> lang a s \/ lang b s.
Proof. unfold nalt. rewrite build_lang, fold_ins_lang, !alts_lang. reflexivity. Qed.

(* -- concatenation -- *)

Lemma cat_assoc a b c s : lang (RCat a (RCat b c)) s <-> lang (RCat (RCat a b) c) s.
Proof.
  rewrite !lang_RCat. split.
  - intros [s1 [s23 [E [Ha Hbc]]]]. apply lang_RCat in Hbc.
    destruct Hbc as [s2 [s3 [E23 [Hb Hc]]]]. subst s23 s.
    exists (s1 ++ s2), s3. split; [apply app_assoc|]. split; [|exact Hc].
    apply lang_RCat. exists s1, s2. split; [reflexivity | split; assumption].
  - intros [s12 [s3 [E [Hab Hc]]]]. apply lang_RCat in Hab.
    destruct Hab as [s1 [s2 [E12 [Ha Hb]]]]. subst s12 s.
    exists s1, (s2 ++ s3). split; [symmetry; apply app_assoc|]. split; [exact Ha|].
    apply lang_RCat. exists s2, s3. split; [reflexivity | split; assumption].
Qed.

Lemma cat_cong a a' b b' :
  (forall s, lang a s <-> lang a' s) -> (forall s, lang b s <-> lang b' s) ->
  forall s, lang (RCat a b) s <-> lang (RCat a' b') s.
Proof.
  intros Ha Hb s. rewrite !lang_RCat. split.
  - intros [s1 [s2 [E [H1 H2]]]]. exists s1, s2.
    split; [exact E | split; [apply Ha; exact H1 | apply Hb; exact H2]].
  - intros [s1 [s2 [E [H1 H2]]]]. exists s1, s2.
    split; [exact E | split; [apply Ha; exact H1 | apply Hb; exact H2]].
Qed.

Lemma cat_app_lang : forall a b s, lang (cat_app a b) s <-> lang (RCat a b) s.
Proof.
  induction a as [ | | k | a1 IH1 a2 IH2 | a1 IH1 a2 IH2 | a1 IH1]; intros b s; cbn [cat_app];
    try reflexivity.
  - rewrite cat_empty_l. apply lang_REmpty.
  - symmetry. apply cat_eps_l.
  - rewrite <- cat_assoc. apply cat_cong; [reflexivity|]. intros t. apply IH2.
Qed.

Lemma ncat_lang a b s : lang (ncat a b) s <-> lang (RCat a b) s.
Proof.
  destruct b as [ | | k | b1 b2 | b1 b2 | b1]; cbn [ncat]; try apply cat_app_lang.
  - rewrite cat_empty_r. apply lang_REmpty.
  - symmetry. apply cat_eps_r.
Qed.

(* -- star -- *)

Lemma star_elim a (P : bytes -> Prop) :
  P [] -> (forall s t, lang a s -> lang (RStar a) t -> P t -> P (s ++ t)) ->
  forall s, lang (RStar a) s -> P s.
Proof.
  intros H0 HS s H. remember (RStar a) as r eqn:Er.
  induction H as [ | c b Hc | x y s1 s2 Hx IHx Hy IHy | x y s1 Hx IHx | x y s1 Hy IHy
                 | x | x s1 s2 Hx IHx Hs IHs]; try discriminate Er.
  - exact H0.
  - injection Er as Ex. subst x. apply HS; [exact Hx | exact Hs | apply IHs; [reflexivity | exact HS]].
Qed.

Lemma star_cong a a' :
  (forall s, lang a s <-> lang a' s) -> forall s, lang (RStar a) s <-> lang (RStar a') s.
Proof.
  intros Ha s. split.
  - apply star_elim; [apply LStar0|]. intros s1 t H1 _ Ht. apply LStarS; [apply Ha; exact H1 | exact Ht].
  - apply star_elim; [apply LStar0|]. intros s1 t H1 _ Ht. apply LStarS; [apply Ha; exact H1 | exact Ht].
Qed.

Lemma star_app a s t : lang (RStar a) s -> lang (RStar a) t -> lang (RStar a) (s ++ t).
Proof.
  intros Hs Ht. revert s Hs.
  apply (star_elim a (fun s => lang (RStar a) (s ++ t))).
  - exact Ht.
  - intros s1 s2 H1 _ IH. rewrite <- app_assoc. apply LStarS; assumption.
Qed.

Lemma star_star a s : lang (RStar (RStar a)) s <-> lang (RStar a) s.
Proof.
  split.
  - apply star_elim; [apply LStar0|]. intros s1 t H1 _ Ht. apply star_app; assumption.
  - intros H. rewrite <- (app_nil_r s). apply LStarS; [exact H | apply LStar0].
Qed.

Lemma star_empty s : lang (RStar REmpty) s <-> lang REps s.
Proof.
  rewrite lang_REps. split.
  - apply (star_elim REmpty (fun s => s = [])); [reflexivity|].
    intros s1 t H1 _ _. apply lang_REmpty in H1. destruct H1.
  - intros E. subst s. apply LStar0.
Qed.

Lemma star_eps s : lang (RStar REps) s <-> lang REps s.
Proof.
  rewrite lang_REps. split.
  - apply (star_elim REps (fun s => s = [])); [reflexivity|].
    intros s1 t H1 _ Et. apply lang_REps in H1. subst s1 t. reflexivity.
  - intros E. subst s. apply LStar0.
Qed.

Lemma nstar_lang a s : lang (nstar a) s <-> lang (RStar a) s.
Proof.
  destruct a as [ | | k | a1 a2 | a1 a2 | a1]; cbn [nstar]; try reflexivity.
  - symmetry. apply star_empty.
  - symmetry. apply star_eps.
  - symmetry. apply star_star.
Qed.

Theorem nrm_lang : forall r s, lang (nrm r) s <-> lang r s.
Proof.
  induction r as [ | | k | a IHa b IHb | a IHa b IHb | a IHa]; intros s; cbn [nrm];
    try reflexivity.
  - rewrite ncat_lang. apply cat_cong; assumption.
  - rewrite nalt_lang, lang_RAlt, IHa, IHb. reflexivity.
  - rewrite nstar_lang. apply star_cong. exact IHa.
Qed.

Corollary nrm_matches r s : matches (nrm r) s = matches r s.
Proof. apply eq_iff_eq_true. rewrite !matches_spec. apply nrm_lang. Qed.

(* ------------------------------------------------------------------ *)
(** * 3. Bisimulations *)

Definition rpair := (regex * regex)%type.

Definition pair_eqb (p q : rpair) : bool :=
  regex_eqb (fst p) (fst q) && regex_eqb (snd p) (snd q).

Lemma pair_eqb_eq p q : pair_eqb p q = true <-> p = q.
Proof.
  destruct p as [p1 p2]. destruct q as [q1 q2]. unfold pair_eqb. cbn [fst snd].
  rewrite andb_true_iff, !regex_eqb_eq. split.
  - intros [E1 E2]. subst q1 q2. reflexivity.
  - intros E. injection E as E1 E2. split; assumption.
Qed.

Definition pmem (p : rpair) (R : list rpair) : bool := existsb (pair_eqb p) R.

Lemma pmem_In p R : pmem p R = true <-> In p R.
Proof.
  unfold pmem. rewrite existsb_exists. split.
  - intros [q [Hin E]]. apply pair_eqb_eq in E. subst q. exact Hin.
  - intros Hin. exists p. split; [exact Hin | apply pair_eqb_eq; reflexivity].
Qed.

Definition dstep (c : byte) (p : rpair) : rpair :=
  (nrm (deriv c (fst p)), nrm (deriv c (snd p))).

Definition Bisim (R : list rpair) : Prop :=
  forall a b, In (a, b) R ->
    nullable a = nullable b /\ forall c, In (dstep c (a, b)) R.

Theorem Bisim_sound R :
  Bisim R -> forall s a b, In (a, b) R -> matches a s = matches b s.
Proof.
  intros HR. induction s as [|c t IH]; intros a b Hin; cbn [matches].
  - exact (proj1 (HR a b Hin)).
  - rewrite <- (nrm_matches (deriv c a)), <- (nrm_matches (deriv c b)).
    apply IH. exact (proj2 (HR a b Hin) c).
Qed.

(* -- all 256 bytes -- *)

Definition all256 : list byte := map Nb (map N.of_nat (seq 0 256)).

Lemma all256_mem b : existsb (Byte.eqb b) all256 = true.
Proof. destruct b; vm_compute; reflexivity. Qed.

Lemma all256_all b : In b all256.
Proof.
  pose proof (all256_mem b) as H. apply existsb_exists in H.
  destruct H as [x [Hin E]]. apply Byte.byte_dec_bl in E. subst x. exact Hin.
Qed.

Definition closed_on (cs : list byte) (R : list rpair) (p : rpair) : bool :=
  Bool.eqb (nullable (fst p)) (nullable (snd p)) &&
  forallb (fun c => pmem (dstep c p) R) cs.

Definition bisim_closed (R : list rpair) : bool := forallb (closed_on all256 R) R.

Lemma bisim_closed_Bisim R : bisim_closed R = true -> Bisim R.
Proof.
  unfold bisim_closed. rewrite forallb_forall. intros H a b Hin.
  specialize (H (a, b) Hin). unfold closed_on in H. apply andb_true_iff in H.
  destruct H as [Hn Hc]. cbn [fst snd] in Hn. apply eqb_prop in Hn.
  split; [exact Hn|]. intros c. rewrite forallb_forall in Hc.
  apply pmem_In. apply Hc. apply all256_all.
Qed.

Theorem bisim_sound R :
  bisim_closed R = true -> forall a b, In (a, b) R -> forall s, matches a s = matches b s.
Proof.
  intros H a b Hin s. apply (Bisim_sound R (bisim_closed_Bisim R H) s a b Hin).
Qed.

(* -- the shortcut: one representative byte per class signature -- *)

Fixpoint classes (r : regex) : list cls :=
  match r with
  | REmpty => []
  | REps => []
  | RCls k => [k]
  | RCat a b => classes a ++ classes b
  | RAlt a b => classes a ++ classes b
  | RStar a => classes a
  end.

(* the derivative looks at its byte only through the classes of the regex *)
Lemma deriv_same_sig c c' : forall r,
  (forall k, In k (classes r) -> in_cls k c = in_cls k c') -> deriv c r = deriv c' r.
Proof.
  induction r as [ | | k | a IHa b IHb | a IHa b IHb | a IHa]; intros H;
    cbn [deriv classes] in *.
  - reflexivity.
  - reflexivity.
  - rewrite (H k (or_introl eq_refl)). reflexivity.
  - rewrite IHa, IHb; [reflexivity | |]; intros k Hk; apply H; apply in_or_app;
      [right | left]; exact Hk.
  - rewrite IHa, IHb; [reflexivity | |]; intros k Hk; apply H; apply in_or_app;
      [right | left]; exact Hk.
  - rewrite IHa; [reflexivity | exact H].
Qed.

Definition sig_eqb (L : list cls) (c c' : byte) : bool :=
  forallb (fun k => Bool.eqb (in_cls k c) (in_cls k c')) L.

Definition cmem (k : cls) (L : list cls) : bool := existsb (cls_eqb k) L.

Lemma cmem_In k L : cmem k L = true -> In k L.
Proof.
  unfold cmem. rewrite existsb_exists. intros [k' [Hin E]].
  apply cls_eqb_eq in E. subst k'. exact Hin.
Qed.

Definition cincl (M L : list cls) : bool := forallb (fun k => cmem k L) M.

Lemma cincl_In M L k : cincl M L = true -> In k M -> In k L.
Proof.
  unfold cincl. rewrite forallb_forall. intros H Hin. apply cmem_In. apply H. exact Hin.
Qed.

(* every byte has the signature of one of cs *)
Definition covers (L : list cls) (cs : list byte) : bool :=
  forallb (fun c => existsb (sig_eqb L c) cs) all256.

Definition closed_fast (L : list cls) (cs : list byte) (R : list rpair) (p : rpair) : bool :=
  cincl (classes (fst p)) L && cincl (classes (snd p)) L && closed_on cs R p.

Definition bisim_fast (L : list cls) (cs : list byte) (R : list rpair) : bool :=
  covers L cs && forallb (closed_fast L cs R) R.

Lemma bisim_fast_Bisim L cs R : bisim_fast L cs R = true -> Bisim R.
Proof.
  unfold bisim_fast. rewrite andb_true_iff. intros [Hcov Hall] a b Hin.
  rewrite forallb_forall in Hall. specialize (Hall (a, b) Hin).
  unfold closed_fast, closed_on in Hall. cbn [fst snd] in Hall.
  apply andb_true_iff in Hall. destruct Hall as [Hincl Hcl].
  apply andb_true_iff in Hincl. destruct Hincl as [Hia Hib].
  apply andb_true_iff in Hcl. destruct Hcl as [Hn Hc].
  apply eqb_prop in Hn. split; [exact Hn|]. intros c.
  unfold covers in Hcov. rewrite forallb_forall in Hcov.
  specialize (Hcov c (all256_all c)). apply existsb_exists in Hcov.
  destruct Hcov as [c' [Hc' Hsig]]. unfold sig_eqb in Hsig. rewrite forallb_forall in Hsig.
  assert (Ea : deriv c a = deriv c' a).
  { apply deriv_same_sig. intros k Hk. apply eqb_prop. apply Hsig.
    apply (cincl_In _ _ _ Hia Hk). }
  assert (Eb : deriv c b = deriv c' b).
  { apply deriv_same_sig. intros k Hk. apply eqb_prop. apply Hsig.
    apply (cincl_In _ _ _ Hib Hk). }
  unfold dstep. cbn [fst snd]. rewrite Ea, Eb.
  rewrite forallb_forall in Hc. apply pmem_In. apply (Hc c' Hc').
Qed.

Theorem bisim_fast_sound L cs R :
  bisim_fast L cs R = true -> forall a b, In (a, b) R -> forall s, matches a s = matches b s.
Proof.
  intros H a b Hin s. apply (Bisim_sound R (bisim_fast_Bisim L cs R H) s a b Hin).
Qed.

(* ------------------------------------------------------------------ *)
(** * 4. The checker *)

(* worklist exploration; [None] on a nullable mismatch or when fuel runs out.
   Nothing is proved about it: its result is re-checked. *)
Fixpoint explore (fuel : nat) (cs : list byte) (todo seen : list rpair) : option (list rpair) :=
  match fuel with
  | O => None
  | S f =>
      match todo with
      | [] => Some seen
      | p :: rest =>
          if pmem p seen then explore f cs rest seen
          else if Bool.eqb (nullable (fst p)) (nullable (snd p))
               then explore f cs (map (fun c => dstep c p) cs ++ rest) (p :: seen)
               else None
      end
  end.

(* distinct classes / one byte per signature (unproved helpers: their results
   are checked by [bisim_fast]) *)
Fixpoint cdedupe (l acc : list cls) : list cls :=
  match l with
  | [] => rev acc
  | k :: t => if cmem k acc then cdedupe t acc else cdedupe t (k :: acc)
  end.

Fixpoint pick_reps (L : list cls) (bs acc : list byte) : list byte :=
  match bs with
  | [] => rev acc
  | c :: t => if existsb (sig_eqb L c) acc then pick_reps L t acc else pick_reps L t (c :: acc)
  end.

Definition reps (L : list cls) : list byte := pick_reps L all256 [].

Definition req_check_all (fuel : nat) (a b : regex) : bool :=
  let p := (nrm a, nrm b) in
  match explore fuel all256 [p] [] with
  | None => false
  | Some R => bisim_closed R && pmem p R
  end.

Definition req_check (fuel : nat) (a b : regex) : bool :=
  let p := (nrm a, nrm b) in
  let L := cdedupe (classes (fst p) ++ classes (snd p)) [] in
  let cs := reps L in
  match explore fuel cs [p] [] with
  | None => false
  | Some R => bisim_fast L cs R && pmem p R
  end.

Theorem req_check_all_sound n a b :
  req_check_all n a b = true -> forall s, matches a s = matches b s.
Proof.
  unfold req_check_all. intros H s.
  destruct (explore n all256 [(nrm a, nrm b)] []) as [R|]; [|discriminate H].
  apply andb_true_iff in H. destruct H as [Hb Hm]. apply pmem_In in Hm.
  rewrite <- (nrm_matches a), <- (nrm_matches b).
  apply (bisim_sound R Hb _ _ Hm).
Qed.

Theorem req_check_sound n a b :
  req_check n a b = true -> forall s, matches a s = matches b s.
Proof.
  unfold req_check. cbn zeta. intros H s.
  remember (cdedupe (classes (fst (nrm a, nrm b)) ++ classes (snd (nrm a, nrm b))) []) as L eqn:EL.
  destruct (explore n (reps L) [(nrm a, nrm b)] []) as [R|]; [|discriminate H].
  apply andb_true_iff in H. destruct H as [Hb Hm]. apply pmem_In in Hm.
  rewrite <- (nrm_matches a), <- (nrm_matches b).
  apply (bisim_fast_sound L (reps L) R Hb _ _ Hm).
Qed.

Corollary req_check_lang n a b :
  req_check n a b = true -> forall s, lang a s <-> lang b s.
Proof.
  intros H s. rewrite <- !matches_spec. rewrite (req_check_sound n a b H s). reflexivity.
Qed.

Corollary pat_check_sound n p q :
  req_check n (pat_regex p) (pat_regex q) = true -> forall s, re_search p s = re_search q s.
Proof. intros H s. unfold re_search. apply (req_check_sound n _ _ H). Qed.

Corollary pat_check_all_sound n p q :
  req_check_all n (pat_regex p) (pat_regex q) = true -> forall s, re_search p s = re_search q s.
Proof. intros H s. unfold re_search. apply (req_check_all_sound n _ _ H). Qed.

(* ------------------------------------------------------------------ *)
(** * 5. Examples (all by [vm_compute], checked once, at [Qed]) *)

Definition FUEL : nat := 5000.

Ltac by_vm := vm_cast_no_check (eq_refl true).
Ltac by_vm_false := vm_cast_no_check (eq_refl false).

(* -- every pattern in use: the exploration terminates and closes -- *)

Example self_branch :
  req_check FUEL (pat_regex re_branchRegexp) (pat_regex re_branchRegexp) = true.
Proof. by_vm. Time Qed.
Example self_directory :
  req_check FUEL (pat_regex re_directoryRegexp) (pat_regex re_directoryRegexp) = true.
Proof. by_vm. Time Qed.
Example self_head :
  req_check FUEL (pat_regex re_headRegexp) (pat_regex re_headRegexp) = true.
Proof. by_vm. Time Qed.
Example self_ident :
  req_check FUEL (pat_regex re_identRegexp) (pat_regex re_identRegexp) = true.
Proof. by_vm. Time Qed.
Example self_reset :
  req_check FUEL (pat_regex re_resetRegexp) (pat_regex re_resetRegexp) = true.
Proof. by_vm. Time Qed.
Example self_sha1 :
  req_check FUEL (pat_regex re_sha1Regexp) (pat_regex re_sha1Regexp) = true.
Proof. by_vm. Time Qed.
Example self_sign :
  req_check FUEL (pat_regex re_signRegexp) (pat_regex re_signRegexp) = true.
Proof. by_vm. Time Qed.
(* the same with all 256 bytes for every pair *)
Example self_sign_all :
  req_check_all (4 * FUEL) (pat_regex re_signRegexp) (pat_regex re_signRegexp) = true.
Proof. by_vm. Time Qed.

(* -- signRegexp with the redundant [a-zA-Z0-9]* removed from the label:
      "^[^<]* <([a-zA-Z0-9_.+-]+@([a-zA-Z0-9][a-zA-Z0-9-]*\\.)+[a-zA-Z]{2,})> ([1-9][0-9]* [+-][0-9]{4})$" -- *)
Definition re_signRegexp_short : pattern :=
  mkPat true (RCat (RStar (RCls (mkCls false [(0, 59); (61, 255)]%N))) (RCat (RLit [x20; x3c]) (RCat (RPlus (RCls (mkCls false [(43, 43); (45, 46); (48, 57); (65, 90); (95, 95); (97, 122)]%N))) (RCat (RLit [x40]) (RCat (RPlus (RCat (RCls (mkCls false [(48, 57); (65, 90); (97, 122)]%N)) (RCat (RStar (RCls (mkCls false [(45, 45); (48, 57); (65, 90); (97, 122)]%N))) (RLit [x2e])))) (RCat (RRepMin 2 (RCls (mkCls false [(65, 90); (97, 122)]%N))) (RCat (RLit [x3e; x20]) (RCat (RCls (mkCls false [(49, 57)]%N)) (RCat (RStar (RCls (mkCls false [(48, 57)]%N))) (RCat (RLit [x20]) (RCat (RCls (mkCls false [(43, 43); (45, 45)]%N)) (RRep 4 (RCls (mkCls false [(48, 57)]%N)))))))))))))) true.

Example sign_short_check :
  req_check FUEL (pat_regex re_signRegexp_short) (pat_regex re_signRegexp) = true.
Proof. by_vm. Time Qed.

Corollary sign_short_equiv s : re_search re_signRegexp_short s = re_search re_signRegexp s.
Proof. apply (pat_check_sound FUEL). exact sign_short_check. Qed.

(* the two are NOT the same term: the equation is semantic *)
Example sign_short_differs :
  regex_eqb (nrm (pat_regex re_signRegexp_short)) (nrm (pat_regex re_signRegexp)) = false.
Proof. by_vm_false. Qed.

(* -- .+ / ..* / .*. -- *)
Example plus_is_cat_star :
  req_check FUEL (RPlus RAnyNoNL) (RCat RAnyNoNL (RStar RAnyNoNL)) = true.
Proof. by_vm. Time Qed.
Example plus_is_star_cat :
  req_check FUEL (RPlus RAnyNoNL) (RCat (RStar RAnyNoNL) RAnyNoNL) = true.
Proof. by_vm. Time Qed.
Example branch_star_cat :
  req_check FUEL (pat_regex re_branchRegexp)
    (pat_regex (mkPat false (RCat (RLit [x72; x65; x66; x73; x2f; x68; x65; x61; x64; x73; x2f])
                                  (RCat (RStar RAnyNoNL) RAnyNoNL)) false)) = true.
Proof. by_vm. Time Qed.

(* -- [0-9]{4} / [0-9][0-9][0-9][0-9], both groupings -- *)
Definition dig : regex := RCls (mkCls false [(48, 57)]%N).
Example rep4_right : req_check FUEL (RRep 4 dig) (RCat dig (RCat dig (RCat dig dig))) = true.
Proof. by_vm. Time Qed.
Example rep4_left : req_check FUEL (RRep 4 dig) (RCat (RCat (RCat dig dig) dig) dig) = true.
Proof. by_vm. Time Qed.
(* a class split in two, and written in another order *)
Example dig_split :
  req_check FUEL (RRep 4 dig)
    (RRep 4 (RAlt (RCls (mkCls false [(53, 57)]%N)) (RCls (mkCls false [(48, 52)]%N)))) = true.
Proof. by_vm. Time Qed.
Example sha1_reordered_class :
  req_check FUEL (pat_regex re_sha1Regexp)
    (pat_regex (mkPat false (RRep 40 (RCls (mkCls false [(97, 102); (48, 57)]%N))) false)) = true.
Proof. by_vm. Time Qed.

(* -- a different grouping of the whole of signRegexp (left-nested) -- *)
Fixpoint lcat (acc r : regex) : regex :=
  match r with
  | RCat a b => lcat (RCat acc a) b
  | _ => RCat acc r
  end.
Definition left_nested (r : regex) : regex :=
  match r with RCat a b => lcat a b | _ => r end.

Example sign_regrouped_differs :
  regex_eqb (left_nested (p_body re_signRegexp)) (p_body re_signRegexp) = false.
Proof. by_vm_false. Qed.
Example sign_regrouped :
  req_check FUEL (left_nested (p_body re_signRegexp)) (p_body re_signRegexp) = true.
Proof. by_vm. Time Qed.
(* the same without any help from [nrm]'s re-association: grouping inside a star *)
Example star_regrouped :
  req_check FUEL (RStar (RCat (RCat dig (RChar x2e)) (RStar dig)))
                 (RStar (RCat dig (RCat (RChar x2e) (RStar dig)))) = true.
Proof. by_vm. Time Qed.
(* star of an alternative = star of the concatenated stars *)
Example star_alt :
  req_check FUEL (RStar (RAlt dig (RChar x2e))) (RStar (RCat (RStar dig) (RStar (RChar x2e)))) = true.
Proof. by_vm. Time Qed.

(* -- non-equivalences -- *)
Example rep4_rep3 : req_check FUEL (RRep 4 dig) (RRep 3 dig) = false.
Proof. by_vm_false. Time Qed.
Example az_ay :
  req_check FUEL (RCls (mkCls false [(97, 122)]%N)) (RCls (mkCls false [(97, 121)]%N)) = false.
Proof. by_vm_false. Time Qed.
Example reset_unanchored :
  req_check FUEL (pat_regex re_resetRegexp)
    (pat_regex (mkPat false (p_body re_resetRegexp) false)) = false.
Proof. by_vm_false. Time Qed.
Example reset_half_anchored :
  req_check FUEL (pat_regex re_resetRegexp)
    (pat_regex (mkPat true (p_body re_resetRegexp) false)) = false.
Proof. by_vm_false. Time Qed.
(* dropping the OTHER star of the label is not an equivalence: "a-.x" *)
Definition re_signRegexp_wrong : pattern :=
  mkPat true (RCat (RStar (RCls (mkCls false [(0, 59); (61, 255)]%N))) (RCat (RLit [x20; x3c]) (RCat (RPlus (RCls (mkCls false [(43, 43); (45, 46); (48, 57); (65, 90); (95, 95); (97, 122)]%N))) (RCat (RLit [x40]) (RCat (RPlus (RCat (RCls (mkCls false [(48, 57); (65, 90); (97, 122)]%N)) (RCat (RStar (RCls (mkCls false [(48, 57); (65, 90); (97, 122)]%N))) (RLit [x2e])))) (RCat (RRepMin 2 (RCls (mkCls false [(65, 90); (97, 122)]%N))) (RCat (RLit [x3e; x20]) (RCat (RCls (mkCls false [(49, 57)]%N)) (RCat (RStar (RCls (mkCls false [(48, 57)]%N))) (RCat (RLit [x20]) (RCat (RCls (mkCls false [(43, 43); (45, 45)]%N)) (RRep 4 (RCls (mkCls false [(48, 57)]%N)))))))))))))) true.
Example sign_wrong_check :
  req_check FUEL (pat_regex re_signRegexp_wrong) (pat_regex re_signRegexp) = false.
Proof. by_vm_false. Time Qed.
(* ... and indeed: " <a@b-c.de> 1 +0000" *)
Example sign_wrong_witness :
  let s := [x20; x3c; x61; x40; x62; x2d; x63; x2e; x64; x65; x3e; x20; x31; x20; x2b; x30; x30; x30; x30] in
  (re_search re_signRegexp s, re_search re_signRegexp_wrong s) = (true, false).
Proof. vm_cast_no_check (eq_refl (true, false)). Qed.

Print Assumptions regex_eqb_eq.
Print Assumptions nrm_lang.
Print Assumptions bisim_sound.
Print Assumptions bisim_fast_sound.
Print Assumptions req_check_sound.
Print Assumptions req_check_all_sound.
Print Assumptions pat_check_sound.
Print Assumptions sign_short_equiv.
Print Assumptions self_sha1.
