(* TreeUniqueFacts.v — every tree a reachable repository's commits name holds
   no two DIRECTORY entries of one name ([RestoreFacts.nodes_unique]), at every
   level; the hypothesis [nodes_unique] of the restore theorems is discharged.

   1. [group_unique]            the grouping of a canonical staging area never
                                produces two directory items of one name
      [commit_tree_reads_u]     [SnapshotFacts.commit_tree_reads] with that conjunct
   2. [snap_ok_u] [SnapshotsUnique] [TreesUnique]
      [run_cmd_emits_u]         every command keeps [SnapshotFacts.Inv] and only
                                ever stores a commit whose tree is unique ([Gu])
      [reachable_unique]        the invariant over histories
   3. [reachable_head_nodes_u]  what HEAD's tree reads as in a reachable world
   4. [restore_staged_total_spec'] [st_selected_iff_reachable]
      [head_dir_paths_complete_reachable]   the restore theorems without the
                                hypothesis bundle on [its] *)
From Coq Require Import Strings.String Strings.Byte.
From Coq Require Import List Bool NArith ZArith Arith Lia Sorted.
From Coq Require Import ZifyBool ZifyNat ZifyN.
From Goit Require Import Bytes Sha1 Obj Tree Index Regex GoRegex Commit Reflog Config Ignore World Repo.
From Goit Require Import BytesFacts ObjFacts IndexFacts TreeFacts DiffFacts IgnoreFacts MonadFacts Inv.
From Goit Require Import BranchFacts ChainFacts ConnectedFacts SnapshotFacts ExactFacts RestoreFacts.
Import ListNotations.

#[local] Arguments sha1 : simpl never.
#[local] Arguments obj_id : simpl never.
#[local] Arguments payload : simpl never.
#[local] Arguments header : simpl never.

(* ================================================================== *)
(** * 1. The grouping of a canonical staging area *)

(* a path between two paths with a common prefix has that prefix *)
Lemma tu_blt_between : forall u x y z,
  blt (u ++ x) y = true -> blt y (u ++ z) = true -> exists y', y = u ++ y'.
Proof.
  induction u as [|c u IH]; intros x y z H1 H2.
  - exists y. reflexivity.
  - destruct y as [|d y]; [discriminate H1|].
    rewrite <- !app_comm_cons in H1, H2. rewrite blt_cons in H1, H2.
    destruct (N.ltb (bN c) (bN d)) eqn:Ecd.
    + destruct (N.ltb (bN d) (bN c)) eqn:Edc; [lia | discriminate H2].
    + destruct (N.ltb (bN d) (bN c)) eqn:Edc; [discriminate H1|].
      assert (Heq : c = d) by (apply bN_inj; lia). subst d.
      destruct (IH x y z H1 H2) as [y' ->]. exists y'. reflexivity.
Qed.

Lemma tu_nodes_unique_nil : nodes_unique [].
Proof. constructor; [constructor | intros c []]. Qed.

(* the entries below a directory item start with "<name>/" *)
Lemma tu_dir_entry_path : forall a s e, wf_item (IDir a s) -> In e (flat_item [] (IDir a s)) ->
  exists p, e_path e = a ++ c_slash :: p.
Proof.
  intros a s e Hwf Hin. rewrite (flat_item_dir_push a s Hwf) in Hin.
  apply in_map_iff in Hin. destruct Hin as [e0 [<- _]]. exists (e_path e0). reflexivity.
Qed.

Lemma tu_flat_item_witness : forall i, wf_item i -> exists e, In e (flat_item [] i).
Proof.
  intros i Hwf. destruct (flat_item [] i) as [|e l] eqn:E.
  - exfalso. exact (wf_flat_item_nonempty i Hwf [] E).
  - exists e. left. reflexivity.
Qed.

(* in a strictly ascending snapshot, a directory item is not followed, at any
   distance, by a directory item of the same name: everything between them
   would lie below that directory too, hence be a directory item of that name
   adjacent to the first *)
Lemma tu_dir_not_again : forall r a s1 s2,
  wf_item (IDir a s1) -> Forall wf_item r -> adj_ok (IDir a s1 :: r) ->
  Canonical (flat_item [] (IDir a s1) ++ flat_items [] r) ->
  ~ In (IDir a s2) r.
Proof.
  intros r a s1 s2 Hw1 Hwr Hadj Hcan Hin.
  destruct r as [|j r']; [contradiction Hin|].
  inversion Hwr as [|? ? Hwj Hwr']; subst.
  destruct Hin as [Hj|Hin].
  { subst j. cbn [adj_ok] in Hadj. destruct Hadj as [Hne _]. apply Hne. reflexivity. }
  assert (Hw2 : wf_item (IDir a s2)) by (exact (proj1 (Forall_forall _ _) Hwr' _ Hin)).
  destruct (Canonical_app_inv _ _ Hcan) as (_ & Hcr & Hlt1).
  rewrite flat_items_cons in Hcr, Hlt1.
  destruct (Canonical_app_inv _ _ Hcr) as (_ & _ & Hlt2).
  destruct (tu_flat_item_witness _ Hw1) as [e1 He1].
  destruct (tu_flat_item_witness _ Hwj) as [ej Hej].
  destruct (tu_flat_item_witness _ Hw2) as [e2 He2].
  assert (He2' : In e2 (flat_items [] r')).
  { unfold flat_items. apply in_flat_map. exists (IDir a s2). split; assumption. }
  pose proof (Hlt1 e1 ej He1 (in_or_app _ _ _ (or_introl Hej))) as L1.
  pose proof (Hlt2 ej e2 Hej He2') as L2.
  destruct (tu_dir_entry_path a s1 e1 Hw1 He1) as [p1 P1].
  destruct (tu_dir_entry_path a s2 e2 Hw2 He2) as [p2 P2].
  rewrite P1 in L1. rewrite P2 in L2.
  change (a ++ c_slash :: p1) with (a ++ [c_slash] ++ p1) in L1.
  change (a ++ c_slash :: p2) with (a ++ [c_slash] ++ p2) in L2.
  rewrite app_assoc in L1, L2.
  destruct (tu_blt_between _ _ _ _ L1 L2) as [y Hy]. rewrite <- app_assoc in Hy. cbn [app] in Hy.
  inversion Hw1 as [|? ? Hva _ _]; subst.
  destruct j as [n id | b s].
  - cbn in Hej. destruct Hej as [<-|[]]. cbn [e_path] in Hy.
    inversion Hwj as [? ? Hvn _|]; subst. apply (proj1 (proj2 Hvn)).
    apply in_or_app. right. left. reflexivity.
  - destruct (tu_dir_entry_path b s ej Hwj Hej) as [pj Pj]. rewrite Pj in Hy.
    inversion Hwj as [|? ? Hvb _ _]; subst.
    pose proof (tf_split1_app_sep c_slash b pj (proj1 (proj2 Hvb))) as S1.
    rewrite Hy, (tf_split1_app_sep c_slash a y (proj1 (proj2 Hva))) in S1.
    injection S1 as Hab _. cbn [adj_ok] in Hadj. destruct Hadj as [Hne _]. apply Hne. exact Hab.
Qed.

(* hence the directory names of one level are pairwise distinct *)
Lemma tu_top_dirs_nodup : forall its,
  Forall wf_item its -> adj_ok its -> Canonical (flat_items [] its) ->
  NoDup (map n_name (filter (fun c => negb (is_leaf c)) (map node_of its))).
Proof.
  induction its as [|i r IH]; intros Hwf Hadj Hcan; [constructor|].
  inversion Hwf as [|? ? Hwi Hwr]; subst.
  rewrite flat_items_cons in Hcan.
  destruct (Canonical_app_inv _ _ Hcan) as (_ & Hcr & _).
  assert (Hadjr : adj_ok r) by (cbn [adj_ok] in Hadj; apply Hadj).
  specialize (IH Hwr Hadjr Hcr).
  destruct i as [n id | a s1].
  - cbn [map node_of filter is_leaf n_children is_nil negb]. exact IH.
  - cbn [map filter]. rewrite (wf_dir_not_leaf a s1 Hwi). cbn [negb map].
    rewrite node_of_dir at 1. cbn [n_name]. constructor; [|exact IH].
    intro Hin. apply in_map_iff in Hin. destruct Hin as [c [Hname Hc]].
    apply filter_In in Hc. destruct Hc as [Hc Hleaf].
    apply in_map_iff in Hc. destruct Hc as [j [<- Hj]].
    destruct j as [n id | b s2]; [discriminate Hleaf|].
    rewrite node_of_dir in Hname. cbn [n_name] in Hname. subst b.
    exact (tu_dir_not_again r a s1 s2 Hwi Hwr Hadj Hcan Hj).
Qed.

(* the sub-trees of the directory items of one level *)
Definition kids_u (its : list item) : Prop :=
  Forall (fun i => match i with
                   | IDir _ sub => nodes_unique (map node_of sub)
                   | IFile _ _ => True
                   end) its.

Definition rec_u (rec : list entry -> option (list item)) : Prop :=
  forall buf sub, Forall valid_entry buf -> Canonical buf -> rec buf = Some sub ->
                  nodes_unique (map node_of sub).

Lemma tu_flush_kids : forall rec dir buf its, rec_u rec ->
  Forall valid_entry buf -> Canonical (map (push dir) buf) ->
  g_flush rec dir buf = Some its -> kids_u its.
Proof.
  intros rec dir buf its Hrec Hv Hc H. unfold g_flush in H.
  destruct (rec buf) as [sub|] eqn:E; [|discriminate H]. injection H as <-.
  constructor; [|constructor].
  apply (Hrec buf sub Hv (Canonical_push_inv dir buf Hc) E).
Qed.

Lemma tu_pending_kids : forall rec dir buf its, rec_u rec ->
  Forall valid_entry buf -> Canonical (map (push dir) buf) ->
  g_pending rec dir buf = Some its -> kids_u its.
Proof.
  intros rec dir buf its Hrec Hv Hc H. unfold g_pending in H.
  destruct (is_nil dir); [injection H as <-; constructor|].
  exact (tu_flush_kids rec dir buf its Hrec Hv Hc H).
Qed.

Lemma tu_g_loop_kids : forall rec, rec_u rec ->
  forall es dir buf its,
  Forall valid_entry es -> Forall valid_entry buf -> pend_ok dir buf ->
  Canonical (map (push dir) buf ++ es) ->
  g_loop rec es dir buf = Some its -> kids_u its.
Proof.
  intros rec Hrec. induction es as [|e es IH]; intros dir buf its Hes Hbuf Hp Hcan H.
  - cbn [g_loop] in H. rewrite app_nil_r in Hcan.
    exact (tu_pending_kids rec dir buf its Hrec Hbuf Hcan H).
  - inversion Hes as [|? ? He Hes']; subst. cbn [g_loop] in H.
    destruct (Canonical_app_inv _ _ Hcan) as (Hcb & Hce & _).
    destruct (split1 c_slash (e_path e)) as [d [rest|]] eqn:E.
    + destruct (valid_split_some e d rest He E) as [Hd [Hne Hpath]].
      assert (Hpush : push d (mkE (e_id e) rest) = e).
      { unfold push. cbn [e_id e_path]. rewrite <- Hpath. destruct e; reflexivity. }
      assert (Hb' : Forall valid_entry (buf ++ [mkE (e_id e) rest])).
      { apply Forall_app. split; [exact Hbuf|]. constructor; [exact Hne | constructor]. }
      assert (Hp' : forall b, pend_ok d (b ++ [mkE (e_id e) rest])).
      { intros b. split; [intros X; destruct Hd as [Hd0 _]; contradiction (Hd0 X)|]. intros _.
        split; [exact Hd|]. intros X. apply app_eq_nil in X. destruct X as [_ X]. discriminate X. }
      destruct (is_nil dir) eqn:Hn.
      * apply is_nil_true in Hn. subst dir. destruct Hp as [Hp1 _].
        rewrite (Hp1 eq_refl) in *. cbn [map app] in Hcan.
        apply (IH d _ its Hes' Hb' (Hp' [])); [|exact H].
        cbn [app map]. rewrite Hpush. exact Hcan.
      * destruct (bytes_eqb dir d) eqn:Hb.
        -- apply bytes_eqb_eq in Hb. subst d.
           apply (IH dir _ its Hes' Hb' (Hp' buf)); [|exact H].
           rewrite map_app. cbn [map]. rewrite Hpush, <- app_assoc. exact Hcan.
        -- destruct (g_flush rec dir buf) as [pi|] eqn:Ef; [|discriminate H].
           destruct (g_loop rec es d [mkE (e_id e) rest]) as [r|] eqn:El; [|discriminate H].
           injection H as <-. apply Forall_app. split.
           ++ exact (tu_flush_kids rec dir buf pi Hrec Hbuf Hcb Ef).
           ++ apply (IH d _ r Hes' (Forall_cons _ Hne (Forall_nil _)) (Hp' [])); [|exact El].
              cbn [app map]. rewrite Hpush. exact Hce.
    + destruct (g_pending rec dir buf) as [pi|] eqn:Ef; [|discriminate H].
      destruct (g_loop rec es [] []) as [r|] eqn:El; [|discriminate H].
      injection H as <-. apply Forall_app. split.
      * exact (tu_pending_kids rec dir buf pi Hrec Hbuf Hcb Ef).
      * constructor; [exact Logic.I|].
        assert (Hp0 : pend_ok [] []).
        { split; [reflexivity|]. intros X; contradiction X; reflexivity. }
        apply (IH [] [] r Hes' (Forall_nil _) Hp0); [|exact El].
        cbn [map app]. exact (proj1 (Canonical_cons_inv _ _ Hce)).
Qed.

(* (1) Goit's grouping of a canonical list of valid entries never makes two
   directory entries of one name in a tree, at any level *)
Theorem group_unique : forall fuel es its,
  Forall valid_entry es -> Canonical es -> group fuel es = Some its ->
  nodes_unique (map node_of its).
Proof.
  induction fuel as [|f IH]; intros es its Hv Hc H; [discriminate H|].
  pose proof (group_wf bytes_eqb_eq (S f) es its Hv H) as Hwf.
  pose proof (group_flat bytes_eqb_eq (S f) es its Hv H) as Hfl.
  cbn [group] in H.
  assert (Hp0 : pend_ok [] []).
  { split; [reflexivity|]. intros X; contradiction X; reflexivity. }
  assert (Hk : kids_u its).
  { apply (tu_g_loop_kids (group f) IH es [] [] its Hv (Forall_nil _) Hp0); [|exact H].
    cbn [map app]. exact Hc. }
  pose proof (proj1 (g_loop_adj bytes_eqb_eq _ _ _ _ _ Hv H)) as Hadj.
  constructor.
  - apply tu_top_dirs_nodup; [exact Hwf | exact Hadj | rewrite Hfl; exact Hc].
  - intros c Hin. apply in_map_iff in Hin. destruct Hin as [i [<- Hi]].
    pose proof (proj1 (Forall_forall _ _) Hk i Hi) as Hki.
    destruct i as [n id | n sub].
    + cbn [node_of n_children]. exact tu_nodes_unique_nil.
    + rewrite node_of_dir. cbn [n_children]. exact Hki.
Qed.

(* the hypothesis [Canonical] cannot be dropped: an unsorted list makes the
   same directory twice *)
Example group_unique_needs_canonical :
  let es := [mkE (repeat x00 20) (str "a/x"%string); mkE (repeat x00 20) (str "b"%string);
             mkE (repeat x00 20) (str "a/y"%string)] in
  Forall valid_entry es /\
  match group_top es with
  | Some its => map (fun i => match i with IDir n _ => (true, n) | IFile n _ => (false, n) end) its
  | None => []
  end = [(true, str "a"%string); (false, str "b"%string); (true, str "a"%string)].
Proof.
  split; [|vm_compute; reflexivity].
  repeat constructor; cbn; try (intros [X|X]; try discriminate X; try contradiction X);
    try (intros X; discriminate X); try reflexivity.
Qed.

(* [SnapshotFacts.commit_tree_reads] with the extra conjunct: the tree written
   from a canonical staging area reads back as items whose nodes are unique *)
Lemma commit_tree_reads_u : forall es root subs st2,
  Canonical es -> Forall valid_entry es -> write_tree_top es = Some (root, subs) ->
  (forall d, In d (subs ++ [root]) -> st_lookup st2 (obj_id KTree d) = Some (payload KTree d)) ->
  SmallStore st2 ->
  exists its, get_kind st2 KTree (obj_id KTree root) = Some root /\
     walk_tree (S (length st2)) st2 root = Some (map node_of its) /\
     Forall wf_item its /\ flat_items [] its = es /\
     nodes_unique (map node_of its).
Proof.
  intros es root subs st2 Hcan Hv Hw Hst Hsm.
  destruct (write_tree_top_inv es root subs Hw) as (its & Hg & -> & ->).
  unfold group_top in Hg.
  pose proof (group_wf bytes_eqb_eq _ es its Hv Hg) as Hwf.
  pose proof (group_flat bytes_eqb_eq _ es its Hv Hg) as Hfl.
  pose proof (group_unique _ es its Hv Hcan Hg) as Hu.
  assert (HG : TreeFacts.Good st2 (subsl its ++ [ser its])).
  { intros d Hd. split; [apply Hst; exact Hd|].
    pose proof (Hsm _ _ (Hst d Hd)) as Hp. pose proof (payload_len KTree d). lia. }
  assert (HG' : TreeFacts.Good st2 (subsl its)).
  { apply (TreeFacts.Good_incl st2 _ _ (incl_appl _ (incl_refl _)) HG). }
  pose proof (depth_le_store payload_roundtrip bytes_eqb_eq st2 its Hwf HG') as Hdep.
  exists its. split.
  - apply (get_kind_good payload_roundtrip bytes_eqb_eq st2 _ (ser its) HG).
    apply in_or_app. right. left. reflexivity.
  - split; [|auto]. apply (walk_items payload_roundtrip bytes_eqb_eq); [lia | exact Hwf | exact HG'].
Qed.

(* ================================================================== *)
(** * 2. The invariant over histories *)

(* the tree of a stored commit reads, with Goit's reader and the fuel the
   commands give it, as nodes without two directories of one name *)
Definition tree_u (st : store) (c : commit) : Prop :=
  exists d ns, get_kind st KTree (c_tree c) = Some d /\
               walk_tree (S (length st)) st d = Some ns /\ nodes_unique ns.

(* [SnapshotFacts.snap_ok] and uniqueness, of the same items *)
Definition snap_ok_u (st : store) (c : commit) : Prop :=
  exists d its,
    get_kind st KTree (c_tree c) = Some d /\
    walk_tree (S (length st)) st d = Some (map node_of its) /\
    Forall wf_item its /\
    Canonical (flat_items [] its) /\ Forall valid_entry (flat_items [] its) /\
    nodes_unique (map node_of its).

Definition TreesUnique (st : store) : Prop :=
  forall id c, get_commit st id = Some c -> tree_u st c.
Definition SnapshotsUnique (st : store) : Prop :=
  forall id c, get_commit st id = Some c -> snap_ok_u st c.

(* [walk_tree] is a function: the items of [snap_ok] are the nodes of [tree_u] *)
Lemma snap_ok_u_iff : forall st c, snap_ok_u st c <-> snap_ok st c /\ tree_u st c.
Proof.
  intros st c. split.
  - intros (d & its & Hk & Hw & Hwf & Hcan & Hval & Hu). split.
    + exists d, its. auto.
    + exists d, (map node_of its). auto.
  - intros [(d & its & Hk & Hw & Hwf & Hcan & Hval) (d' & ns & Hk' & Hw' & Hu)].
    rewrite Hk in Hk'. injection Hk' as <-. rewrite Hw in Hw'. injection Hw' as <-.
    exists d, its. auto 10.
Qed.

Lemma SnapshotsUnique_iff : forall st, SnapshotsUnique st <-> SnapshotsGood' st /\ TreesUnique st.
Proof.
  intro st. split.
  - intro H. split; intros id c Hc; apply (snap_ok_u_iff st c); exact (H id c Hc).
  - intros [Hg Hu] id c Hc. apply snap_ok_u_iff. split; [exact (Hg id c Hc) | exact (Hu id c Hc)].
Qed.

Lemma tree_u_ext : forall st st' c, store_ext st st' -> tree_u st c -> tree_u st' c.
Proof.
  intros st st' c He (d & ns & Hk & Hw & Hu). exists d, ns.
  split; [apply (get_kind_ext st st'); assumption|].
  split; [apply (walk_tree_ext_fuel st st'); assumption | exact Hu].
Qed.

(* writing one object: old commits keep their reading, the new id is checked *)
Lemma TreesUnique_set : forall st id p,
  TreesUnique st -> st_collides st id p = false ->
  (forall c, st_lookup st id = None -> get_commit (st_set st id p) id = Some c ->
             tree_u (st_set st id p) c) ->
  TreesUnique (st_set st id p).
Proof.
  intros st id p Hg Hcol Hnew id0 c Hc.
  pose proof (store_ext_set st id p Hcol) as He.
  destruct (bytes_eq_dec id0 id) as [->|Hne].
  - destruct (st_lookup st id) as [p0|] eqn:El.
    + assert (Hp : p0 = p).
      { unfold st_collides in Hcol. rewrite El in Hcol.
        apply negb_false_iff in Hcol. apply bytes_eqb_eq in Hcol. exact Hcol. }
      subst p0. rewrite (put_idempotent st id p El) in Hc |- *. apply (Hg id c Hc).
    + apply Hnew; [reflexivity | exact Hc].
  - apply (tree_u_ext st); [exact He|]. apply (Hg id0 c).
    unfold get_commit, get_kind in Hc |- *. rewrite (get_frame_gen st id p id0 Hne) in Hc. exact Hc.
Qed.

(* an object that is not a commit never reads as one, under any name *)
Lemma get_commit_set_other_kind : forall st id k d c,
  k <> KCommit -> get_commit (st_set st id (payload k d)) id = Some c -> False.
Proof.
  intros st id k d c Hk H. unfold get_commit, get_kind, get_obj in H.
  rewrite st_lookup_set_same in H.
  destruct (N.ltb (lenN d) (2 ^ 63)) eqn:E.
  - apply N.ltb_lt in E. rewrite (payload_roundtrip k d E) in H.
    destruct (bytes_eqb (sha1 (payload k d)) id); [|discriminate H].
    destruct k; try discriminate H. apply Hk. reflexivity.
  - apply N.ltb_ge in E. rewrite (payload_too_big k d E) in H. discriminate H.
Qed.

(* what the commands guarantee of every object they store: if it reads as a
   commit, its tree is unique *)
Definition Gu (w : world) (e : effect) : Prop :=
  match e with
  | EPutObj id p =>
      Live (apply_effect e w) ->
      forall c, get_commit (st_set (w_objs w) id p) id = Some c ->
                tree_u (st_set (w_objs w) id p) c
  | _ => True
  end.

Lemma static_Gu : forall w e, eff_static e -> Gu w e.
Proof.
  intros w e H. destruct e; cbn [Gu]; try exact Logic.I.
  cbn [eff_static] in H. destruct H as (k & d & Hk & ->).
  intros _ c Hc. exfalso. exact (get_commit_set_other_kind _ _ _ _ _ Hk Hc).
Qed.

Lemma steps_ok_lift : forall tr w,
  steps_ok Inv G w tr -> steps_ok (fun _ => True) (fun _ e => eff_static e) w tr ->
  steps_ok Inv Gu w tr.
Proof.
  induction tr as [|e tr IH]; intros w H1 H2; [exact Logic.I|].
  destruct H1 as (_ & Hi & H1). destruct H2 as (Hs & _ & H2). cbn [steps_ok].
  split; [apply static_Gu; exact Hs|]. split; [exact Hi | apply IH; assumption].
Qed.

(* a procedure that only performs static effects and keeps [Inv] keeps it
   under the guarantee [Gu] *)
Lemma hoare_quiet_lift : forall A (P : world -> Prop) (m : M A) (Q : A -> world -> Prop),
  hoare Inv G P m Q -> quiet m -> hoare Inv Gu P m Q.
Proof.
  intros A P m Q H1 H2 s Hi Hp.
  destruct (H1 s Hi Hp) as (tr & Ht & Hs & Hw & Hr).
  destruct (H2 s Logic.I Logic.I) as (tr2 & Ht2 & Hs2 & _).
  assert (Heq : tr2 = tr).
  { apply (app_inv_head (ms_trace s)). rewrite <- Ht, <- Ht2. reflexivity. }
  subst tr2. exists tr. split; [exact Ht|]. split; [apply steps_ok_lift; assumption|].
  split; [exact Hw | exact Hr].
Qed.

Lemma emits_quiet_lift : forall A (m : M A), emits Inv G m -> quiet m -> emits Inv Gu m.
Proof. intros A m H1 H2. exact (hoare_quiet_lift A _ m _ H1 H2). Qed.

Lemma load_ctx_quiet : quiet load_ctx.
Proof. unfold load_ctx. quiet_tac. Qed.

(* ---------- commit ---------- *)
Lemma do_commit_core_u : forall e c msg w root subs c0,
  let data := SnapshotFacts.commit_data e c msg w root in
  let w1 := apply_effects (map SnapshotFacts.put_tree_eff (subs ++ [root])) w in
  let w2 := apply_effect (EPutObj (obj_id KCommit data) (payload KCommit data)) w1 in
  IndexGood w -> cfg_nl (x_l c) -> cfg_nl (x_g c) ->
  write_tree_top (idx_of w) = Some (root, subs) -> parse_commit data = Some c0 ->
  Live w2 -> tree_u (w_objs w2) c0.
Proof.
  intros e c msg w root subs c0 data w1 w2 [Hcan Hval] Hl Hg Hw Hp HL.
  assert (Htree : c_tree c0 = obj_id KTree root).
  { assert (Hs : ~ In c_nl (SnapshotFacts.commit_sign e c)).
    { apply sign_string_nl; [apply user_name_nl | apply user_email_nl]; assumption. }
    unfold data, SnapshotFacts.commit_data, commit_parent in Hp.
    destruct (am_get (w_refs w) (w_head w)) as [hid|].
    - apply (parse_commit_tree _ (Some hid) _ _ _ _ (sha1_length _) Hs Hs Hp).
    - apply (parse_commit_tree _ None _ _ _ _ (sha1_length _) Hs Hs Hp). }
  pose proof (Live_effect_before _ _ HL) as [Hc1 _]. fold w1 in Hc1.
  destruct HL as [Hc2 Hsm].
  assert (Hst : forall d, In d (subs ++ [root]) ->
                st_lookup (w_objs w2) (obj_id KTree d) = Some (payload KTree d)).
  { intros d Hd. unfold w2. rewrite w_objs_EPutObj.
    apply st_set_keeps; [exact (put_coll_false _ _ _ Hc2)|].
    apply puts_lookup; assumption. }
  destruct (commit_tree_reads_u _ _ _ _ Hcan Hval Hw Hst Hsm) as (its & Hk & Hwk & _ & _ & Hu).
  exists root, (map node_of its). rewrite Htree. auto.
Qed.

Ltac usplit :=
  lazymatch goal with
  | |- Gu _ _ /\ Inv _ /\ _ => split; [ | split]
  | |- Gu _ _ /\ Inv _ => split
  end.
Ltac benign_u := usplit; [exact Logic.I | apply inv_benign; [reflexivity | assumption] | ..].

Lemma put_trees_spec_u : forall l w,
  hoare Inv Gu (eq w) (iterM (fun d => put_obj KTree d ;;; ret tt) l)
        (fun _ w' => w' = apply_effects (map SnapshotFacts.put_tree_eff l) w).
Proof.
  intros l w. apply hoare_quiet_lift; [apply put_trees_spec|].
  apply quiet_iterM. intro d. apply quiet_bind; [apply put_tree_quiet | intro; apply quiet_ret].
Qed.

Lemma do_commit_emits_u : forall e c msg w,
  CtxOk w c -> hoare Inv Gu (eq w) (do_commit e c msg) (fun _ _ => True).
Proof.
  intros e c msg w Hctx. unfold do_commit. hsteps.
  match goal with Hwt : write_tree_top (idx_of w) = Some ?t |- _ => rename t into rs end.
  apply at_bind_call with (P := eq w)
    (R := fun _ w' => w' = apply_effects (map SnapshotFacts.put_tree_eff (snd rs ++ [fst rs])) w);
    [apply put_trees_spec_u | reflexivity |].
  intros [] w1 _ ->. destruct rs as [root subs]. cbn [fst snd] in *.
  repeat (hsteps; try unfold put_obj); try benign_u; try exact Logic.I.
  all: fold (commit_parent w) in *; fold (SnapshotFacts.commit_sign e c) in *;
       fold (SnapshotFacts.commit_data e c msg w root) in *.
  usplit.
  - cbn [Gu]. intros HL c0 Hgc. destruct (get_commit_put _ _ _ _ Hgc) as (_ & Hp0 & _).
    rewrite <- w_objs_EPutObj.
    match goal with Hi : Inv (apply_effects _ w) |- _ =>
      pose proof (Hi (Live_effect_before _ _ HL)) as Hg end.
    destruct (premises_from c w _ Hctx
                (puts_frame _ w_index w_index_EPutObj _ _)
                (puts_frame _ w_lcfg w_lcfg_EPutObj _ _)
                (puts_frame _ w_gcfg w_gcfg_EPutObj _ _) Hg) as (Hix & Hcl & Hcg).
    match goal with Hw : write_tree_top _ = Some _ |- _ =>
      exact (do_commit_core_u e c msg w root subs c0 Hix Hcl Hcg Hw Hp0 HL) end.
  - apply inv_put_commit; [assumption|]. intros HL Hg c0 Hp0.
    destruct (premises_from c w _ Hctx
                (puts_frame _ w_index w_index_EPutObj _ _)
                (puts_frame _ w_lcfg w_lcfg_EPutObj _ _)
                (puts_frame _ w_gcfg w_gcfg_EPutObj _ _) Hg) as (Hix & Hcl & Hcg).
    match goal with Hw : write_tree_top _ = Some _ |- _ =>
      exact (proj1 (do_commit_core e c msg w root subs c0 Hix Hcl Hcg Hw Hp0 HL)) end.
Qed.

Lemma cmd_commit_emits_u : forall e c msg w,
  CtxOk w c -> hoare Inv Gu (eq w) (cmd_commit e c msg) (fun _ _ => True).
Proof.
  intros e c msg w Hctx. unfold cmd_commit. hsteps.
  - apply at_bind_call with (P := eq w) (R := fun _ _ => True);
      [apply do_commit_emits_u; exact Hctx | reflexivity |].
    intros [] w' _ _. hsteps. exact Logic.I.
  - apply at_bind_call with (P := eq w) (R := fun ns w' => w' = w /\ (Live w -> NsGood ns)).
    + apply hoare_quiet_lift; [|apply head_tree_nodes_quiet].
      apply head_tree_nodes_spec; [exact Hctx | congruence].
    + reflexivity.
    + intros ns w' _ [-> _]. hsteps.
      apply at_bind_call with (P := eq w) (R := fun _ _ => True);
        [apply do_commit_emits_u; exact Hctx | reflexivity |].
      intros [] w' _ _. hsteps. exact Logic.I.
Qed.

Ltac run_quiet L :=
  unfold run_cmd; apply quiet_bind; [apply quiet_getw | intro];
  apply quiet_bind; [apply quiet_guard | intro];
  apply quiet_bind; [apply load_ctx_quiet | intro]; apply L.

(* every command keeps [SnapshotFacts.Inv] in every intermediate world and
   only ever stores, as a commit, one whose tree is unique *)
Theorem run_cmd_emits_u : forall e c, emits Inv Gu (run_cmd e c).
Proof.
  intros e c.
  destruct c;
    try (lazymatch goal with
         | |- emits _ _ (run_cmd _ (CCommit _)) => fail
         | |- _ => apply emits_quiet_lift; [apply run_cmd_emits|]
         end).
  - unfold run_cmd. apply quiet_bind; [apply quiet_getw | intro]. apply cmd_init_quiet.
  - run_quiet cmd_config_quiet.
  - run_quiet cmd_add_quiet.
  - run_quiet cmd_rm_quiet.
  - (* commit *)
    unfold run_cmd. apply emits_bind_getw. intros w Hi. hstep.
    apply at_bind_call with (P := eq w) (R := fun x w' => w' = w /\ CtxOk w x);
      [apply hoare_quiet_lift; [apply load_ctx_spec | apply load_ctx_quiet] | reflexivity |].
    intros x w' _ [-> Hctx]. apply cmd_commit_emits_u. exact Hctx.
  - run_quiet cmd_status_quiet.
  - run_quiet cmd_branch_quiet.
  - run_quiet cmd_switch_quiet.
  - run_quiet cmd_reset_quiet.
  - run_quiet cmd_restore_quiet.
  - run_quiet cmd_update_ref_quiet.
  - run_quiet cmd_log_quiet.
  - run_quiet cmd_reflog_quiet.
  - run_quiet cmd_cat_file_quiet.
  - run_quiet cmd_hash_object_quiet.
  - run_quiet cmd_ls_files_quiet.
  - run_quiet cmd_rev_parse_quiet.
  - run_quiet cmd_write_tree_quiet.
Qed.

(* ---------- histories ---------- *)
Definition UInv (w : world) : Prop := Live w -> TreesUnique (w_objs w).

Lemma steps_ok_unique : forall tr w,
  Inv w -> UInv w -> steps_ok Inv Gu w tr -> UInv (apply_effects tr w).
Proof.
  induction tr as [|e tr IH]; intros w Hi Hu Hs; [exact Hu|].
  destruct Hs as (Hg & Hi' & Hs'). rewrite apply_effects_cons.
  apply IH; [exact Hi' | | exact Hs'].
  intro HL. pose proof (Hu (Live_effect_before e w HL)) as Hu0.
  destruct (is_put e) eqn:Ep.
  - destruct e; try discriminate Ep. rewrite w_objs_EPutObj.
    apply TreesUnique_set; [exact Hu0 | exact (put_coll_false _ _ _ (proj1 HL)) |].
    intros c _ Hgc. exact (Hg HL c Hgc).
  - rewrite w_objs_not_put by exact Ep. exact Hu0.
Qed.

Theorem step_unique : forall a w, action_ok a -> Inv w -> UInv w -> UInv (step_w a w).
Proof.
  intros [e c|u] w Hok Hi Hu; unfold step_w; cbn [step].
  - destruct (run_m (run_cmd e c) w) as [[r w'] tr] eqn:Erun.
    destruct (emits_sound Inv Gu _ _ _ _ _ _ (run_cmd_emits_u e c) Hi Erun) as (_ & Hw' & Hs & _).
    assert (Hu' : UInv w') by (rewrite Hw'; apply steps_ok_unique; assumption).
    destruct r; exact Hu'.
  - cbn [fst]. intros [Hc Hs]. rewrite w_coll_apply_edit in Hc. rewrite w_objs_apply_edit in Hs |- *.
    apply Hu. split; assumption.
Qed.

Theorem run_unique : forall h w, Forall action_ok h -> Inv w -> UInv w -> UInv (run h w).
Proof.
  induction h as [|a h IH]; intros w Hall Hi Hu; [exact Hu|].
  inversion Hall as [|? ? Ha Hh]; subst. rewrite run_cons.
  apply IH; [exact Hh | apply step_Inv; assumption | apply step_unique; assumption].
Qed.

Lemma TreesUnique_empty : TreesUnique (w_objs w_empty).
Proof. intros id c H. discriminate H. Qed.

(* one step from any good world *)
Theorem unique_step : forall a w,
  action_ok a -> GoodW w -> TreesUnique (w_objs w) ->
  w_coll (step_w a w) = false -> SmallStore (w_objs (step_w a w)) ->
  SnapshotsUnique (w_objs (step_w a w)).
Proof.
  intros a w Hok Hg Hu Hc Hs. apply SnapshotsUnique_iff. split.
  - exact (proj1 (proj2 (proj2 (good_step a w Hok Hg Hc Hs)))).
  - apply (step_unique a w Hok (GoodW_Inv w Hg) (fun _ => Hu)). split; assumption.
Qed.

(* (2) every commit stored in a reachable repository has a tree that reads
   back as well-formed items, canonical, valid, WITHOUT two directory entries
   of one name at any level *)
Theorem reachable_unique : forall w,
  Reachable w -> w_coll w = false -> SmallStore (w_objs w) -> SnapshotsUnique (w_objs w).
Proof.
  intros w Hr Hc Hs. apply SnapshotsUnique_iff. split.
  - exact (proj1 (proj2 (proj2 (reachable_good w Hr Hc Hs)))).
  - destruct Hr as (h & Hall & ->).
    apply (run_unique h w_empty Hall (GoodW_Inv _ GoodW_empty) (fun _ => TreesUnique_empty)).
    split; assumption.
Qed.

(* ================================================================== *)
(** * 3. The nodes of HEAD's tree in a reachable world *)

(* (named [_u]: RestoreFacts already has a [reachable_head_nodes], which this
   strengthens) *)
Theorem reachable_head_nodes_u : forall w c ns,
  Reachable w -> w_coll w = false -> SmallStore (w_objs w) ->
  ctx_of w = Some c -> head_nodes c w = Some ns ->
  exists its, ns = map node_of its /\ Forall wf_item its /\
              Canonical (flat_items [] its) /\ Forall valid_entry (flat_items [] its) /\
              nodes_unique ns.
Proof.
  intros w c ns Hr Hc Hs Hx Hn.
  destruct (reachable_head_nodes w c ns Hr Hc Hs Hx Hn)
    as (hid & cm & d & Hh & _ & Hd & Hw & (its & Ens & Hwf & Hcan & Hval) & _).
  pose proof (ctx_of_headc w c Hx) as Hhc. rewrite Hh in Hhc.
  destruct (head_commit_some w hid cm Hhc) as [_ Hcm].
  destruct (proj2 (proj1 (SnapshotsUnique_iff _) (reachable_unique w Hr Hc Hs)) hid cm Hcm)
    as (d' & ns' & Hd' & Hw' & Hu).
  rewrite Hd in Hd'. injection Hd' as <-. rewrite Hw in Hw'. injection Hw' as <-.
  exists its. auto 10.
Qed.

(* the same with the snapshot: what HEAD's tree flattens to *)
Corollary reachable_head_snapshot_u : forall w c ns,
  Reachable w -> w_coll w = false -> SmallStore (w_objs w) ->
  ctx_of w = Some c -> head_nodes c w = Some ns ->
  exists hid its, am_get (w_refs w) (w_head w) = Some hid /\
    snapshot (w_objs w) hid = Some (flat_items [] its) /\ flatten [] ns = flat_items [] its /\
    ns = map node_of its /\ Forall wf_item its /\
    Canonical (flat_items [] its) /\ Forall valid_entry (flat_items [] its) /\
    nodes_unique ns.
Proof.
  intros w c ns Hr Hc Hs Hx Hn.
  destruct (reachable_head_nodes w c ns Hr Hc Hs Hx Hn) as (hid & cm & d & _ & Href & _ & _ & _ & Hsn).
  destruct (reachable_head_nodes_u w c ns Hr Hc Hs Hx Hn) as (its & Ens & Hwf & Hcan & Hval & Hu).
  exists hid, its. split; [exact Href|].
  assert (Hfl : flatten [] ns = flat_items [] its) by (rewrite Ens; apply flatten_items; exact Hwf).
  split; [rewrite <- Hfl; exact Hsn|]. split; [exact Hfl|]. auto 10.
Qed.

(* ================================================================== *)
(** * 4. The restore theorems without the hypothesis bundle on [its] *)

(* [RestoreFacts.head_dir_paths_complete] on a reachable world: a directory
   argument ("." included) selects EVERY file of HEAD's snapshot beneath it *)
Theorem head_dir_paths_complete_reachable : forall w c ns a q,
  Reachable w -> w_coll w = false -> SmallStore (w_objs w) ->
  ctx_of w = Some c -> head_nodes c w = Some ns ->
  leaf_node ns a = None ->
  In q (paths (flatten [] ns)) -> under_dir a q = true ->
  In q (head_dir_paths ns a).
Proof.
  intros w c ns a q Hr Hc Hs Hx Hn Hl Hq Hund.
  destruct (reachable_head_nodes_u w c ns Hr Hc Hs Hx Hn) as (its & -> & Hwf & Hcan & _ & Hu).
  rewrite (flatten_items its Hwf) in Hq.
  exact (head_dir_paths_complete its a q Hwf Hu Hl Hq Hund).
Qed.

(* [RestoreFacts.st_selected_iff] on a reachable world: the model's selection
   is the specification's, stated on the staging area and HEAD's snapshot only *)
Theorem st_selected_iff_reachable : forall w c ns args q,
  Reachable w -> w_coll w = false -> SmallStore (w_objs w) ->
  ctx_of w = Some c -> head_nodes c w = Some ns ->
  (st_selected w ns args q <-> st_selected_spec w (flatten [] ns) args q).
Proof.
  intros w c ns args q Hr Hc Hs Hx Hn.
  destruct (reachable_head_nodes_u w c ns Hr Hc Hs Hx Hn) as (its & -> & Hwf & Hcan & _ & Hu).
  rewrite (flatten_items its Hwf).
  exact (st_selected_iff w its args q Hwf Hcan Hu).
Qed.

(* [RestoreFacts.restore_staged_total_spec] with [its] provided by the history:
   (R2) with the selection stated on the staging area and the snapshot only *)
Theorem restore_staged_total_spec' : forall e c w args ns,
  Reachable w -> w_coll w = false -> SmallStore (w_objs w) ->
  w_inited w = true -> ctx_of w = Some c ->
  head_nodes c w = Some ns ->
  args <> [] ->
  (forall a, In a args -> st_known w ns a) ->
  repeats_in_head ns (idx_targets w ns args) ->
  exists w' tr,
    step (ACmd e (CRestore true args)) w = (w', OOk [], tr) /\
    Canonical (idx_of w') /\
    (forall q, st_selected_spec w (flatten [] ns) args q -> staged w' q = stg (flatten [] ns) q) /\
    (forall q, ~ st_selected_spec w (flatten [] ns) args q -> staged w' q = staged w q) /\
    same_wt w w' /\ same_objs w w' /\ ExactFacts.same_meta w w' /\
    w' = apply_effects tr w /\ Forall (fun ef => is_idx ef = true) tr.
Proof.
  intros e c w args ns Hr Hc Hs Hi Hx Hn Hne Hknown Hrep.
  destruct (reachable_head_nodes_u w c ns Hr Hc Hs Hx Hn) as (its & Ens & Hwf & Hcan & _ & Hu).
  subst ns. rewrite (flatten_items its Hwf).
  exact (restore_staged_total_spec e c w args its Hr Hc Hs Hi Hx Hn Hwf Hcan Hu Hne Hknown Hrep).
Qed.

(* the same, naming the snapshot of the commit HEAD's branch points to *)
Corollary restore_staged_total_snapshot : forall e c w args ns,
  Reachable w -> w_coll w = false -> SmallStore (w_objs w) ->
  w_inited w = true -> ctx_of w = Some c ->
  head_nodes c w = Some ns ->
  args <> [] ->
  (forall a, In a args -> st_known w ns a) ->
  repeats_in_head ns (idx_targets w ns args) ->
  exists hid s w' tr,
    am_get (w_refs w) (w_head w) = Some hid /\ snapshot (w_objs w) hid = Some s /\
    step (ACmd e (CRestore true args)) w = (w', OOk [], tr) /\
    Canonical (idx_of w') /\
    (forall q, st_selected_spec w s args q -> staged w' q = stg s q) /\
    (forall q, ~ st_selected_spec w s args q -> staged w' q = staged w q) /\
    same_wt w w' /\ same_objs w w' /\ ExactFacts.same_meta w w' /\
    w' = apply_effects tr w /\ Forall (fun ef => is_idx ef = true) tr.
Proof.
  intros e c w args ns Hr Hc Hs Hi Hx Hn Hne Hknown Hrep.
  destruct (reachable_head_nodes w c ns Hr Hc Hs Hx Hn) as (hid & cm & d & _ & Href & _ & _ & _ & Hsn).
  destruct (restore_staged_total_spec' e c w args ns Hr Hc Hs Hi Hx Hn Hne Hknown Hrep)
    as (w' & tr & H).
  exists hid, (flatten [] ns), w', tr. split; [exact Href|]. split; [exact Hsn | exact H].
Qed.

(* ---------- non-vacuity: the example world of RestoreFacts ---------- *)
Example rx_head_unique : nodes_unique rx_ns.
Proof.
  destruct (reachable_head_nodes_u rx_w1 rx_c rx_ns rx_reachable rx_coll rx_small rx_ctx rx_head)
    as (_ & _ & _ & _ & _ & Hu).
  exact Hu.
Qed.

Example rx_selection_exact' : forall args q,
  st_selected rx_w1 rx_ns args q <-> st_selected_spec rx_w1 (flatten [] rx_ns) args q.
Proof.
  intros args q.
  exact (st_selected_iff_reachable rx_w1 rx_c rx_ns args q rx_reachable rx_coll rx_small rx_ctx rx_head).
Qed.

(* ================================================================== *)
Print Assumptions group_unique.
Print Assumptions commit_tree_reads_u.
Print Assumptions run_cmd_emits_u.
Print Assumptions unique_step.
Print Assumptions reachable_unique.
Print Assumptions reachable_head_nodes_u.
Print Assumptions reachable_head_snapshot_u.
Print Assumptions head_dir_paths_complete_reachable.
Print Assumptions st_selected_iff_reachable.
Print Assumptions restore_staged_total_spec'.
Print Assumptions restore_staged_total_snapshot.
Print Assumptions rx_head_unique.
Print Assumptions rx_selection_exact'.
