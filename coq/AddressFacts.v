(* AddressFacts.v — C06, second sentence, at HISTORY level:

     "Consequently every tracked path is found when named to `add`, `rm` or
      `restore`, a name is treated as a tracked directory if and only if some
      tracked path lies beneath `<name>/`, and a directory operation selects
      exactly the tracked paths beneath that directory, never a path that
      merely contains the name (such as `ad/x` or `d-old` for `d`)."

   Everything below is stated for a world [w] with
        Reachable w,  w_coll w = false,  SmallStore (w_objs w)
   (every history of commands — accepted or refused — and of user edits that
   write valid paths; no flagged SHA-1 collision; no object of 8 EiB or more).
   The only thing taken from these hypotheses is [Canonical (idx_of w)]
   (SnapshotFacts.staging_area_sorted); each history-level theorem has a twin
   that asks for [Canonical (idx_of w)] directly.

   (A1) tracked_path_found ............ a listed path is found by the binary
        search, which never runs out of the fuel it is given;
   (A2) tracked_dir_iff, under_dir_shape and the two shapes `ad/x`, `d-old`;
   (A3) dir_selects_exactly ........... what a directory operation iterates on;
   (A4) *_validation: the validation step of `rm`, `restore`, `restore
        --staged` and `add`, as an EQUATION on the command (valid: the command
        is its processing loop; not valid: [Err], state untouched), and who
        passes it.  (Before the repair of `add`, a tracked directory that is
        gone from disk was refused by `add` although `rm` and `restore` took
        the same name; now it is accepted and every tracked path beneath it is
        unstaged: see [add_dir_gone_accepted].) *)
From Coq Require Import Strings.String Strings.Byte.
From Coq Require Import List Bool NArith ZArith Arith Lia Sorted.
From Goit Require Import Bytes Sha1 Obj Tree Index Regex GoRegex Commit Reflog Config Ignore World Repo.
From Goit Require Import BytesFacts ObjFacts IndexFacts TreeFacts MonadFacts Inv.
From Goit Require Import BranchFacts ExactFacts SnapshotFacts.
Import ListNotations.

Arguments sha1 : simpl never.
Ltac Zify.zify_post_hook ::= Z.div_mod_to_equations.

(* ====================================================================== *)
(** * 0. The one fact taken from the history *)

Lemma reach_canonical : forall w,
  Reachable w -> w_coll w = false -> SmallStore (w_objs w) -> Canonical (idx_of w).
Proof.
  intros w Hr Hc Hs. destruct (staging_area_sorted w Hr Hc Hs) as [Hcan _]. exact Hcan.
Qed.

(* "p is a tracked path": p is the path of an entry of the staging area *)
Definition listed (w : world) (p : bytes) : Prop := In p (paths (idx_of w)).

(* ====================================================================== *)
(** * A1. Every tracked path is found; the fuel is never the reason for "absent" *)

(* The result of the binary search does not depend on the fuel as soon as the
   fuel exceeds the width of the window: a [None] is never "out of fuel".
   (No order hypothesis: this is about termination only.) *)
Lemma bsearch_fuel_indep : forall (f1 f2 : nat) (es : list entry) (p : bytes) (l r : nat),
  r - l < f1 -> r - l < f2 -> bsearch f1 es p l r = bsearch f2 es p l r.
Proof.
  induction f1 as [|f1 IH]; intros f2 es p l r H1 H2.
  - lia.
  - destruct f2 as [|f2]; [lia|].
    cbn [bsearch].
    set (m := Nat.div (l + r) 2).
    assert (Hm : l < r -> l <= m /\ m < r) by (intro Hlr; unfold m; lia).
    destruct (nth_error es m) as [em|]; [|reflexivity].
    destruct (bytes_eqb (e_path em) p); [reflexivity|].
    destruct (blt (e_path em) p).
    + destruct (Nat.ltb (S m) r) eqn:Hrange; [|reflexivity].
      apply Nat.ltb_lt in Hrange.
      assert (Hlr : l < r) by (unfold m in Hrange; lia).
      apply IH; lia.
    + destruct (Nat.ltb l m) eqn:Hrange; [|reflexivity].
      apply Nat.ltb_lt in Hrange.
      assert (Hlr : l < r) by (unfold m in Hrange; lia).
      apply IH; lia.
Qed.

(* [get_entry] gives [S (length es)] units of fuel: any larger amount gives the
   same answer *)
Theorem get_entry_fuel_enough : forall (es : list entry) (p : bytes) (fuel : nat),
  es <> [] -> length es < fuel ->
  bsearch fuel es p 0 (length es) = get_entry es p.
Proof.
  intros es p fuel Hne Hf. unfold get_entry. destruct es as [|x es]; [contradiction Hne; reflexivity|].
  apply bsearch_fuel_indep; lia.
Qed.

(* boolean view and list view of "tracked" agree on a canonical staging area *)
Lemma tracked_listed_canonical : forall w p, Canonical (idx_of w) ->
  (tracked w p = true <-> listed w p).
Proof.
  intros w p Hc. unfold tracked, listed. split.
  - intro Ht. destruct (get_entry (idx_of w) p) as [[i e]|] eqn:Hg; [|discriminate Ht].
    destruct (get_entry_sound _ _ _ _ Hg) as [Hnth Hp].
    apply in_paths_iff. exists e. split; [apply (nth_error_In _ _ Hnth) | exact Hp].
  - intro Hin. apply in_paths_iff in Hin.
    destruct (get_entry_complete (idx_of w) p Hc Hin) as [i [e Hg]]. rewrite Hg. reflexivity.
Qed.

Lemma tracked_found_canonical : forall w p, Canonical (idx_of w) ->
  (listed w p <->
   exists i e, get_entry (idx_of w) p = Some (i, e) /\ nth_error (idx_of w) i = Some e /\ e_path e = p).
Proof.
  intros w p Hc. split.
  - intro Hin. apply in_paths_iff in Hin.
    destruct (get_entry_complete (idx_of w) p Hc Hin) as [i [e Hg]].
    destruct (get_entry_sound _ _ _ _ Hg) as [Hnth Hp].
    exists i, e. split; [exact Hg|]. split; [exact Hnth | exact Hp].
  - intros [i [e (Hg & Hnth & Hp)]]. apply in_paths_iff. exists e.
    split; [apply (nth_error_In _ _ Hnth) | exact Hp].
Qed.

(* (A1) *)
Theorem tracked_path_found : forall w p,
  Reachable w -> w_coll w = false -> SmallStore (w_objs w) ->
  (* the look-up the commands use answers "tracked" exactly for the listed paths *)
  (tracked w p = true <-> listed w p) /\
  (* and then returns the position and the entry of that very path *)
  (tracked w p = true <->
   exists i e, get_entry (idx_of w) p = Some (i, e) /\ nth_error (idx_of w) i = Some e /\ e_path e = p) /\
  (* with any larger amount of fuel the search answers the same *)
  (forall fuel, idx_of w <> [] -> length (idx_of w) < fuel ->
     bsearch fuel (idx_of w) p 0 (length (idx_of w)) = get_entry (idx_of w) p).
Proof.
  intros w p Hr Hc Hs. pose proof (reach_canonical w Hr Hc Hs) as Hcan.
  split; [apply tracked_listed_canonical; exact Hcan|]. split.
  - rewrite (tracked_listed_canonical w p Hcan). apply tracked_found_canonical. exact Hcan.
  - intros fuel Hne Hf. apply get_entry_fuel_enough; assumption.
Qed.

(* the statement in the shape asked for *)
Corollary tracked_path_found_entry : forall w p,
  Reachable w -> w_coll w = false -> SmallStore (w_objs w) ->
  (tracked w p = true <-> exists i e, get_entry (idx_of w) p = Some (i, e) /\ e_path e = p).
Proof.
  intros w p Hr Hc Hs. split.
  - intro Ht. apply (proj1 (proj2 (tracked_path_found w p Hr Hc Hs))) in Ht.
    destruct Ht as [i [e (Hg & _ & Hp)]]. exists i, e. split; assumption.
  - intros [i [e [Hg _]]]. unfold tracked. rewrite Hg. reflexivity.
Qed.

(* the entry found is the only entry with that path *)
Corollary tracked_entry_unique : forall w p e,
  Reachable w -> w_coll w = false -> SmallStore (w_objs w) ->
  ((exists i, get_entry (idx_of w) p = Some (i, e)) <-> In e (idx_of w) /\ e_path e = p).
Proof.
  intros w p e Hr Hc Hs. apply get_entry_some_iff. apply (reach_canonical w Hr Hc Hs).
Qed.

(* ====================================================================== *)
(** * A2. A name is a tracked directory iff a tracked path lies beneath "<name>/" *)

Lemma tracked_dir_iff_canonical : forall w d, Canonical (idx_of w) ->
  (is_dir (idx_of w) d = true <-> exists p, tracked w p = true /\ under_dir d p = true).
Proof.
  intros w d Hc. rewrite is_dir_iff. split.
  - intros [e [Hin Hu]]. exists (e_path e). split; [|exact Hu].
    apply (tracked_listed_canonical w _ Hc). apply in_paths_iff. exists e. split; [exact Hin | reflexivity].
  - intros [p [Ht Hu]]. apply (tracked_listed_canonical w p Hc) in Ht. apply in_paths_iff in Ht.
    destruct Ht as [e [Hin Hp]]. exists e. split; [exact Hin|]. rewrite Hp. exact Hu.
Qed.

(* (A2) *)
Theorem tracked_dir_iff : forall w d,
  Reachable w -> w_coll w = false -> SmallStore (w_objs w) ->
  (is_dir (idx_of w) d = true <-> exists p, tracked w p = true /\ under_dir d p = true).
Proof. intros w d Hr Hc Hs. apply tracked_dir_iff_canonical. apply (reach_canonical w Hr Hc Hs). Qed.

(* "beneath <d>/": the path is d, one slash, and a non-empty remainder *)
Theorem under_dir_shape : forall d p : bytes,
  d <> [x2e] ->
  (under_dir d p = true <-> exists rest, rest <> [] /\ p = d ++ [c_slash] ++ rest).
Proof. exact under_dir_spec. Qed.

(* "." stands for the whole work tree *)
Theorem under_dot_everything : forall p : bytes, under_dir [x2e] p = true <-> p <> [].
Proof. exact under_dir_dot. Qed.

(* shape `d-old`: the name followed by anything but a slash *)
Corollary longer_name_not_beneath : forall (d : bytes) (c : byte) (rest : bytes),
  d <> [x2e] -> c <> c_slash -> under_dir d (d ++ c :: rest) = false.
Proof.
  intros d c rest Hd Hc. destruct (under_dir d (d ++ c :: rest)) eqn:Hu; [|reflexivity].
  exfalso. apply (under_dir_spec d _ Hd) in Hu. destruct Hu as [rest' [_ Heq]].
  apply app_inv_head in Heq. cbn [app] in Heq. injection Heq as Hcc _. contradiction.
Qed.

(* the name itself, and the name with a bare slash, are not beneath the name *)
Corollary name_itself_not_beneath : forall d : bytes,
  d <> [x2e] -> under_dir d d = false /\ under_dir d (d ++ [c_slash]) = false.
Proof.
  intros d Hd. split.
  - destruct (under_dir d d) eqn:Hu; [|reflexivity]. exfalso.
    apply (under_dir_spec d _ Hd) in Hu. destruct Hu as [rest [_ Heq]].
    apply (f_equal (@length byte)) in Heq. rewrite !app_length in Heq. cbn [length] in Heq. lia.
  - destruct (under_dir d (d ++ [c_slash])) eqn:Hu; [|reflexivity]. exfalso.
    apply (under_dir_spec d _ Hd) in Hu. destruct Hu as [rest [Hne Heq]].
    apply app_inv_head in Heq. cbn [app] in Heq. injection Heq as Heq. symmetry in Heq. contradiction.
Qed.

(* the first slash of a string is where it is *)
Lemma first_slash_unique : forall (a b x y : bytes),
  ~ In c_slash a -> ~ In c_slash b -> a ++ c_slash :: x = b ++ c_slash :: y -> a = b.
Proof.
  induction a as [|c a IH]; intros b x y Ha Hb Heq.
  - destruct b as [|c' b]; [reflexivity|]. cbn [app] in Heq. injection Heq as Hc _.
    exfalso. apply Hb. left. symmetry. exact Hc.
  - destruct b as [|c' b].
    + cbn [app] in Heq. injection Heq as Hc _. exfalso. apply Ha. left. exact Hc.
    + cbn [app] in Heq. injection Heq as Hc Hrest. subst c'. f_equal.
      apply (IH b x y); [| | exact Hrest].
      * intro Hin. apply Ha. right. exact Hin.
      * intro Hin. apply Hb. right. exact Hin.
Qed.

(* shape `ad/x`: something slash-free in front of the (slash-free) name *)
Corollary prefixed_name_not_beneath : forall (pre d rest : bytes),
  d <> [x2e] -> pre <> [] -> ~ In c_slash pre -> ~ In c_slash d ->
  under_dir d (pre ++ d ++ c_slash :: rest) = false.
Proof.
  intros pre d rest Hd Hpre Hnp Hnd.
  destruct (under_dir d (pre ++ d ++ c_slash :: rest)) eqn:Hu; [|reflexivity].
  exfalso. apply (under_dir_spec d _ Hd) in Hu. destruct Hu as [rest' [_ Heq]].
  rewrite app_assoc in Heq. cbn [app] in Heq.
  assert (Hab : pre ++ d = d).
  { apply (first_slash_unique (pre ++ d) d rest rest'); [| exact Hnd | exact Heq].
    intro Hin. apply in_app_or in Hin. destruct Hin as [Hin|Hin]; [apply Hnp | apply Hnd]; exact Hin. }
  apply (f_equal (@length byte)) in Hab. rewrite app_length in Hab.
  destruct pre as [|c pre]; [contradiction Hpre; reflexivity|]. cbn [length] in Hab. lia.
Qed.

(* in a nested name the same holds component-wise: whatever is glued in front
   of the LAST component of the name *)
Corollary sibling_prefix_not_beneath : forall (up pre d rest : bytes),
  pre <> [] -> ~ In c_slash pre -> ~ In c_slash d -> d <> [] ->
  under_dir (up ++ c_slash :: d) (up ++ c_slash :: pre ++ d ++ c_slash :: rest) = false.
Proof.
  intros up pre d rest Hpre Hnp Hnd Hdne.
  assert (Hname : up ++ c_slash :: d <> [x2e]).
  { intro Heq. destruct up as [|u up]; cbn [app] in Heq.
    - injection Heq as Hc _. discriminate Hc.
    - injection Heq as _ Hrest. destruct up; discriminate Hrest. }
  destruct (under_dir (up ++ c_slash :: d) (up ++ c_slash :: pre ++ d ++ c_slash :: rest)) eqn:Hu; [|reflexivity].
  exfalso. apply (under_dir_spec _ _ Hname) in Hu. destruct Hu as [rest' [_ Heq]].
  rewrite <- app_assoc in Heq. apply app_inv_head in Heq. cbn [app] in Heq.
  injection Heq as Heq. rewrite app_assoc in Heq.
  assert (Hab : pre ++ d = d).
  { apply (first_slash_unique (pre ++ d) d rest rest'); [| exact Hnd | exact Heq].
    intro Hin. apply in_app_or in Hin. destruct Hin as [Hin|Hin]; [apply Hnp | apply Hnd]; exact Hin. }
  apply (f_equal (@length byte)) in Hab. rewrite app_length in Hab.
  destruct pre as [|c pre]; [contradiction Hpre; reflexivity|]. cbn [length] in Hab. lia.
Qed.

(* the two names of the property text, and two more around the byte order of '/' *)
Example ad_x_is_not_beneath_d : under_dir (str "d") (str "ad/x") = false.
Proof. exact (prefixed_name_not_beneath (str "a") (str "d") (str "x") ltac:(discriminate) ltac:(discriminate)
               ltac:(cbn; intuition discriminate) ltac:(cbn; intuition discriminate)). Qed.
Example d_old_is_not_beneath_d : under_dir (str "d") (str "d-old") = false.
Proof. exact (longer_name_not_beneath (str "d") "-"%byte (str "old") ltac:(discriminate) ltac:(discriminate)). Qed.
Example d_c_y_is_not_beneath_d : under_dir (str "d") (str "d.c/y") = false.
Proof. exact (longer_name_not_beneath (str "d") "."%byte (str "c/y") ltac:(discriminate) ltac:(discriminate)). Qed.
Example d_x_is_beneath_d : under_dir (str "d") (str "d/x") = true.
Proof. reflexivity. Qed.

(* ====================================================================== *)
(** * A3. A directory operation selects exactly the tracked paths beneath it *)

Lemma dir_selects_exactly_canonical : forall w d, Canonical (idx_of w) ->
  (forall e, In e (entries_by_dir (idx_of w) d) <-> In e (idx_of w) /\ under_dir d (e_path e) = true) /\
  (forall q, In q (map e_path (entries_by_dir (idx_of w) d)) <-> tracked w q = true /\ under_dir d q = true) /\
  Canonical (entries_by_dir (idx_of w) d) /\
  NoDup (entries_by_dir (idx_of w) d) /\
  NoDup (map e_path (entries_by_dir (idx_of w) d)).
Proof.
  intros w d Hc. split; [intro e; apply entries_by_dir_exact|]. split.
  - intro q. rewrite (dir_targets_iff (idx_of w) d q Hc). rewrite stg_tracked, staged_stg.
    destruct (stg (idx_of w) q) as [i|]; split; intros [H1 H2]; split; try assumption;
      try discriminate; try reflexivity. contradiction H1. reflexivity.
  - pose proof (entries_by_dir_canonical (idx_of w) d Hc) as Hcd.
    split; [exact Hcd|]. pose proof (Canonical_NoDup_paths _ Hcd) as Hnd. unfold paths in Hnd.
    split; [|exact Hnd]. apply (NoDup_map_inv e_path). exact Hnd.
Qed.

(* (A3) *)
Theorem dir_selects_exactly : forall w d,
  Reachable w -> w_coll w = false -> SmallStore (w_objs w) ->
  (* exactly the entries whose path is beneath <d>/ ... *)
  (forall e, In e (entries_by_dir (idx_of w) d) <-> In e (idx_of w) /\ under_dir d (e_path e) = true) /\
  (* ... i.e. the list of paths `rm d` and `restore d` loop over is exactly the tracked paths beneath <d>/ ... *)
  (forall q, In q (map e_path (entries_by_dir (idx_of w) d)) <-> tracked w q = true /\ under_dir d q = true) /\
  (* ... in the order of the staging area (strictly ascending paths) ... *)
  Canonical (entries_by_dir (idx_of w) d) /\
  (* ... each once *)
  NoDup (entries_by_dir (idx_of w) d) /\
  NoDup (map e_path (entries_by_dir (idx_of w) d)).
Proof. intros w d Hr Hc Hs. apply dir_selects_exactly_canonical. apply (reach_canonical w Hr Hc Hs). Qed.

(* "in index order", literally: the selection is the staging area with the other entries struck out *)
Inductive sublist {A : Type} : list A -> list A -> Prop :=
| sub_nil : sublist [] []
| sub_keep : forall x l1 l2, sublist l1 l2 -> sublist (x :: l1) (x :: l2)
| sub_skip : forall x l1 l2, sublist l1 l2 -> sublist l1 (x :: l2).

Theorem dir_selection_in_index_order : forall es d, sublist (entries_by_dir es d) es.
Proof.
  intros es d. unfold entries_by_dir. induction es as [|a r IH]; cbn [filter].
  - constructor.
  - destruct (under_dir d (e_path a)); [apply sub_keep | apply sub_skip]; exact IH.
Qed.

(* never a path that merely contains the name *)
Corollary dir_never_selects_lookalikes : forall w (d : bytes) e,
  d <> [x2e] -> In e (entries_by_dir (idx_of w) d) ->
  (forall c rest, c <> c_slash -> e_path e <> d ++ c :: rest) /\
  (forall pre rest, pre <> [] -> ~ In c_slash pre -> ~ In c_slash d -> e_path e <> pre ++ d ++ c_slash :: rest) /\
  e_path e <> d.
Proof.
  intros w d e Hd Hin. apply entries_by_dir_exact in Hin. destruct Hin as [_ Hu]. split; [|split].
  - intros c rest Hc Heq. rewrite Heq, (longer_name_not_beneath d c rest Hd Hc) in Hu. discriminate Hu.
  - intros pre rest Hpre Hnp Hnd Heq.
    rewrite Heq, (prefixed_name_not_beneath pre d rest Hd Hpre Hnp Hnd) in Hu. discriminate Hu.
  - intro Heq. rewrite Heq, (proj1 (name_itself_not_beneath d Hd)) in Hu. discriminate Hu.
Qed.

(* ====================================================================== *)
(** * A4. The validation step of `rm`, `restore`, `restore --staged`, `add` *)

(* Each command first checks every argument and only then starts to work.
   The four theorems [cmd_*_validation] are EQUATIONS on the command as a
   state function (any trace so far, any fault setting): when the check
   passes the command IS its processing loop; when it does not the command
   answers [Err] and hands back the very state it was given (world, trace and
   fault counter untouched — the "did not match" refusal). *)

Lemma bind_eq : forall A B (m : M A) (f : A -> M B) s r s1,
  m s = (r, s1) ->
  bind m f s = match r with Ok a => f a s1 | Err => (Err, s1) | Panic => (Panic, s1) end.
Proof. intros A B m f s r s1 Hm. unfold bind. rewrite Hm. destruct r; reflexivity. Qed.

Lemma is_nil_map : forall A B (f : A -> B) l, is_nil (map f l) = is_nil l.
Proof. intros A B f l. destruct l; reflexivity. Qed.

Lemma is_nil_app : forall A (l1 l2 : list A), is_nil (l1 ++ l2) = is_nil l1 && is_nil l2.
Proof. intros A l1 l2. destruct l1; reflexivity. Qed.

Lemma is_nil_rev : forall A (l : list A), is_nil (rev l) = is_nil l.
Proof.
  intros A l. destruct l as [|x l]; [reflexivity|]. cbn [rev is_nil].
  destruct (rev l ++ [x]) eqn:E; [|reflexivity]. apply app_eq_nil in E. destruct E as [_ E]. discriminate E.
Qed.

Lemma is_nil_dedup : forall l, is_nil (dedup l) = is_nil l.
Proof.
  induction l as [|x r IH]; [reflexivity|]. cbn [dedup is_nil].
  destruct (set_mem r x) eqn:Hm; [|reflexivity].
  rewrite IH. destruct r as [|y r]; [discriminate Hm | reflexivity].
Qed.

Lemma is_nil_dedup_first : forall l, is_nil (dedup_first l) = is_nil l.
Proof. intro l. unfold dedup_first. rewrite is_nil_rev, is_nil_dedup, is_nil_rev. reflexivity. Qed.

(* ---------- rm ---------- *)
(* what `rm` asks of a name: a tracked path, or a tracked directory *)
Definition rm_valid (w : world) (a : bytes) : bool := tracked w a || is_dir (idx_of w) a.

Theorem cmd_rm_validation : forall args s,
  cmd_rm args s =
  if forallb (rm_valid (ms_w s)) args then (iterM rm_body args ;;; ret []) s else (Err, s).
Proof. intros args s. rewrite cmd_rm_uses_body. ev. reflexivity. Qed.

(* once past the check, a tracked path is handled as itself, any other name as
   the list of the tracked paths beneath it *)
Lemma rm_body_eq : forall a s,
  rm_body a s = if tracked (ms_w s) a then rm_one a s
                else iterM rm_one (map e_path (entries_by_dir (idx_of (ms_w s)) a)) s.
Proof. intros a s. unfold rm_body. ev. destruct (tracked (ms_w s) a); reflexivity. Qed.

(* ---------- restore (work tree) ---------- *)
Lemma restore_wd_target_valid : forall w a,
  negb (is_nil (restore_targets w false [] a)) = rm_valid w a.
Proof.
  intros w a. unfold restore_targets, rm_valid, is_dir.
  destruct (tracked w a); [reflexivity|]. rewrite is_nil_map. reflexivity.
Qed.

Lemma forallb_map_ext : forall A B (g : A -> B) (f : B -> bool) (h : A -> bool) l,
  (forall x, f (g x) = h x) -> forallb f (map g l) = forallb h l.
Proof.
  intros A B g f h l He. induction l as [|x r IH]; [reflexivity|].
  cbn [map forallb]. rewrite He, IH. reflexivity.
Qed.

Theorem cmd_restore_wd_validation : forall c args s,
  cmd_restore c false args s =
  if negb (is_nil args) && forallb (rm_valid (ms_w s)) args
  then (iterM restore_wd (wd_targets (ms_w s) args) ;;; ret []) s else (Err, s).
Proof.
  intros c args s. rewrite cmd_restore_wd_flat. unfold restore_wd_flat. ev.
  destruct (negb (is_nil args)); [|reflexivity]. cbn [andb]. ev.
  rewrite (forallb_map_ext _ _ (restore_targets (ms_w s) false []) _ (rm_valid (ms_w s)) args
             (restore_wd_target_valid (ms_w s))).
  reflexivity.
Qed.

(* what a work-tree restore then loops over *)
Lemma wd_targets_one : forall w a,
  wd_targets w [a] = if tracked w a then [a] else map e_path (entries_by_dir (idx_of w) a).
Proof.
  intros w a. unfold wd_targets, restore_targets. cbn [map concat]. rewrite app_nil_r. reflexivity.
Qed.

(* ---------- restore --staged ---------- *)
(* HEAD's snapshot supplies the name: as a file, or as a directory holding a file *)
Definition head_file (ns : list node) (a : bytes) : bool :=
  match leaf_node ns a with Some _ => true | None => false end.
(* the root of the snapshot is not a node: "." names it, and every file of the
   snapshot lies beneath it *)
Definition head_dir (ns : list node) (a : bytes) : bool :=
  (bytes_eqb a [x2e] && negb (is_nil (flatten [] ns))) ||
  match get_node ns a with
  | Some n => if is_leaf n then false else negb (is_nil (flatten_node (dirname a) n))
  | None => false
  end.
Definition restore_idx_valid (w : world) (ns : list node) (a : bytes) : bool :=
  rm_valid w a || head_file ns a || head_dir ns a.

Lemma restore_idx_target_valid : forall w ns a,
  negb (is_nil (restore_targets w true ns a)) = restore_idx_valid w ns a.
Proof.
  intros w ns a. unfold restore_targets, restore_idx_valid, rm_valid, head_file, head_dir, is_dir, leaf_node.
  destruct (tracked w a); [reflexivity|]. cbn [orb].
  assert (Hdot : negb (is_nil (if bytes_eqb a [x2e] then map e_path (flatten [] ns) else []))
                 = bytes_eqb a [x2e] && negb (is_nil (flatten [] ns))).
  { destruct (bytes_eqb a [x2e]); [rewrite is_nil_map; reflexivity | reflexivity]. }
  destruct (get_node ns a) as [n|].
  - destruct (is_leaf n).
    + cbn [is_nil negb]. rewrite !orb_true_r. reflexivity.
    + rewrite is_nil_dedup_first, !is_nil_app, !negb_andb, Hdot, !is_nil_map, !orb_false_r. reflexivity.
  - rewrite is_nil_dedup_first, !is_nil_app, !negb_andb, Hdot, !is_nil_map. cbn [is_nil negb].
    rewrite !orb_false_r. reflexivity.
Qed.

(* loading HEAD's snapshot reads only *)
Lemma head_nodes_eq : forall c s,
  (match x_headc c with None => fail | Some _ => head_tree_nodes c end) s =
  (match head_nodes c (ms_w s) with Some ns => Ok ns | None => Err end, s).
Proof.
  intros c s. unfold head_tree_nodes, head_nodes. destruct (x_headc c) as [[hid cm]|]; [|reflexivity].
  ev. destruct (get_kind (w_objs (ms_w s)) KTree (c_tree cm)) as [d|]; [|reflexivity].
  destruct (walk_tree (S (length (w_objs (ms_w s)))) (w_objs (ms_w s)) d); reflexivity.
Qed.

Theorem cmd_restore_idx_validation : forall c args s,
  cmd_restore c true args s =
  if negb (is_nil args) && am_mem (w_refs (ms_w s)) (w_head (ms_w s)) then
    match head_nodes c (ms_w s) with
    | Some ns =>
        if forallb (restore_idx_valid (ms_w s) ns) args
        then (iterM (restore_index ns) (idx_targets (ms_w s) ns args) ;;; ret []) s else (Err, s)
    | None => (Err, s)
    end
  else (Err, s).
Proof.
  intros c args s. rewrite cmd_restore_idx_flat. unfold restore_idx_flat. ev.
  destruct (negb (is_nil args)); [|reflexivity]. cbn [andb]. ev.
  destruct (am_mem (w_refs (ms_w s)) (w_head (ms_w s))); [|reflexivity].
  rewrite (bind_eq _ _ _ _ _ _ _ (head_nodes_eq c s)).
  destruct (head_nodes c (ms_w s)) as [ns|]; [|reflexivity]. ev.
  rewrite (forallb_map_ext _ _ (restore_targets (ms_w s) true ns) _ (restore_idx_valid (ms_w s) ns) args
             (restore_idx_target_valid (ms_w s) ns)).
  reflexivity.
Qed.

Lemma head_file_iff : forall ns a, head_file ns a = true <-> exists n, leaf_node ns a = Some n.
Proof.
  intros ns a. unfold head_file. destruct (leaf_node ns a) as [n|]; split.
  - intros _. exists n. reflexivity.
  - reflexivity.
  - discriminate.
  - intros [n Hn]. discriminate Hn.
Qed.

Lemma head_dir_iff : forall ns a,
  head_dir ns a = true <->
  (a = [x2e] /\ flatten [] ns <> []) \/
  exists n, get_node ns a = Some n /\ is_leaf n = false /\ flatten_node (dirname a) n <> [].
Proof.
  intros ns a. unfold head_dir. rewrite orb_true_iff, andb_true_iff.
  assert (Hnil : forall (l : list entry), negb (is_nil l) = true <-> l <> []).
  { intro l. destruct l; cbn [is_nil negb]; split; intro H;
      [discriminate H | contradiction H; reflexivity | discriminate | reflexivity]. }
  rewrite Hnil, bytes_eqb_eq.
  apply or_iff_compat_l.
  destruct (get_node ns a) as [n|]; split.
  - intro H. exists n. destruct (is_leaf n); [discriminate H|]. split; [reflexivity|]. split; [reflexivity|].
    apply Hnil. exact H.
  - intros [n' (Hn & Hl & Hf)]. injection Hn as <-. rewrite Hl. apply Hnil. exact Hf.
  - discriminate.
  - intros [n' (Hn & _)]. discriminate Hn.
Qed.

(* "." is accepted by `restore --staged` as soon as HEAD's snapshot holds a file *)
Lemma head_dir_dot : forall ns, flatten [] ns <> [] -> head_dir ns [x2e] = true.
Proof. intros ns H. apply head_dir_iff. left. split; [reflexivity | exact H]. Qed.

(* ---------- add ---------- *)
(* what `add` asks of a name: it exists on disk (file or directory), or it is
   a tracked path (whose file is gone: the deletion gets staged), or it is a
   tracked directory (which is gone: the deletion of every tracked path beneath
   it gets staged) *)
Definition add_valid (w : world) (a : bytes) : bool :=
  exists_on_disk w a || tracked w a || is_dir (idx_of w) a.

(* that is: on disk, or what `rm` and `restore` ask *)
Lemma add_valid_rm_valid : forall w a, add_valid w a = exists_on_disk w a || rm_valid w a.
Proof. intros w a. unfold add_valid, rm_valid. rewrite orb_assoc. reflexivity. Qed.

Theorem cmd_add_validation : forall c args s,
  cmd_add c args s =
  if negb (is_nil args) && forallb (add_valid (ms_w s)) args
  then (iterM (add_arg c) args ;;; ret []) s else (Err, s).
Proof.
  intros c args s. rewrite cmd_add_uses_arg. ev.
  destruct (negb (is_nil args)); [|reflexivity]. cbn [andb]. ev. reflexivity.
Qed.

(* ---------- who passes ---------- *)
Lemma rm_valid_iff_canonical : forall w a, Canonical (idx_of w) ->
  (rm_valid w a = true <-> listed w a \/ exists p, listed w p /\ under_dir a p = true).
Proof.
  intros w a Hc. unfold rm_valid. rewrite orb_true_iff.
  rewrite (tracked_listed_canonical w a Hc), (tracked_dir_iff_canonical w a Hc). split.
  - intros [H|[p [Ht Hu]]]; [left; exact H | right]. exists p.
    split; [apply (tracked_listed_canonical w p Hc); exact Ht | exact Hu].
  - intros [H|[p [Hl Hu]]]; [left; exact H | right]. exists p.
    split; [apply (tracked_listed_canonical w p Hc); exact Hl | exact Hu].
Qed.

Lemma rm_valid_false_canonical : forall w a, Canonical (idx_of w) ->
  (rm_valid w a = false <-> ~ listed w a /\ forall p, listed w p -> under_dir a p = false).
Proof.
  intros w a Hc. split.
  - intro Hf. split.
    + intro Hl. rewrite (proj2 (rm_valid_iff_canonical w a Hc) (or_introl Hl)) in Hf. discriminate Hf.
    + intros p Hl. destruct (under_dir a p) eqn:Hu; [|reflexivity].
      rewrite (proj2 (rm_valid_iff_canonical w a Hc) (or_intror (ex_intro _ p (conj Hl Hu)))) in Hf.
      discriminate Hf.
  - intros [Hn Hall]. destruct (rm_valid w a) eqn:Hv; [|reflexivity]. exfalso.
    apply (rm_valid_iff_canonical w a Hc) in Hv. destruct Hv as [Hl|[p [Hl Hu]]].
    + exact (Hn Hl).
    + rewrite (Hall p Hl) in Hu. discriminate Hu.
Qed.

(* the name of a tracked path, or of a directory above a tracked path *)
Definition names_tracked (w : world) (a : bytes) : Prop :=
  listed w a \/ exists p, listed w p /\ under_dir a p = true.

Theorem rm_valid_iff : forall w a,
  Reachable w -> w_coll w = false -> SmallStore (w_objs w) ->
  (rm_valid w a = true <-> names_tracked w a).
Proof. intros w a Hr Hc Hs. apply rm_valid_iff_canonical. apply (reach_canonical w Hr Hc Hs). Qed.

(* (A4), positive half.  On every reachable world, for the name [a] of a
   tracked path or of a tracked directory:
   - `rm a` and `restore a` pass validation, unconditionally;
   - `restore --staged a` passes validation as soon as HEAD's snapshot loads
     (the command needs a commit on the current branch whatever the name);
   - `add a` passes validation, unconditionally as well (a tracked DIRECTORY
     that no longer exists on disk included: [add_dir_gone_accepted] below). *)
Theorem named_tracked_is_never_refused_at_validation : forall w a,
  Reachable w -> w_coll w = false -> SmallStore (w_objs w) ->
  names_tracked w a ->
  forall s, ms_w s = w ->
    cmd_rm [a] s = (iterM rm_body [a] ;;; ret []) s /\
    (forall c, cmd_restore c false [a] s = (iterM restore_wd (wd_targets w [a]) ;;; ret []) s) /\
    (forall c ns, am_mem (w_refs w) (w_head w) = true -> head_nodes c w = Some ns ->
       cmd_restore c true [a] s = (iterM (restore_index ns) (idx_targets w ns [a]) ;;; ret []) s) /\
    (forall c, cmd_add c [a] s = (iterM (add_arg c) [a] ;;; ret []) s).
Proof.
  intros w a Hr Hc Hs Hn s Hw. pose proof (reach_canonical w Hr Hc Hs) as Hcan.
  pose proof (proj2 (rm_valid_iff_canonical w a Hcan) Hn) as Hv.
  split; [|split; [|split]].
  - rewrite cmd_rm_validation, Hw. cbn [forallb]. rewrite Hv. reflexivity.
  - intro c. rewrite cmd_restore_wd_validation, Hw. cbn [forallb is_nil negb andb]. rewrite Hv. reflexivity.
  - intros c ns Hb Hh. rewrite cmd_restore_idx_validation, Hw, Hb, Hh. cbn [forallb is_nil negb andb].
    unfold restore_idx_valid. rewrite Hv. reflexivity.
  - intros c. rewrite cmd_add_validation, Hw. cbn [forallb is_nil negb andb].
    rewrite add_valid_rm_valid, Hv, orb_true_r. reflexivity.
Qed.

(* for `restore --staged`, HEAD's snapshot may supply the name as well *)
Theorem head_name_passes_restore_staged : forall w a c ns s,
  ms_w s = w -> am_mem (w_refs w) (w_head w) = true -> head_nodes c w = Some ns ->
  head_file ns a = true \/ head_dir ns a = true ->
  cmd_restore c true [a] s = (iterM (restore_index ns) (idx_targets w ns [a]) ;;; ret []) s.
Proof.
  intros w a c ns s Hw Hb Hh Hor. rewrite cmd_restore_idx_validation, Hw, Hb, Hh.
  cbn [forallb is_nil negb andb]. unfold restore_idx_valid.
  destruct Hor as [H|H]; rewrite H; rewrite ?orb_true_r; reflexivity.
Qed.

(* (A4), converse.  A name that is neither a tracked path nor above a tracked
   path — nor, for `add`, on disk; nor, for `restore --staged`, in HEAD's
   snapshot — is refused: [Err], same world, same trace, same fault counter. *)
Theorem unmatched_name_is_refused : forall w a,
  Reachable w -> w_coll w = false -> SmallStore (w_objs w) ->
  ~ listed w a -> (forall p, listed w p -> under_dir a p = false) ->
  forall s, ms_w s = w ->
    cmd_rm [a] s = (Err, s) /\
    (forall c, cmd_restore c false [a] s = (Err, s)) /\
    (forall c, (forall ns, head_nodes c w = Some ns -> head_file ns a = false /\ head_dir ns a = false) ->
       cmd_restore c true [a] s = (Err, s)) /\
    (forall c, exists_on_disk w a = false -> cmd_add c [a] s = (Err, s)).
Proof.
  intros w a Hr Hc Hs Hnl Hnu s Hw. pose proof (reach_canonical w Hr Hc Hs) as Hcan.
  pose proof (proj2 (rm_valid_false_canonical w a Hcan) (conj Hnl Hnu)) as Hv.
  split; [|split; [|split]].
  - rewrite cmd_rm_validation, Hw. cbn [forallb]. rewrite Hv. reflexivity.
  - intro c. rewrite cmd_restore_wd_validation, Hw. cbn [forallb is_nil negb andb]. rewrite Hv. reflexivity.
  - intros c Hh. rewrite cmd_restore_idx_validation, Hw. cbn [is_nil negb andb].
    destruct (am_mem (w_refs w) (w_head w)); [|reflexivity].
    destruct (head_nodes c w) as [ns|]; [|reflexivity].
    destruct (Hh ns eq_refl) as [Hf Hd]. cbn [forallb]. unfold restore_idx_valid. rewrite Hv, Hf, Hd. reflexivity.
  - intros c Hd. rewrite cmd_add_validation, Hw. cbn [forallb is_nil negb andb].
    rewrite add_valid_rm_valid, Hd, Hv. reflexivity.
Qed.

(* the same at the level of one step of a history: nothing at all happens *)
Lemma step_dispatch_refused : forall e c w,
  c <> CInit ->
  (forall x, ctx_of w = Some x -> dispatch e c x (mkMS w [] None) = (Err, mkMS w [] None)) ->
  step (ACmd e c) w = (w, OErr, []).
Proof.
  intros e c w Hc Hd. destruct (w_inited w) eqn:Hi.
  - destruct (ctx_of w) as [x|] eqn:Hx.
    + rewrite (step_loaded e c w x Hc Hi Hx), (Hd x eq_refl). reflexivity.
    + apply step_not_loaded; [exact Hc | right; exact Hx].
  - apply step_not_loaded; [exact Hc | left; exact Hi].
Qed.

Theorem unmatched_name_step_refused : forall w a e,
  Reachable w -> w_coll w = false -> SmallStore (w_objs w) ->
  ~ listed w a -> (forall p, listed w p -> under_dir a p = false) ->
  step (ACmd e (CRm [a])) w = (w, OErr, []) /\
  step (ACmd e (CRestore false [a])) w = (w, OErr, []) /\
  ((forall x ns, ctx_of w = Some x -> head_nodes x w = Some ns ->
                 head_file ns a = false /\ head_dir ns a = false) ->
   step (ACmd e (CRestore true [a])) w = (w, OErr, [])) /\
  (exists_on_disk w a = false -> step (ACmd e (CAdd [a])) w = (w, OErr, [])).
Proof.
  intros w a e Hr Hc Hs Hnl Hnu.
  destruct (unmatched_name_is_refused w a Hr Hc Hs Hnl Hnu (mkMS w [] None) eq_refl) as (H1 & H2 & H3 & H4).
  split; [|split; [|split]].
  - apply step_dispatch_refused; [discriminate|]. intros x _. cbn [dispatch]. exact H1.
  - apply step_dispatch_refused; [discriminate|]. intros x _. cbn [dispatch]. apply H2.
  - intro Hh. apply step_dispatch_refused; [discriminate|]. intros x Hx. cbn [dispatch]. apply H3.
    intros ns Hns. apply (Hh x ns Hx Hns).
  - intro Hd. apply step_dispatch_refused; [discriminate|]. intros x _. cbn [dispatch]. apply H4. exact Hd.
Qed.

(* ====================================================================== *)
(** * Non-vacuity: a history that tracks d/x, ad/x, d-old and d.c/y *)
Local Open Scope string_scope.

Definition af_env : env := mkEnv 1700000000 32400.
Definition af_hist : list action :=
  [ ACmd af_env CInit;
    ACmd af_env (CConfig false [str "user.name"; str "Ada L"]);
    ACmd af_env (CConfig false [str "user.email"; str "ada@example.com"]);
    AEdit (UWrite (str "d/x") (str "one"));
    AEdit (UWrite (str "ad/x") (str "two"));
    AEdit (UWrite (str "d-old") (str "three"));
    AEdit (UWrite (str "d.c/y") (str "four"));
    ACmd af_env (CAdd [str "."]) ].
Definition af_w : world := Eval vm_compute in run af_hist w_empty.
Lemma af_w_run : run af_hist w_empty = af_w.
Proof. vm_compute. reflexivity. Qed.

Lemma af_hist_ok : Forall action_ok af_hist.
Proof.
  unfold af_hist.
  repeat (apply Forall_cons || apply Forall_nil); cbn [action_ok edit_ok]; try exact Logic.I.
  all: unfold valid_path; simpl; tf_valid.
Qed.

Lemma af_reachable : Reachable af_w.
Proof. exists af_hist. split; [exact af_hist_ok | symmetry; exact af_w_run]. Qed.
Lemma af_coll : w_coll af_w = false.
Proof. vm_compute. reflexivity. Qed.
Lemma af_small : SmallStore (w_objs af_w).
Proof. apply small_store_b. vm_compute. reflexivity. Qed.

(* the staging area, in byte order ('-' < '.' < '/') *)
Example af_paths : paths (idx_of af_w) = [str "ad/x"; str "d-old"; str "d.c/y"; str "d/x"].
Proof. vm_compute. reflexivity. Qed.

(* the directory operation on [d] selects exactly d/x *)
Example af_d_selects : map e_path (entries_by_dir (idx_of af_w) (str "d")) = [str "d/x"].
Proof. vm_compute. reflexivity. Qed.

(* which names are tracked paths / tracked directories *)
Example af_names :
  map (fun a => (tracked af_w (str a), is_dir (idx_of af_w) (str a)))
      ["d"; "ad"; "d.c"; "d-old"; "d/x"; "d-"; "x"; "a"; "d/"; "."]
  = [(false, true); (false, true); (false, true); (true, false); (true, false);
     (false, false); (false, false); (false, false); (false, false); (false, true)].
Proof. vm_compute. reflexivity. Qed.

(* `rm d`: accepted; removes d/x and nothing else, from disk and from the staging area *)
Definition af_rm : world * outcome * list effect :=
  Eval vm_compute in step (ACmd af_env (CRm [str "d"])) af_w.
Example af_rm_d :
  step (ACmd af_env (CRm [str "d"])) af_w = af_rm /\
  snd (fst af_rm) = OOk [] /\
  paths (idx_of (fst (fst af_rm))) = [str "ad/x"; str "d-old"; str "d.c/y"] /\
  map fst (w_files (fst (fst af_rm))) = [str "ad/x"; str "d-old"; str "d.c/y"] /\
  filter (fun e => match e with ERemovePath _ => true | _ => false end) (snd af_rm) = [ERemovePath (str "d/x")].
Proof. vm_compute. repeat split. Qed.

(* `restore d` after the user deleted d/x and ad/x: only d/x comes back *)
Example af_restore_d :
  let w1 := run [AEdit (UDelete (str "d/x")); AEdit (UDelete (str "ad/x"))] af_w in
  let '(w2, o, tr) := step (ACmd af_env (CRestore false [str "d"])) w1 in
  o = OOk [] /\ map fst (w_files w2) = [str "d-old"; str "d.c/y"; str "d/x"] /\
  filter (fun e => match e with EWriteFile _ _ => true | _ => false end) tr = [EWriteFile (str "d/x") (str "one")].
Proof. vm_compute. repeat split. Qed.

(* names that match nothing are refused and nothing happens *)
Example af_unmatched_refused :
  step (ACmd af_env (CRm [str "x"])) af_w = (af_w, OErr, []) /\
  step (ACmd af_env (CRm [str "d-"])) af_w = (af_w, OErr, []) /\
  step (ACmd af_env (CRestore false [str "a"])) af_w = (af_w, OErr, []) /\
  step (ACmd af_env (CAdd [str "x"])) af_w = (af_w, OErr, []).
Proof. vm_compute. repeat split. Qed.

(* the theorems apply to this world: their hypotheses are jointly satisfiable *)
Example af_A1 : tracked af_w (str "d/x") = true <-> listed af_w (str "d/x").
Proof. exact (proj1 (tracked_path_found af_w (str "d/x") af_reachable af_coll af_small)). Qed.
Example af_A2 :
  is_dir (idx_of af_w) (str "d") = true <-> exists p, tracked af_w p = true /\ under_dir (str "d") p = true.
Proof. exact (tracked_dir_iff af_w (str "d") af_reachable af_coll af_small). Qed.
(* `rm d` / `restore d` loop over [d/x] and that is: every tracked path beneath d/, and no other *)
Example af_A3 : forall q, In q [str "d/x"] <-> tracked af_w q = true /\ under_dir (str "d") q = true.
Proof.
  intro q. rewrite <- af_d_selects.
  apply (proj1 (proj2 (dir_selects_exactly af_w (str "d") af_reachable af_coll af_small))).
Qed.

Lemma af_d_names_tracked : names_tracked af_w (str "d").
Proof. right. exists (str "d/x"). split; [vm_compute; tauto | vm_compute; reflexivity]. Qed.

Example af_A4 : forall s, ms_w s = af_w ->
  cmd_rm [str "d"] s = (iterM rm_body [str "d"] ;;; ret []) s /\
  (forall c, cmd_restore c false [str "d"] s = (iterM restore_wd (wd_targets af_w [str "d"]) ;;; ret []) s).
Proof.
  intros s Hs.
  destruct (named_tracked_is_never_refused_at_validation af_w (str "d") af_reachable af_coll af_small
              af_d_names_tracked s Hs) as (H1 & H2 & _).
  split; [exact H1 | exact H2].
Qed.

Lemma af_x_unmatched : ~ listed af_w (str "x") /\ forall p, listed af_w p -> under_dir (str "x") p = false.
Proof.
  split.
  - unfold listed. rewrite af_paths. intro H. repeat (destruct H as [H|H]; [discriminate H|]). exact H.
  - intros p Hp. unfold listed in Hp. rewrite af_paths in Hp.
    repeat (destruct Hp as [<-|Hp]; [vm_compute; reflexivity|]). contradiction Hp.
Qed.

Example af_A4_converse :
  step (ACmd af_env (CRm [str "x"])) af_w = (af_w, OErr, []) /\
  step (ACmd af_env (CRestore false [str "x"])) af_w = (af_w, OErr, []).
Proof.
  destruct (unmatched_name_step_refused af_w (str "x") af_env af_reachable af_coll af_small
              (proj1 af_x_unmatched) (proj2 af_x_unmatched)) as (H1 & H2 & _).
  split; [exact H1 | exact H2].
Qed.

(* ---------- `restore --staged`: HEAD's snapshot supplies the name ---------- *)
(* commit, then `rm d`: d/x is no longer tracked, [d] is no longer a tracked
   directory, but HEAD's snapshot still has both *)
Definition af_w2 : world :=
  Eval vm_compute in run [ACmd af_env (CCommit (str "first")); ACmd af_env (CRm [str "d"])] af_w.
Example af_staged_from_head :
  tracked af_w2 (str "d/x") = false /\ is_dir (idx_of af_w2) (str "d") = false /\
  (let '(w3, o, tr) := step (ACmd af_env (CRestore true [str "d"])) af_w2 in
   o = OOk [] /\ paths (idx_of w3) = [str "ad/x"; str "d-old"; str "d.c/y"; str "d/x"] /\ length tr = 1) /\
  (let '(w3, o, tr) := step (ACmd af_env (CRestore true [str "d/x"])) af_w2 in
   o = OOk [] /\ paths (idx_of w3) = [str "ad/x"; str "d-old"; str "d.c/y"; str "d/x"]) /\
  (* a name neither tracked nor in HEAD's snapshot *)
  step (ACmd af_env (CRestore true [str "d-"])) af_w2 = (af_w2, OErr, []) /\
  step (ACmd af_env (CRestore true [str "x"])) af_w2 = (af_w2, OErr, []).
Proof. vm_compute. repeat split. Qed.

(* ---------- `add <tracked directory that is gone>` ---------- *)
(* Before the repair `add` validated with [exists_on_disk w a || tracked w a]
   ([tracked] = exact path look-up, never the directory look-up), so the name of
   a tracked directory that no longer exists on disk was refused with "did not
   match" although tracked paths lie beneath it — whereas `rm d` and `restore d`
   accepted it.  Now the directory look-up is part of the validation, and the
   command unstages every tracked path beneath the name.
   Exact input: track d/x (and others); remove directory d from disk; `add d`. *)
Definition af_w3 : world := Eval vm_compute in run [AEdit (URmTree (str "d"))] af_w.

Lemma af_w3_reachable : Reachable af_w3.
Proof.
  exists (af_hist ++ [AEdit (URmTree (str "d"))])%list. split.
  - apply Forall_app. split; [exact af_hist_ok|]. constructor; [exact Logic.I | constructor].
  - vm_compute. reflexivity.
Qed.

Example add_dir_gone_accepted :
  (* [d] is a tracked directory: d/x is tracked and lies beneath it *)
  is_dir (idx_of af_w3) (str "d") = true /\ tracked af_w3 (str "d/x") = true /\
  (* it is gone from disk, and is not itself a tracked path *)
  exists_on_disk af_w3 (str "d") = false /\ tracked af_w3 (str "d") = false /\
  (* `add d` is accepted and stages the deletion of d/x, the one tracked path beneath d:
     one index write; ad/x, d-old and d.c/y stay staged; work tree and objects untouched *)
  (let '(w4, o, tr) := step (ACmd af_env (CAdd [str "d"])) af_w3 in
   o = OOk [] /\ paths (idx_of w4) = [str "ad/x"; str "d-old"; str "d.c/y"] /\
   length tr = 1 /\ forallb is_idx tr = true /\
   w_files w4 = w_files af_w3 /\ w_dirs w4 = w_dirs af_w3 /\ w_objs w4 = w_objs af_w3) /\
  (* `add d/x` (the tracked PATH) does the same *)
  (let '(w4, o, tr) := step (ACmd af_env (CAdd [str "d/x"])) af_w3 in
   o = OOk [] /\ paths (idx_of w4) = [str "ad/x"; str "d-old"; str "d.c/y"]) /\
  (* `rm d` and `restore d` accept the same name on the same world *)
  (let '(w4, o, tr) := step (ACmd af_env (CRm [str "d"])) af_w3 in
   o = OOk [] /\ paths (idx_of w4) = [str "ad/x"; str "d-old"; str "d.c/y"]) /\
  (let '(w4, o, tr) := step (ACmd af_env (CRestore false [str "d"])) af_w3 in
   o = OOk [] /\ map fst (w_files w4) = [str "ad/x"; str "d-old"; str "d.c/y"; str "d/x"]) /\
  (* the look-alikes are still refused: nothing is beneath "d-" *)
  step (ACmd af_env (CAdd [str "d-"])) af_w3 = (af_w3, OErr, []).
Proof. vm_compute. repeat split. Qed.

(* the general theorem applies to that world *)
Example af_A4_add_dir_gone : forall s, ms_w s = af_w3 ->
  forall c, cmd_add c [str "d"] s = (iterM (add_arg c) [str "d"] ;;; ret []) s.
Proof.
  intros s Hs.
  assert (Hn : names_tracked af_w3 (str "d")).
  { right. exists (str "d/x"). split; [vm_compute; tauto | vm_compute; reflexivity]. }
  assert (Hcoll : w_coll af_w3 = false) by (vm_compute; reflexivity).
  assert (Hsm : SmallStore (w_objs af_w3)) by (apply small_store_b; vm_compute; reflexivity).
  destruct (named_tracked_is_never_refused_at_validation af_w3 (str "d") af_w3_reachable Hcoll Hsm
              Hn s Hs) as (_ & _ & _ & H4).
  exact H4.
Qed.

(* who passes the validation of `add`, as an equivalence on every reachable world:
   a name on disk, or the name of a tracked path or of a tracked directory *)
Theorem add_valid_iff : forall w a,
  Reachable w -> w_coll w = false -> SmallStore (w_objs w) ->
  (add_valid w a = true <-> exists_on_disk w a = true \/ names_tracked w a).
Proof.
  intros w a Hr Hc Hs. pose proof (reach_canonical w Hr Hc Hs) as Hcan.
  rewrite add_valid_rm_valid, orb_true_iff. unfold names_tracked.
  rewrite (rm_valid_iff_canonical w a Hcan). reflexivity.
Qed.

(* ====================================================================== *)
Print Assumptions bsearch_fuel_indep.
Print Assumptions get_entry_fuel_enough.
Print Assumptions tracked_path_found.
Print Assumptions tracked_path_found_entry.
Print Assumptions tracked_entry_unique.
Print Assumptions tracked_dir_iff.
Print Assumptions under_dir_shape.
Print Assumptions longer_name_not_beneath.
Print Assumptions prefixed_name_not_beneath.
Print Assumptions sibling_prefix_not_beneath.
Print Assumptions name_itself_not_beneath.
Print Assumptions dir_selects_exactly.
Print Assumptions dir_selection_in_index_order.
Print Assumptions dir_never_selects_lookalikes.
Print Assumptions cmd_rm_validation.
Print Assumptions cmd_restore_wd_validation.
Print Assumptions cmd_restore_idx_validation.
Print Assumptions cmd_add_validation.
Print Assumptions rm_valid_iff.
Print Assumptions add_valid_iff.
Print Assumptions named_tracked_is_never_refused_at_validation.
Print Assumptions head_name_passes_restore_staged.
Print Assumptions unmatched_name_is_refused.
Print Assumptions unmatched_name_step_refused.
Print Assumptions af_rm_d.
Print Assumptions af_staged_from_head.
Print Assumptions add_dir_gone_accepted.
Print Assumptions af_A4_add_dir_gone.
Print Assumptions af_A1.
Print Assumptions af_A2.
Print Assumptions af_A3.
Print Assumptions af_A4.
Print Assumptions af_A4_converse.
