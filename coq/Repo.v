(* Repo.v — one definition per Goit sub-command, mirroring the order of
   file-system calls in cmd/*.go (after the repairs listed in DESIGN §7), and
   the top-level [step]. *)
From Coq Require Import Strings.String Strings.Byte.
From Coq Require Import List Bool NArith ZArith Arith.
From Goit Require Import Bytes Sha1 Obj Tree Index Regex GoRegex Commit Reflog Config Ignore World.
Import ListNotations.

Record env := mkEnv { e_time : Z; e_off : Z }.     (* time.Now(): instant and zone offset *)

Inductive cmd :=
| CInit
| CConfig (global : bool) (args : list bytes)
| CAdd (args : list bytes)
| CRm (args : list bytes)
| CCommit (msg : bytes)
| CStatus
| CBranch (args : list bytes) (list_flag : bool) (rename delete : bytes)
| CSwitch (args : list bytes) (create : bytes)
| CReset (soft mixed hard : bool) (args : list bytes)
| CRestore (staged : bool) (args : list bytes)
| CUpdateRef (args : list bytes)
| CLog (n : Z)
| CReflog
| CCatFile (t p : bool) (args : list bytes)
| CHashObject (args : list bytes)
| CLsFiles (s : bool)
| CRevParse (args : list bytes)
| CWriteTree.

(* what a command loads before it runs (cmd/root.go init) *)
Record ctx := mkCtx {
  x_l : cfg; x_g : cfg;
  x_headc : option (bytes * commit);     (* id and decoded commit HEAD resolves to *)
  x_pats : list regex }.

Definition load_ctx : M ctx :=
  w <- getw ;;
  g <- of_opt (cfg_of (w_gcfg w)) ;;
  l <- of_opt (cfg_of (w_lcfg w)) ;;
  hc <- match am_get (w_refs w) (w_head w) with
        | None => ret None
        | Some id => c <- of_opt (get_commit (w_objs w) id) ;; ret (Some (id, c))
        end ;;
  pats <- of_opt (ign_load (am_get (w_files w) (str ".goitignore"%string))) ;;
  ret (mkCtx l g hc pats).

Definition the_index : M (list entry) := w <- getw ;; ret (idx_of w).

(* ---------- helpers ---------- *)
Definition exists_on_disk (w : world) (p : bytes) : bool :=
  match wt_stat w p with SFile | SDir => true | _ => false end.

(* Ignore.IsIncluded *)
Definition ignored (w : world) (pats : list regex) (p : bytes) : bool :=
  let target :=
    match wt_stat w p with
    | SNone | SNotDir => if is_nil (entries_by_dir (idx_of w) p) then p else p ++ [c_slash]
    | SDir => if re_search re_directoryRegexp p then p else p ++ [c_slash]
    | SFile => p
    end in
  ign_match pats target.

Definition tracked (w : world) (p : bytes) : bool :=
  match get_entry (idx_of w) p with Some _ => true | None => false end.

(* the filtered walk of `status`: a directory is skipped when it is ignored,
   holds no tracked path and is not itself the path of a tracked entry (a
   tracked file that has become a directory: GetEntry finds it); a file when it
   is ignored and not tracked *)
Definition visible (w : world) (pats : list regex) (f : bytes) : bool :=
  forallb (fun d => negb (ignored w pats d && negb (is_dir (idx_of w) d) && negb (tracked w d))) (ancestors f)
  && negb (ignored w pats f && negb (tracked w f)).

Definition put_obj (k : kind) (d : bytes) : M bytes :=
  emit (EPutObj (obj_id k d) (payload k d)) ;;; ret (obj_id k d).

(* refs.go name validation (after the repair) *)
Definition is_ctl (c : byte) : bool := N.ltb (bN c) 32 || N.eqb (bN c) 127.
Definition valid_branch_name (n : bytes) : bool :=
  negb (is_nil n) && negb (bytes_eqb n [x2e]) && negb (bytes_eqb n [x2e; x2e])
  && negb (contains_byte c_slash n) && negb (contains_byte x5c n)
  && negb (existsb is_ctl n).

Definition dir_empty (w : world) (d : bytes) : bool :=
  negb (existsb (fun kv => under_dir d (fst kv)) (w_files w))
  && negb (existsb (fun x => under_dir d x) (w_dirs w)).

(* create/truncate a work-tree file, making the parent directory if missing *)
Definition wt_put (p data : bytes) : M unit :=
  w <- getw ;;
  match parent_dir p with
   | Some d => match wt_stat w d with
               | SDir => ret tt
               | SNone => emit (EMkdirAll d)
               | _ => fail
               end
   | None => ret tt
   end ;;;
  (w <- getw ;;
   match wt_stat w p with
   | SFile | SNone => emit (EWriteFile p data)
   | _ => fail
   end).

Definition head_tree_nodes (c : ctx) : M (list node) :=
  w <- getw ;;
  match x_headc c with
  | None => ret []
  | Some (_, cm) =>
      d <- of_opt (get_kind (w_objs w) KTree (c_tree cm)) ;;
      of_opt (walk_tree (S (length (w_objs w))) (w_objs w) d)
  end.

Definition log_rec (e : env) (c : ctx) (from to : option bytes) (ty : rtype) (msg : bytes) : bytes :=
  log_line from to (user_name (x_l c) (x_g c)) (user_email (x_l c) (x_g c)) (e_time e) (e_off e) ty msg.

(* ---------- init / config ---------- *)
Definition cmd_init : M (list bytes) :=
  w <- getw ;;
  guard (negb (w_inited w)) ;;; emit EInit ;;; ret [].

(* the config file is line based: an empty section name, or a line feed in
   "<section>.<key>" or in the value, would write a file that no command can
   load any more; such a call is refused before anything is created or written *)
Definition config_lines_ok (sec key value : bytes) : bool :=
  negb (is_nil sec) && negb (contains_byte c_nl key) && negb (contains_byte c_nl value).
(* the loader reads a key back up to the first '=', without tabs and without
   surrounding white space: a key with an '=' or a TAB in it, or with leading or
   trailing white space, would be taken for (and overwrite) ANOTHER key; such a
   key is refused as well (an empty key is not) *)
Definition config_key_ok (k : bytes) : bool :=
  negb (contains_byte x3d k) && negb (contains_byte c_tab k) && bytes_eqb (trim_space k) k.
Definition config_args_ok (sec k key value : bytes) : bool :=
  config_lines_ok sec key value && config_key_ok k.

Definition cmd_config (c : ctx) (global : bool) (args : list bytes) : M (list bytes) :=
  match args with
  | [key; value] =>
    match split_all x2e key with
    | [sec; k] =>
      guard (config_args_ok sec k key value) ;;;
      w <- getw ;;
      (if global then
         match w_gcfg w with
         | CfgAbsent => emit (ESetGcfg (CfgFile (Some [])))
         | _ => ret tt
         end
       else ret tt) ;;;
      (if global then emit (ESetGcfg (cfg_written (cfg_add (x_g c) sec k value)))
       else emit (ESetLcfg (cfg_written (cfg_add (x_l c) sec k value)))) ;;;
      ret []
    | _ => fail
    end
  | _ => fail
  end.

(* ---------- add ---------- *)
Definition add_file (p : bytes) : M unit :=
  w <- getw ;;
  data <- of_opt (am_get (w_files w) p) ;;
  let id := obj_id KBlob data in
  match get_entry (idx_of w) p with
  | Some (_, e) =>
      if bytes_eqb (e_id e) id then ret tt
      else put_obj KBlob data ;;; emit (ESetIndex (match idx_update (idx_of w) id p with Some i => i | None => idx_of w end))
  | None =>
      put_obj KBlob data ;;; emit (ESetIndex (match idx_update (idx_of w) id p with Some i => i | None => idx_of w end))
  end.

Definition cmd_add (c : ctx) (args : list bytes) : M (list bytes) :=
  guard (negb (is_nil args)) ;;;
  (w <- getw ;;
   guard (forallb (fun a => exists_on_disk w a || tracked w a || is_dir (idx_of w) a) args)) ;;;
  iterM (fun a =>
    w <- getw ;;
    if ignored w (x_pats c) a then ret tt
    else match wt_stat w a with
         | SNone | SNotDir =>
             if tracked w a then
               i <- of_opt (idx_delete (idx_of w) a) ;; emit (ESetIndex i)
             else if is_dir (idx_of w) a then
               (* a tracked directory that no longer exists: every tracked path beneath it is
                  unstaged, one index write each (as rm does) *)
               iterM (fun q => w' <- getw ;; i <- of_opt (idx_delete (idx_of w') q) ;; emit (ESetIndex i))
                     (map e_path (entries_by_dir (idx_of w) a))
             else fail
         | SDir =>
             iterM (fun f => w' <- getw ;; if ignored w' (x_pats c) f then ret tt else add_file f)
                   (files_under w a)
         | SFile => add_file a
         end) args ;;;
  ret [].

(* ---------- rm ---------- *)
Definition rm_one (p : bytes) : M unit :=
  w <- getw ;;
  match wt_stat w p with
   | SNone => ret tt
   | SFile => emit (ERemovePath p)
   | SDir => if dir_empty w p then emit (ERemovePath p) else fail
   | SNotDir => fail
   end ;;;
  (w' <- getw ;; i <- of_opt (idx_delete (idx_of w') p) ;; emit (ESetIndex i)).

Definition cmd_rm (args : list bytes) : M (list bytes) :=
  (w <- getw ;; guard (forallb (fun a => tracked w a || is_dir (idx_of w) a) args)) ;;;
  iterM (fun a =>
    w <- getw ;;
    if tracked w a then rm_one a
    else iterM rm_one (map e_path (entries_by_dir (idx_of w) a))) args ;;;
  ret [].

(* ---------- commit ---------- *)
Definition do_commit (e : env) (c : ctx) (msg : bytes) : M unit :=
  w <- getw ;;
  tr <- of_opt (write_tree_top (idx_of w)) ;;
  iterM (fun d => put_obj KTree d ;;; ret tt) (snd tr ++ [fst tr]) ;;;
  let name := user_name (x_l c) (x_g c) in
  let email := user_email (x_l c) (x_g c) in
  let parent := match am_get (w_refs w) (w_head w) with Some id => Some (hex id) | None => None end in
  let sg := sign_string name email (e_time e) (e_off e) in
  let data := commit_text (obj_id KTree (fst tr)) parent sg sg msg in
  _ <- of_opt (parse_commit data) ;;
  cid <- put_obj KCommit data ;;
  from <- (if am_mem (w_refs w) (w_head w) then
             match x_headc c with
             | Some (hid, _) => emit (ESetRef (w_head w) cid) ;;; ret (Some hid)
             | None => fail
             end
           else guard (valid_branch_name (w_head w)) ;;; emit (ESetRef (w_head w) cid) ;;; ret None) ;;
  let line := log_rec e c from (Some cid) RCommit (first_line msg) in
  emit (EAppendHlog line) ;;; emit (EAppendBlog (w_head w) line) ;;;
  emit (ESetHead (w_head w)).

Definition cmd_commit (e : env) (c : ctx) (msg : bytes) : M (list bytes) :=
  guard (user_set (x_l c) (x_g c)) ;;;
  (w <- getw ;;
   if is_nil (w_refs w) then
     guard (negb (is_nil (idx_of w))) ;;; do_commit e c msg
   else
     match x_headc c with
     | None => fail
     | Some _ =>
         ns <- head_tree_nodes c ;;
         guard (negb (is_nil (diff_with_tree (idx_of w) ns))) ;;; do_commit e c msg
     end) ;;;
  ret [].

(* ---------- status ---------- *)
Definition dkind_tag (k : dkind) : bytes :=
  match k with DDeleted => str "staged-deleted "%string | DNew => str "staged-new "%string | DModified => str "staged-modified "%string end.

Definition cmd_status (c : ctx) : M (list bytes) :=
  w <- getw ;;
  ns <- head_tree_nodes c ;;
  let idx := idx_of w in
  let vis := filter (fun kv => visible w (x_pats c) (fst kv)) (w_files w) in
  let untracked := filter (fun kv => negb (tracked w (fst kv))) vis in
  let modified :=
    filter (fun kv => match get_entry idx (fst kv) with
                      | Some (_, e) => negb (bytes_eqb (e_id e) (obj_id KBlob (snd kv)))
                      | None => false
                      end) vis in
  let deleted := filter (fun e => match wt_stat w (e_path e) with SFile => false | _ => true end) idx in
  ret (map (fun d => dkind_tag (fst d) ++ snd d) (diff_with_tree idx ns)
       ++ map (fun kv => str "modified "%string ++ fst kv) modified
       ++ map (fun e => str "deleted "%string ++ e_path e) deleted
       ++ map (fun kv => str "untracked "%string ++ fst kv) untracked).

(* ---------- branch ---------- *)
Definition cmd_branch (e : env) (c : ctx) (args : list bytes) (lst : bool) (rename delete : bytes)
  : M (list bytes) :=
  let nr := is_nil rename in let nd := is_nil delete in
  guard ((Nat.eqb (length args) 1 && negb lst && nr && nd)
         || (is_nil args && lst && nr && nd)
         || (is_nil args && negb lst && negb nr && nd)
         || (is_nil args && negb lst && nr && negb nd)) ;;;
  (match args with
   | [name] =>
       w <- getw ;;
       match x_headc c with
       | None => fail
       | Some (hid, _) =>
           guard (negb (am_mem (w_refs w) name)) ;;; guard (valid_branch_name name) ;;;
           emit (ESetRef name hid) ;;;
           emit (EAppendBlog name (log_rec e c None (Some hid) RBranch (str "Created from "%string ++ w_head w)))
       end
   | _ => ret tt
   end) ;;;
  out <- (w <- getw ;;
          if lst then ret (map (fun kv => (if bytes_eqb (fst kv) (w_head w) then str "* "%string else []) ++ fst kv) (w_refs w))
          else ret []) ;;
  (if negb nr then
     w <- getw ;;
     match x_headc c with
     | None => fail
     | Some (hid, _) =>
         let prev := w_head w in
         guard (negb (am_mem (w_refs w) rename)) ;;; guard (am_mem (w_refs w) prev) ;;;
         guard (valid_branch_name rename) ;;;
         (* the new branch file is written first, HEAD is pointed at it, and only then is the old
            branch file removed: every intermediate state names existing branches *)
         emit (ESetRef rename hid) ;;;
         emit (ESetHead rename) ;;;
         emit (EDelRef prev) ;;;
         let msg := str "renamed refs/heads/"%string ++ prev ++ str " to refs/heads/"%string ++ rename in
         emit (EAppendHlog (log_rec e c (Some hid) None RBranch msg)) ;;;
         emit (EAppendHlog (log_rec e c None (Some hid) RBranch msg)) ;;;
         guard (am_mem (w_blogs w) prev) ;;; emit (EDelBlog prev) ;;;
         emit (EAppendBlog rename (log_rec e c None (Some hid) RBranch (str "Created from "%string ++ prev))) ;;;
         emit (EAppendBlog rename (log_rec e c (Some hid) (Some hid) RBranch
                 (str "renamed refs/heads/"%string ++ prev ++ str " refs/heads/"%string ++ rename)))
     end
   else ret tt) ;;;
  (if negb nd then
     w <- getw ;;
     guard (negb (bytes_eqb delete (w_head w))) ;;; guard (am_mem (w_refs w) delete) ;;;
     emit (EDelRef delete) ;;;
     guard (am_mem (w_blogs w) delete) ;;; emit (EDelBlog delete)
   else ret tt) ;;;
  ret out.

(* ---------- switch ---------- *)
(* Head.Update: the branch must exist; HEAD is rewritten, then the commit of
   the new branch is loaded *)
Definition head_update (name : bytes) : M bytes :=
  w <- getw ;;
  id <- of_opt (am_get (w_refs w) name) ;;
  emit (ESetHead name) ;;;
  (_ <- of_opt (get_commit (w_objs w) id) ;; ret id).

Definition cmd_switch (e : env) (c : ctx) (args : list bytes) (create : bytes) : M (list bytes) :=
  guard (Nat.ltb (length args) 2) ;;;
  guard (negb (is_nil create && is_nil args)) ;;;
  guard (negb (negb (is_nil create) && negb (is_nil args))) ;;;
  (match args with
   | [a] =>
       w <- getw ;;
       match x_headc c with
       | None => fail
       | Some _ =>
           id <- head_update a ;;
           emit (EAppendHlog (log_rec e c (Some id) (Some id) RCheckout
                   (str "moving from "%string ++ w_head w ++ str " to "%string ++ a)))
       end
   | _ => ret tt
   end) ;;;
  (if negb (is_nil create) then
     w <- getw ;;
     match x_headc c with
     | None => fail
     | Some (hid, _) =>
         guard (negb (am_mem (w_refs w) create)) ;;; guard (valid_branch_name create) ;;;
         emit (ESetRef create hid) ;;;
         _ <- head_update create ;;
         emit (EAppendHlog (log_rec e c (Some hid) (Some hid) RCheckout
                 (str "moving from "%string ++ w_head w ++ str " to "%string ++ create))) ;;;
         emit (EAppendBlog create (log_rec e c None (Some hid) RBranch (str "Created from "%string ++ w_head w)))
     end
   else ret tt) ;;;
  ret [].

(* ---------- reset ---------- *)
(* "HEAD@{<digits>}" -> the number *)
Definition reset_arg (a : bytes) : option N :=
  if re_search re_resetRegexp a then
    parse_dec (firstn (length a - 7) (skipn 6 a))
  else None.

Definition cmd_reset (e : env) (c : ctx) (soft mixed hard : bool) (args : list bytes) : M (list bytes) :=
  let mixed := if soft || hard then false else mixed in
  guard ((soft && negb mixed && negb hard) || (negb soft && mixed && negb hard)
         || (negb soft && negb mixed && hard)) ;;;
  match args with
  | [a] =>
    n <- of_opt (reset_arg a) ;;
    guard (N.leb n 9223372036854775807) ;;;
    w <- getw ;;
    hl <- of_opt (w_hlog w) ;;
    rs <- of_opt (parse_reflog hl) ;;
    r <- of_opt (get_record rs (N.to_nat (N.min n (N.of_nat (length rs))))) ;;
    tid <- of_opt (r_id r) ;;
    (* resetHead *)
    match x_headc c with
    | None => fail
    | Some (prev, _) =>
        tc <- of_opt (get_commit (w_objs w) tid) ;;
        guard (am_mem (w_refs w) (w_head w)) ;;;
        emit (ESetRef (w_head w) tid) ;;;
        let line := log_rec e c (Some prev) (Some tid) RReset (str "moving to "%string ++ a) in
        emit (EAppendHlog line) ;;; emit (EAppendBlog (w_head w) line) ;;;
        (if mixed || hard then
           d <- of_opt (get_kind (w_objs w) KTree (c_tree tc)) ;;
           ns <- of_opt (walk_tree (S (length (w_objs w))) (w_objs w) d) ;;
           let es := flatten [] ns in
           emit (ESetIndex es) ;;;
           (if hard then
              iterM (fun en =>
                       w' <- getw ;;
                       kd <- of_opt (get_obj (w_objs w') (e_id en)) ;;
                       wt_put (e_path en) (snd kd)) es
            else ret tt)
         else ret tt) ;;;
        ret []
    end
  | _ => fail
  end.

(* ---------- restore ---------- *)
Definition restore_wd (p : bytes) : M unit :=
  w <- getw ;;
  match get_entry (idx_of w) p with
  | None => fail
  | Some (_, en) =>
      kd <- of_opt (get_obj (w_objs w) (e_id en)) ;;
      wt_put p (snd kd)
  end.

Definition leaf_node (ns : list node) (p : bytes) : option node :=
  match get_node ns p with
  | Some n => if is_leaf n then Some n else None
  | None => None
  end.

Definition restore_index (ns : list node) (p : bytes) : M unit :=
  w <- getw ;;
  match get_entry (idx_of w) p, leaf_node ns p with
  | Some _, Some n | None, Some n =>
      match idx_update (idx_of w) (n_id n) p with
      | Some i => emit (ESetIndex i)
      | None => ret tt
      end
  | Some _, None => i <- of_opt (idx_delete (idx_of w) p) ;; emit (ESetIndex i)
  | None, None => fail
  end.

Fixpoint dedup (l : list bytes) : list bytes :=
  match l with
  | [] => []
  | x :: r => if set_mem r x then dedup r else x :: dedup r
  end.
(* keep the first occurrence *)
Definition dedup_first (l : list bytes) : list bytes := rev (dedup (rev l)).

Definition dirname (p : bytes) : bytes := match parent_dir p with Some d => d | None => [] end.

Definition restore_targets (w : world) (staged : bool) (ns : list node) (a : bytes) : list bytes :=
  if staged then
    if tracked w a || (match leaf_node ns a with Some _ => true | None => false end) then [a]
    else
      dedup_first
        (map e_path (entries_by_dir (idx_of w) a)
         (* the root of the snapshot is not a node: every path of HEAD lies beneath "." *)
         ++ (if bytes_eqb a [x2e] then map e_path (flatten [] ns) else [])
         ++ match get_node ns a with
            | Some n => if is_leaf n then [] else map e_path (flatten_node (dirname a) n)
            | None => []
            end)
  else
    if tracked w a then [a] else map e_path (entries_by_dir (idx_of w) a).

Definition cmd_restore (c : ctx) (staged : bool) (args : list bytes) : M (list bytes) :=
  guard (negb (is_nil args)) ;;;
  w <- getw ;;
  ns <- (if staged then
           guard (am_mem (w_refs w) (w_head w)) ;;;
           match x_headc c with None => fail | Some _ => head_tree_nodes c end
         else ret []) ;;
  let tgs := map (restore_targets w staged ns) args in
  guard (forallb (fun t => negb (is_nil t)) tgs) ;;;
  iterM (fun t => iterM (fun p => if staged then restore_index ns p else restore_wd p) t) tgs ;;;
  ret [].

(* ---------- update-ref ---------- *)
Definition cmd_update_ref (args : list bytes) : M (list bytes) :=
  match args with
  | [r; h] =>
      guard (re_search re_branchRegexp r) ;;;
      let name := last (split_all c_slash r) [] in
      guard (Nat.eqb (length h) 40) ;;;
      guard (forallb is_lower_hex h) ;;;
      id <- of_opt (unhex h) ;;
      w <- getw ;;
      guard (match st_lookup (w_objs w) id with Some _ => true | None => false end) ;;;
      _ <- of_opt (get_commit (w_objs w) id) ;;
      guard (am_mem (w_refs w) name) ;;;
      emit (ESetRef name id) ;;;
      _ <- head_update name ;;
      ret []
  | _ => fail
  end.

(* ---------- log ---------- *)
Fixpoint walk_history (fuel : nat) (st : store) (queue : list bytes) (visited : list bytes)
                      (count : Z) (maxc : Z) : option (list bytes) :=
  match fuel with
  | O => None
  | S f =>
    match queue with
    | [] => Some []
    | h :: q =>
      let count' := (count + 1)%Z in
      if Z.ltb maxc count' then Some []
      else if set_mem visited h then walk_history f st q visited count' maxc
      else match get_commit st h with
           | None => None
           | Some cm =>
             match walk_history f st (q ++ c_parents cm) (h :: visited) count' maxc with
             | Some l => Some (h :: l)
             | None => None
             end
           end
    end
  end.

Definition cmd_log (c : ctx) (n : Z) : M (list bytes) :=
  w <- getw ;;
  guard (negb (is_nil (w_refs w))) ;;;
  match x_headc c with
  | None => fail
  | Some (hid, _) =>
      ids <- of_opt (walk_history (S (S (2 * length (w_objs w)))) (w_objs w) [hid] [] 0 n) ;;
      ret (map hex ids)
  end.

(* ---------- reflog ---------- *)
Definition nat_dec (n : nat) : bytes := dec (N.of_nat n).
Definition cmd_reflog : M (list bytes) :=
  w <- getw ;;
  hl <- of_opt (w_hlog w) ;;
  rs <- of_opt (parse_reflog hl) ;;
  ret (map (fun '(sid, i, ty, msg) => sid ++ [c_sp] ++ nat_dec i ++ [c_sp] ++ rtype_s ty ++ [c_sp] ++ msg)
           (show_reflog rs)).

(* ---------- plumbing ---------- *)
Definition cmd_cat_file (t p : bool) (args : list bytes) : M (list bytes) :=
  match args with
  | [a] =>
      guard (negb (t && p)) ;;;
      id <- of_opt (read_hash a) ;;
      w <- getw ;;
      kd <- of_opt (get_obj (w_objs w) id) ;;
      tl <- ret (if t then [kind_s (fst kd)] else []) ;;
      pl <- (if p then
               match fst kd with
               | KTree =>
                   ns <- of_opt (walk_tree (S (length (w_objs w))) (w_objs w) (snd kd)) ;;
                   ret (map (fun '(isd, i, n) => (if isd : bool then str "tree "%string else str "blob "%string) ++ hex i ++ [c_sp] ++ n)
                            (tree_listing ns))
               | _ => ret [snd kd]
               end
             else ret []) ;;
      ret (tl ++ pl)
  | _ => fail
  end.

Definition cmd_hash_object (args : list bytes) : M (list bytes) :=
  w <- getw ;;
  (fix go (l : list bytes) : M (list bytes) :=
     match l with
     | [] => ret []
     | a :: r =>
         match wt_stat w a with
         | SFile =>
             d <- of_opt (am_get (w_files w) a) ;;
             rest <- go r ;; ret (hex (obj_id KBlob d) :: rest)
         | _ => fail
         end
     end) args.

Definition cmd_ls_files (s : bool) : M (list bytes) :=
  w <- getw ;;
  ret (map (fun en => if s then hex (e_id en) ++ [c_sp] ++ e_path en else e_path en) (idx_of w)).

Definition lower (b : byte) : byte :=
  let n := bN b in if N.leb 65 n && N.leb n 90 then Nb (n + 32) else b.

Definition cmd_rev_parse (args : list bytes) : M (list bytes) :=
  w <- getw ;;
  (fix go (l : list bytes) : M (list bytes) :=
     match l with
     | [] => ret []
     | a :: r =>
         let name := if bytes_eqb a (str "HEAD"%string) then w_head w else a in
         id <- of_opt (am_get (w_refs w) name) ;;
         rest <- go r ;; ret (hex id :: rest)
     end) args.

Definition cmd_write_tree : M (list bytes) :=
  w <- getw ;;
  tr <- of_opt (write_tree_top (idx_of w)) ;;
  iterM (fun d => put_obj KTree d ;;; ret tt) (snd tr ++ [fst tr]) ;;;
  ret [hex (obj_id KTree (fst tr))].

(* ---------- the step ---------- *)
Definition run_cmd (e : env) (c : cmd) : M (list bytes) :=
  w <- getw ;;
  match c with
  | CInit => cmd_init
  | _ =>
    guard (w_inited w) ;;;
    x <- load_ctx ;;
    match c with
    | CInit => fail
    | CConfig g args => cmd_config x g args
    | CAdd args => cmd_add x args
    | CRm args => cmd_rm args
    | CCommit msg => cmd_commit e x msg
    | CStatus => cmd_status x
    | CBranch args l r d => cmd_branch e x args l r d
    | CSwitch args cr => cmd_switch e x args cr
    | CReset s m h args => cmd_reset e x s m h args
    | CRestore st args => cmd_restore x st args
    | CUpdateRef args => cmd_update_ref args
    | CLog n => cmd_log x n
    | CReflog => cmd_reflog
    | CCatFile t p args => cmd_cat_file t p args
    | CHashObject args => cmd_hash_object args
    | CLsFiles s => cmd_ls_files s
    | CRevParse args => cmd_rev_parse args
    | CWriteTree => cmd_write_tree
    end
  end.

(* what the user does to the work tree between commands *)
Inductive edit :=
| UWrite (p data : bytes)        (* create or overwrite, making parent directories *)
| UDelete (p : bytes)            (* remove one file *)
| URmTree (p : bytes)            (* remove a directory and everything below it *)
| UMkdir (p : bytes).

Definition apply_edit (u : edit) (w : world) : world :=
  match u with
  | UWrite p d =>
      let w1 := match parent_dir p with Some dd => apply_effect (EMkdirAll dd) w | None => w end in
      apply_effect (EWriteFile p d) w1
  | UDelete p => apply_effect (ERemovePath p) w
  | URmTree p =>
      set_wt w (filter (fun kv => negb (under_dir p (fst kv)) && negb (bytes_eqb (fst kv) p)) (w_files w))
               (filter (fun d => negb (under_dir p d) && negb (bytes_eqb d p)) (w_dirs w))
  | UMkdir p => apply_effect (EMkdirAll p) w
  end.

Inductive action := ACmd (e : env) (c : cmd) | AEdit (u : edit).

Inductive outcome := OOk (out : list bytes) | OErr | OPanic.

Definition step (a : action) (w : world) : world * outcome * list effect :=
  match a with
  | AEdit u => (apply_edit u w, OOk [], [])
  | ACmd e c =>
      match run_m (run_cmd e c) w with
      | (Ok out, w', tr) => (w', OOk out, tr)
      | (Err, w', tr) => (w', OErr, tr)
      | (Panic, w', tr) => (w', OPanic, tr)
      end
  end.

Definition step_w (a : action) (w : world) : world := fst (fst (step a w)).
Definition run (h : list action) (w : world) : world := fold_left (fun w a => step_w a w) h w.
